// C57 — Rock::Rebuild on enumerated on-disk images (E1, fault enumeration).
//
// Real code: Rock::SwapDir + Rock::Rebuild + Ipc::StoreMap + store_rebuild.cc of the current tree
// (tests/testRock link set), driven the way tests/testRock.cc drives them, but on a db file written
// by this harness: 16 KB db header + n slots of 512 bytes (n = 4 or 5), each slot = DbCellHeader +
// payload.  Base images: every layout of one or two valid entries (1..3 slots each, every assignment
// of chain slots to db positions); mutants: one (or two) deviations from a base image: any header
// field of any slot set to another value of its small domain, a slot zeroed, a slot copied over
// another, the file truncated.  Every image is rebuilt in a forked process; afterwards that process
// walks the resulting map and free-slot stack and judges them against the image it wrote:
//   * the rebuild terminates normally (no signal, ASan report, assertion, fatal(), hang);
//   * every readable entry has an acyclic chain of distinct in-range slots, used by no other readable
//     entry, not handed out as free space, whose slice sizes add up to the entry's swap_file_sz, and
//     every chain slot is, on disk, a slot of that entry (same key, same payload size).
// Slots that are neither free nor in a readable chain (leaks) are counted as observations only.
#include "squid.h"
#include "base/AsyncCallQueue.h"
#include "base/RunnersRegistry.h"
#include "ConfigParser.h"
#include "DiskIO/DiskIOModule.h"
#include "event.h"
#include "fde.h"
#include "fs/rock/RockDbCell.h"
#include "fs/rock/RockRebuild.h"
#include "fs/rock/RockSwapDir.h"
#include "globals.h"
#include "HttpHeader.h"
#include "ipc/mem/Page.h"
#include "ipc/mem/PageStack.h"
#include "ipc/mem/Segment.h"
#include "ipc/StoreMap.h"
#include "MemObject.h"
#include "SquidConfig.h"
#include "Store.h"
#include "store/Controller.h"
#include "store/Disks.h"
#include "store/SwapMeta.h"
#include "StoreFileSystem.h"
#include "time/gadgets.h"

#include "vharness.h"

#include <fcntl.h>
#include <signal.h>
#include <sys/stat.h>
#include <sys/time.h>

extern REMOVALPOLICYCREATE createRemovalPolicy_lru;

// store_rebuild.cc of the tree is linked instead of tests/stub_store_rebuild.cc (which "reads" zeros);
// its only reference missing from the link set (used when a cache digest exists; there is none here):
void storeDigestNoteStoreReady() {}

namespace {

const int SlotSize = 512;
const int HeaderSize = 16 * 1024;
const int PayloadCap = SlotSize - (int)sizeof(Rock::DbCellHeader);   // 472
const int LastPayload = 200;

struct Key { uint64_t k[2]; };
bool operator==(const Key &a, const Key &b) { return a.k[0] == b.k[0] && a.k[1] == b.k[1]; }

// ---------------------------------------------------------------- image model
struct SlotImg {
    Rock::DbCellHeader h;
    std::string payload;      // bytes following the cell header (not padded)
    bool blank = true;        // all-zero slot
};

struct Image {
    int n = 0;
    std::vector<SlotImg> slots;
    long truncateAt = -1;     // file length, -1 = full
    std::string bytes() const {
        std::string f(HeaderSize + n * SlotSize, '\0');
        for (int i = 0; i < n; ++i) {
            if (slots[i].blank) continue;
            const size_t at = HeaderSize + i * SlotSize;
            memcpy(&f[at], &slots[i].h, sizeof(Rock::DbCellHeader));
            const size_t len = std::min<size_t>(slots[i].payload.size(), PayloadCap);
            memcpy(&f[at + sizeof(Rock::DbCellHeader)], slots[i].payload.data(), len);
        }
        if (truncateAt >= 0 && (size_t)truncateAt < f.size()) f.resize(truncateAt);
        return f;
    }
};

Key keyOf(int entry, int n)
{
    // entry 1 -> anchor 1, entry 2 -> anchor 2, entry 3 ("K1c") collides with entry 1, 0 -> the all-zero key
    Key k;
    k.k[1] = 0;
    k.k[0] = entry == 0 ? 0 : entry == 3 ? (uint64_t)(n + 1) : (uint64_t)entry;
    return k;
}

template <class T> void put(std::string &s, const T &v) { s.append((const char *)&v, sizeof(v)); }

// the first payload bytes of an entry: swap metadata as Store::PackSwapMeta lays it out, then a reply
std::string inodePrefix(const Key &key, uint32_t version)
{
    std::string tlvs;
    tlvs += (char)Store::STORE_META_KEY_MD5; put(tlvs, (int)16); tlvs.append((const char *)key.k, 16);
    struct { time_t timestamp, lastref, expires, lastmod; uint64_t swap_file_sz; uint16_t refcount, flags; } __attribute__((packed)) std_;
    std_.timestamp = version; std_.lastref = version; std_.expires = -1; std_.lastmod = -1; std_.swap_file_sz = 0; std_.refcount = 1; std_.flags = 0;
    static_assert(sizeof(std_) == 44, "STORE_HDR_METASIZE");
    tlvs += (char)Store::STORE_META_STD_LFS; put(tlvs, (int)sizeof(std_)); tlvs.append((const char *)&std_, sizeof(std_));
    const std::string url = "http://verif.example/" + std::to_string(key.k[0]);
    tlvs += (char)Store::STORE_META_URL; put(tlvs, (int)(url.size() + 1)); tlvs += url; tlvs += '\0';
    std::string s;
    s += (char)Store::SwapMetaMagic;
    put(s, (int)(Store::SwapMetaPrefixSize + tlvs.size()));
    s += tlvs;
    s += "HTTP/1.1 200 OK\r\nContent-Type: x-squid-internal/test\r\n\r\n";
    return s;
}

struct EntryPlan { int id; std::vector<int> at; };     // chain slot positions, in chain order

Image baseImage(int n, const std::vector<EntryPlan> &entries)
{
    Image im;
    im.n = n;
    im.slots.resize(n);
    for (const EntryPlan &e : entries) {
        const Key key = keyOf(e.id, n);
        const uint32_t version = 1000 * e.id;
        const int k = e.at.size();
        uint64_t total = 0;
        for (int i = 0; i < k; ++i) total += (i == k - 1) ? LastPayload : PayloadCap;
        for (int i = 0; i < k; ++i) {
            SlotImg &s = im.slots[e.at[i]];
            s.blank = false;
            memset(&s.h, 0, sizeof(s.h));
            s.h.key[0] = key.k[0]; s.h.key[1] = key.k[1];
            s.h.payloadSize = (i == k - 1) ? LastPayload : PayloadCap;
            s.h.entrySize = (i == k - 1) ? total : 0;       // only the last written slot knows the total
            s.h.version = version;
            s.h.firstSlot = e.at[0];
            s.h.nextSlot = (i == k - 1) ? -1 : e.at[i + 1];
            s.payload = (i == 0) ? inodePrefix(key, version) : std::string();
            s.payload.resize(s.h.payloadSize, (char)('A' + e.id));
        }
    }
    return im;
}

// ---------------------------------------------------------------- deviations
struct Dev {
    enum Kind { Field, Zero, Copy, Truncate } kind;
    int slot = 0, field = 0, other = 0;
    long long value = 0;
    std::string name;
};

const char *FieldNames[] = {"key", "entrySize", "payloadSize", "version", "firstSlot", "nextSlot"};

bool applyDev(Image &im, const Dev &d)      // false: no change (value already there)
{
    switch (d.kind) {
    case Dev::Zero:
        if (im.slots[d.slot].blank) return false;
        im.slots[d.slot] = SlotImg();
        return true;
    case Dev::Copy:
        if (im.slots[d.slot].blank) return false;
        im.slots[d.other] = im.slots[d.slot];
        return true;
    case Dev::Truncate:
        im.truncateAt = d.value;
        return true;
    case Dev::Field: {
        SlotImg &s = im.slots[d.slot];
        if (s.blank) { memset(&s.h, 0, sizeof(s.h)); }
        Rock::DbCellHeader before = s.h;
        switch (d.field) {
        case 0: { const Key k = keyOf((int)d.value, im.n); s.h.key[0] = k.k[0]; s.h.key[1] = k.k[1]; break; }
        case 1: s.h.entrySize = (uint64_t)d.value; break;
        case 2: s.h.payloadSize = (uint32_t)d.value; break;
        case 3: s.h.version = (uint32_t)d.value; break;
        case 4: s.h.firstSlot = (sfileno)d.value; break;
        case 5: s.h.nextSlot = (sfileno)d.value; break;
        }
        if (memcmp(&before, &s.h, sizeof(before)) == 0) return false;
        if (s.blank) { s.blank = false; s.payload.assign(LastPayload, 'z'); }
        return true;
    }
    }
    return false;
}

std::vector<Dev> deviations(const Image &base, bool withWholeSlotOps)
{
    std::vector<Dev> v;
    const int n = base.n;
    auto field = [&](int slot, int f, long long value) {
        Dev d; d.kind = Dev::Field; d.slot = slot; d.field = f; d.value = value;
        d.name = "slot" + std::to_string(slot) + "." + FieldNames[f] + "=" + (f == 0 ? (value == 0 ? std::string("zero") : value == 3 ? std::string("K1c") : "K" + std::to_string(value)) : std::to_string(value));
        v.push_back(d);
    };
    for (int s = 0; s < n; ++s) {
        const SlotImg &si = base.slots[s];
        for (int k : {0, 1, 2, 3}) field(s, 0, k);
        // the entry total this slot belongs to (or a plausible one for a blank slot)
        uint64_t total = LastPayload;
        if (!si.blank) {
            total = 0;
            for (const SlotImg &o : base.slots) if (!o.blank && o.h.key[0] == si.h.key[0]) total += o.h.payloadSize;
        }
        for (long long x : {0LL, (long long)total, (long long)total + 1, (long long)total - 1}) field(s, 1, x);
        const long long p = si.blank ? LastPayload : si.h.payloadSize;
        for (long long x : {0LL, p, p - 1, p + 1, (long long)PayloadCap, (long long)PayloadCap + 1, (long long)LastPayload}) field(s, 2, x);
        for (long long x : {0LL, 1000LL, 2000LL, 1001LL}) field(s, 3, x);
        for (int x = -1; x <= n; ++x) field(s, 4, x);
        for (int x = -1; x <= n; ++x) field(s, 5, x);
    }
    if (withWholeSlotOps) {
        for (int s = 0; s < n; ++s) { Dev d; d.kind = Dev::Zero; d.slot = s; d.name = "zero-slot" + std::to_string(s); v.push_back(d); }
        for (int s = 0; s < n; ++s) for (int t = 0; t < n; ++t) {
            if (s == t) continue;
            Dev d; d.kind = Dev::Copy; d.slot = s; d.other = t; d.name = "copy-slot" + std::to_string(s) + "-over-" + std::to_string(t); v.push_back(d);
        }
        std::vector<long> cuts = {0, 100, HeaderSize};
        for (int s = 0; s < n; ++s) for (long off : {20L, 40L, 100L, (long)SlotSize - 1}) cuts.push_back(HeaderSize + s * SlotSize + off);
        for (int s = 1; s < n; ++s) cuts.push_back(HeaderSize + s * SlotSize);
        for (long c : cuts) { Dev d; d.kind = Dev::Truncate; d.value = c; d.name = "truncate@" + std::to_string(c); v.push_back(d); }
    }
    return v;
}

// ---------------------------------------------------------------- running one image in a forked process
struct Verdict {
    volatile int done;
    volatile int readable, leaked, writeLocked, freeSlots, dirsRebuilding, anchorKeyDiffers;
    char key[200];
    char msg[1200];
};
Verdict *verdict = nullptr;
std::string workDir;

void setVerdict(const std::string &key, const std::string &msg)
{
    if (verdict->key[0]) return;
    snprintf(verdict->key, sizeof verdict->key, "%s", key.c_str());
    snprintf(verdict->msg, sizeof verdict->msg, "%s", msg.c_str());
}

struct Session {
    RefCount<Rock::SwapDir> store;
    Rock::SwapDirRr *rr = nullptr;
};

void rebuildAndJudgeInner(const Image &im, Session &ses);

// in a forked process: rebuild the index from `im`, judge the result, and undo the set-up so that the
// same process can take the next image (a batch worker rebuilds many images)
void rebuildAndJudge(const Image &im)
{
    Session ses;
    rebuildAndJudgeInner(im, ses);
    // tear down like TestRock::tearDown(); the SwapDir object itself stays alive (it holds a
    // reference to itself since init()), only its registration goes away
    AsyncCallQueue::Instance().fire();
    EventScheduler::GetInstance()->clean();
    ses.store = nullptr;
    free_cachedir(&Config.cacheSwap);
    delete ses.rr;            // unlinks the shared segments
    StoreController::store_dirs_rebuilding = 1;   // its value at process start
}

void rebuildAndJudgeInner(const Image &im, Session &ses)
{
    const std::string file = workDir + "/rock";
    {
        const std::string bytes = im.bytes();
        const int fd = open(file.c_str(), O_WRONLY | O_CREAT | O_TRUNC, 0600);
        if (fd < 0 || write(fd, bytes.data(), bytes.size()) != (ssize_t)bytes.size()) { setVerdict("harness:cannot-write-image", strerror(errno)); return; }
        close(fd);
    }

    const bool dbg = getenv("C57_DEBUG") != nullptr;
    auto stamp = [&](const char *what) { if (dbg) { struct timeval tv; gettimeofday(&tv, nullptr); fprintf(stderr, "t=%ld.%06ld %s\n", (long)tv.tv_sec % 1000, (long)tv.tv_usec, what); } };
    stamp("image written");
    if (dbg) {
        struct stat sb; stat(file.c_str(), &sb);
        fprintf(stderr, "file size %ld\n", (long)sb.st_size);
        FILE *f = fopen(file.c_str(), "r");
        for (int i = 0; i < im.n && f; ++i) { unsigned char b[40]; fseek(f, HeaderSize + i * SlotSize, SEEK_SET); size_t got = fread(b, 1, 40, f); fprintf(stderr, "slot %d (%zu):", i, got); for (size_t k = 0; k < got; ++k) fprintf(stderr, " %02x", b[k]); fprintf(stderr, "\n"); }
        if (f) fclose(f);
    }
    ses.store = new Rock::SwapDir();
    RefCount<Rock::SwapDir> &store = ses.store;
    allocate_new_swapdir(Config.cacheSwap);
    Config.cacheSwap.swapDirs[Config.cacheSwap.n_configured] = store.getRaw();
    ++Config.cacheSwap.n_configured;

    char *path = xstrdup(workDir.c_str());
    char *line = xstrdup("1 max-size=2048 slot-size=512");
    ConfigParser::SetCfgLine(line);
    store->parse(0, path);
    store->max_size = HeaderSize + (uint64_t)im.n * SlotSize;      // a db of exactly n slots
    store_maxobjsize = 1024 * 1024 * 2;

    stamp("parsed");
    ses.rr = new Rock::SwapDirRr;
    ses.rr->useConfig();
    stamp("segments created");

    Store::Root().init();
    stamp("store init done");

    // the rebuild is a chain of timed events and async calls: run them on a clock that jumps
    double skew = 0;
    for (int i = 0; i < 400; ++i) {
        // getCurrentTime() (also called inside the rebuild steps) resets current_dtime to the wall
        // clock, so the jump must grow every round for a "+0.01 s" event to become due
        skew += 5.0;
        getCurrentTime();
        current_dtime += skew;
        EventScheduler::GetInstance()->checkEvents(0);
        AsyncCallQueue::Instance().fire();
        if (StoreController::store_dirs_rebuilding == 0)
            break;
    }
    verdict->dirsRebuilding = StoreController::store_dirs_rebuilding;
    stamp("events done");
    if (getenv("C57_DEBUG")) {
        const auto stats = shm_old(Rock::Rebuild::Stats)(Rock::Rebuild::Stats::Path(store->path).c_str());
        const StoreRebuildData &c = stats->counts;
        fprintf(stderr, "rebuild counts: scancount=%d objcount=%d invalid=%d dup=%d clash=%d badflags=%d validations=%ld; slotSize=%ld slotLimit=%ld entryLimit=%ld maxSize=%ld file=%s\n",
                c.scancount, c.objcount, c.invalid, c.dupcount, c.clashcount, c.badflags, (long)c.validations,
                (long)store->slotSize, (long)store->slotLimitActual(), (long)store->entryLimitActual(), (long)store->maxSize(), store->filePath);
    }
    if (StoreController::store_dirs_rebuilding != 0) {
        setVerdict("rebuild-does-not-finish", "store_dirs_rebuilding is still " + std::to_string(StoreController::store_dirs_rebuilding) + " after 400 rounds of events");
        return;
    }

    // ---- judge the map against the image
    const int n = im.n;
    Ipc::StoreMap &map = *store->map;
    std::vector<int> owner(n, -1);
    std::vector<bool> isFree(n, false);
    // the free-slot stack (popping it empties it, which is fine here)
    for (int guard = 0; guard < 4 * n + 8; ++guard) {
        Ipc::Mem::PageId page;
        if (!store->freeSlots->pop(page)) break;
        const int slot = (int)page.number - 1;
        ++verdict->freeSlots;
        if (slot < 0 || slot >= n) { setVerdict("free-list:slot-out-of-range", "free slot stack holds slot " + std::to_string(slot)); continue; }
        if (isFree[slot]) setVerdict("free-list:slot-listed-twice", "slot " + std::to_string(slot) + " is on the free slot stack twice");
        isFree[slot] = true;
    }
    const long fileLen = im.truncateAt >= 0 ? std::min<long>(im.truncateAt, HeaderSize + n * SlotSize) : HeaderSize + n * SlotSize;
    for (int fileno = 0; fileno < map.entryLimit(); ++fileno) {
        const Ipc::StoreMapAnchor &peek = map.peekAtEntry(fileno);
        if (peek.empty() && !peek.writing()) continue;
        Key akey; akey.k[0] = peek.key[0]; akey.k[1] = peek.key[1];
        const Ipc::StoreMapAnchor *a = map.openForReadingAt(fileno, reinterpret_cast<const cache_key *>(akey.k));
        if (!a) { if (peek.writing()) ++verdict->writeLocked; continue; }
        ++verdict->readable;
        const std::string who = "readable entry at anchor " + std::to_string(fileno) + " (key " + std::to_string(akey.k[0]) + ")";
        uint64_t sum = 0;
        int steps = 0;
        std::string chain;
        // The entry's identity is the key in its metadata (the anchor key).  Every chain slot behind the
        // first must carry, in its cell header, that key or the first slot's cell key (cells that agree
        // with each other but not with the metadata only misplace the anchor; counted, not judged).
        const Ipc::StoreMapSliceId firstSid = a->start;
        Key firstCellKey = akey;
        if (firstSid >= 0 && firstSid < n && !im.slots[firstSid].blank) { firstCellKey.k[0] = im.slots[firstSid].h.key[0]; firstCellKey.k[1] = im.slots[firstSid].h.key[1]; }
        if (!(firstCellKey == akey)) ++verdict->anchorKeyDiffers;
        for (Ipc::StoreMapSliceId sid = a->start; sid >= 0; ) {
            if (sid >= n) { setVerdict("chain:slot-out-of-range", who + " has slot " + std::to_string(sid) + " in its chain" + chain); break; }
            if (++steps > n) { setVerdict("chain:cyclic", who + " has a cyclic chain" + chain); break; }
            chain += " " + std::to_string(sid);
            if (owner[sid] == fileno) { setVerdict("chain:cyclic", who + " visits slot " + std::to_string(sid) + " twice:" + chain); break; }
            if (owner[sid] >= 0) setVerdict("chain:slot-shared-by-two-readable-entries", who + " and the entry at anchor " + std::to_string(owner[sid]) + " both use slot " + std::to_string(sid));
            owner[sid] = fileno;
            if (isFree[sid]) setVerdict("chain:slot-also-handed-out-as-free", who + " uses slot " + std::to_string(sid) + ", which the rebuild also pushed onto the free slot stack; chain:" + chain);
            const Ipc::StoreMapSlice &slice = map.readableSlice(fileno, sid);
            const uint64_t sz = slice.size;
            sum += sz;
            // the slot as it is on disk
            const long at = HeaderSize + (long)sid * SlotSize;
            const SlotImg &disk = im.slots[sid];
            const bool present = !disk.blank && at + (long)sizeof(Rock::DbCellHeader) <= fileLen;
            if (!present)
                setVerdict("chain:slot-blank-or-cut-off-on-disk", who + " uses slot " + std::to_string(sid) + ", which is blank or truncated on disk; chain:" + chain);
            else if (sid != firstSid && !(Key{{disk.h.key[0], disk.h.key[1]}} == akey) && !(Key{{disk.h.key[0], disk.h.key[1]}} == firstCellKey))
                setVerdict("chain:slot-of-another-key", who + " uses slot " + std::to_string(sid) + ", whose on-disk header carries key " + std::to_string(disk.h.key[0]) + "; chain:" + chain);
            else if (disk.h.payloadSize != sz)
                setVerdict("chain:slice-size-differs-from-disk", who + " slot " + std::to_string(sid) + " slice size " + std::to_string(sz) + " != on-disk payloadSize " + std::to_string(disk.h.payloadSize));
            sid = slice.next;
        }
        const uint64_t want = a->basics.swap_file_sz;
        if (sum != want)
            setVerdict("entry:slice-sizes-do-not-add-up-to-entry-size", who + " has swap_file_sz " + std::to_string(want) + " but its slices add up to " + std::to_string(sum) + "; chain:" + chain);
        if (steps == 0)
            setVerdict("entry:readable-without-slots", who + " has no slots");
        map.closeForReading(fileno);
    }
    for (int s = 0; s < n; ++s)
        if (owner[s] < 0 && !isFree[s]) ++verdict->leaked;
}

struct RunStats { uint64_t images = 0, died = 0, withReadable = 0, withLeak = 0, withWriteLocked = 0, refused = 0, keyDiffers = 0, recheckedAlone = 0; } rs;

std::map<std::string, int> reported;
void failCapped(const std::string &key, const std::string &msg)
{
    if (++reported[key] <= 4) V::failKey(key, msg);
    else V::count("failures_not_listed_again:" + key);
}

bool fileContains(const std::string &path, const char *needle)
{
    FILE *f = fopen(path.c_str(), "r");
    if (!f) return false;
    char line[2048];
    bool hit = false;
    while (!hit && fgets(line, sizeof line, f)) hit = strstr(line, needle) != nullptr;
    fclose(f);
    return hit;
}

std::string firstInterestingLine(const std::string &errFile)
{
    FILE *f = fopen(errFile.c_str(), "r");
    if (!f) return "";
    char line[1024];
    std::string found, frame;
    while (fgets(line, sizeof line, f)) {
        std::string l(line);
        while (!l.empty() && (l.back() == '\n' || l.back() == '\r')) l.pop_back();
        if (found.empty() && (l.find("assertion failed") != std::string::npos || l.find("FATAL") != std::string::npos ||
                              l.find("AddressSanitizer") != std::string::npos || l.find("exception") != std::string::npos ||
                              l.find("terminate called") != std::string::npos || l.find("runtime error") != std::string::npos))
            found = l;
        else if (!found.empty() && frame.empty() && l.find("    #") != std::string::npos && l.find(" in ") != std::string::npos &&
                 l.find("sanitizer") == std::string::npos && l.find("interceptor") == std::string::npos) {
            const size_t p = l.find(" in ");
            frame = l.substr(p + 4, l.find_first_of("( ", p + 4) - (p + 4));
        }
    }
    fclose(f);
    // strip volatile parts: pids, addresses
    std::string out;
    for (size_t i = 0; i < found.size(); ++i) {
        if (found.compare(i, 2, "0x") == 0) { i += 2; while (i < found.size() && isxdigit((unsigned char)found[i])) ++i; out += "ADDR"; --i; continue; }
        if (found.compare(i, 2, "==") == 0 && i + 2 < found.size() && isdigit((unsigned char)found[i + 2])) { i += 2; while (i < found.size() && found[i] != '=') ++i; ++i; continue; }
        out += found[i];
    }
    const size_t at = out.find(" on address");
    if (at != std::string::npos) out.resize(at);
    if (!frame.empty()) out += " in " + frame;
    if (out.size() > 150) out.resize(150);
    return out;
}

void reportDeath(int st, const std::string &errFile, const std::string &what)
{
    if (fileContains(errFile, "cannot read db header") || fileContains(errFile, "cannot open db")) {
        // Rock::Rebuild::failure(): the db file has no complete 16 KB db header; Squid refuses to start
        // with such a cache_dir by design (same as a missing file) -- counted, not judged
        ++rs.refused;
        V::outcome("refused:db-header-unreadable");
        return;
    }
    ++rs.died;
    std::string how;
    const bool hang = WIFSIGNALED(st) && (WTERMSIG(st) == SIGALRM || WTERMSIG(st) == SIGPROF);
    if (hang) how = WTERMSIG(st) == SIGPROF ? "no end after 20 s of CPU time" : "no end after 600 s";
    else if (WIFSIGNALED(st)) how = "signal " + std::to_string(WTERMSIG(st));
    else how = "exit status " + std::to_string(WEXITSTATUS(st));
    const std::string why = firstInterestingLine(errFile);
    const std::string key = hang ? std::string("rebuild-hangs") : "rebuild-dies: " + (why.empty() ? how : why);
    failCapped(key, "the rebuilding process died (" + how + ") on image " + what);
    V::outcome("died");
}

void tally(const Verdict &v)
{
    if (v.readable) ++rs.withReadable;
    if (v.leaked) ++rs.withLeak;
    if (v.writeLocked) ++rs.withWriteLocked;
    if (v.anchorKeyDiffers) ++rs.keyDiffers;
    V::outcome("rebuilt:" + std::to_string(v.readable) + "-readable" + (v.leaked ? "+leaked-slots" : "") + (v.writeLocked ? "+write-locked-anchor" : ""));
}

// a rebuild that does not come to an end burns CPU: limit the CPU time per image (a wall-clock limit
// fires spuriously on an overloaded machine); a generous wall-clock limit catches a blocked process
void armWatchdog()
{
    struct itimerval it;
    memset(&it, 0, sizeof it);
    it.it_value.tv_sec = 20;
    setitimer(ITIMER_PROF, &it, nullptr);     // SIGPROF after 20 s of user+system time
    alarm(600);
}

void redirectOutput(const std::string &errFile)
{
    const int efd = open(errFile.c_str(), O_WRONLY | O_CREAT | O_TRUNC, 0600);
    if (efd >= 0) { dup2(efd, 2); dup2(efd, 1); close(efd); }
}

Verdict *singleVerdict = nullptr;

// one image in a process of its own; reports violations; returns true if the image was judged clean
bool runImage(const Image &im, const std::string &what, bool count = true)
{
    if (count) ++rs.images;
    verdict = singleVerdict;
    memset(verdict, 0, sizeof(*verdict));
    const std::string errFile = workDir + "/stderr.txt";
    fflush(stdout); fflush(stderr);
    const pid_t pid = fork();
    if (pid < 0) { V::fail("fork failed"); return false; }
    if (pid == 0) {
        redirectOutput(errFile);
        armWatchdog();
        rebuildAndJudge(im);
        verdict->done = 1;
        _exit(0);
    }
    int st = 0;
    waitpid(pid, &st, 0);
    if (getenv("C57_DEBUG")) {
        fprintf(stderr, "---- image %s: done=%d readable=%d leaked=%d free=%d key=%s\n", what.c_str(), verdict->done, verdict->readable, verdict->leaked, verdict->freeSlots, verdict->key);
        if (FILE *f = fopen(errFile.c_str(), "r")) { char b[512]; while (fgets(b, sizeof b, f)) fputs(b, stderr); fclose(f); }
    }
    if (!verdict->done) { reportDeath(st, errFile, what); return false; }
    if (verdict->key[0]) {
        failCapped(verdict->key, std::string(verdict->msg) + " | image " + what);
        V::outcome(std::string("violation:") + verdict->key);
        return false;
    }
    tally(*verdict);
    return true;
}

// Many images, one worker process per batch: the worker rebuilds image after image (set-up and
// tear-down as in tests/testRock.cc); if it dies, the image it was working on is charged and a new
// worker continues behind it.  Whatever a worker judges to be a violation is re-run in a process of
// its own before it is reported, so state carried over from earlier images cannot cause a report.
struct Job { Image im; std::string what; };
const int BatchMax = 48;
Verdict *batchVerdicts = nullptr;
volatile int *batchCursor = nullptr;

void runBatch(std::vector<Job> &jobs)
{
    if (getenv("C57_DRY")) { V::count("dry_images", jobs.size()); jobs.clear(); return; }    // size of the enumeration only
    const std::string errFile = workDir + "/stderr.txt";
    for (size_t base = 0; base < jobs.size(); base += BatchMax) {
        const int count = (int)std::min<size_t>(BatchMax, jobs.size() - base);
        memset(batchVerdicts, 0, sizeof(Verdict) * BatchMax);
        std::vector<bool> died(count, false);
        int start = 0;
        while (start < count) {
            *batchCursor = start;
            fflush(stdout); fflush(stderr);
            const pid_t pid = fork();
            if (pid < 0) { V::fail("fork failed"); return; }
            if (pid == 0) {
                redirectOutput(errFile);
                for (int i = start; i < count; ++i) {
                    *batchCursor = i;
                    if (ftruncate(2, 0) == 0) lseek(2, 0, SEEK_SET);
                    armWatchdog();
                    verdict = &batchVerdicts[i];
                    rebuildAndJudge(jobs[base + i].im);
                    verdict->done = 1;
                }
                _exit(0);
            }
            int st = 0;
            waitpid(pid, &st, 0);
            int next = count;
            for (int i = start; i < count; ++i) if (!batchVerdicts[i].done) { next = i; break; }
            if (next >= count) break;
            // the worker died while rebuilding image `next`: run that image in a process of its own,
            // which reports the death if it happens again
            died[next] = true;
            ++rs.recheckedAlone;
            if (runImage(jobs[base + next].im, jobs[base + next].what))
                V::count("worker_deaths_not_reproduced_alone");
            start = next + 1;
        }
        for (int i = 0; i < count; ++i) {
            if (died[i]) continue;
            const Verdict &v = batchVerdicts[i];
            if (v.key[0]) {
                ++rs.recheckedAlone;
                if (runImage(jobs[base + i].im, jobs[base + i].what))      // counts the image, reports if it reproduces
                    failCapped("harness:violation-seen-only-inside-a-batch", std::string(v.key) + ": " + v.msg + " | image " + jobs[base + i].what);
                continue;
            }
            ++rs.images;
            tally(v);
        }
    }
    jobs.clear();
}

// ---------------------------------------------------------------- enumeration
bool pastDeadline()
{
    V::State &st = V::S();
    if (st.sh->deadlineHit) return true;
    if (st.ctx.deadlineS > 0 && !st.ctx.replay && difftime(time(nullptr), st.start) > st.ctx.deadlineS) { st.sh->deadlineHit = 1; return true; }
    return false;
}

void layouts(int n, int maxSlotsPerEntry, bool twoEntries, std::vector<std::vector<EntryPlan>> &out)
{
    // every injective placement of one entry (1..max slots), and of two entries (sizes a <= b)
    std::vector<int> cur;
    std::vector<bool> used(n, false);
    std::function<void(int, int, std::vector<int> &, const std::function<void()> &)> place =
    [&](int need, int, std::vector<int> &dst, const std::function<void()> &then) {
        if ((int)dst.size() == need) { then(); return; }
        for (int p = 0; p < n; ++p) {
            if (used[p]) continue;
            used[p] = true; dst.push_back(p);
            place(need, 0, dst, then);
            dst.pop_back(); used[p] = false;
        }
    };
    for (int a = 1; a <= maxSlotsPerEntry; ++a) {
        std::vector<int> pa;
        place(a, 0, pa, [&]() {
            out.push_back({EntryPlan{1, pa}});
            if (!twoEntries) return;
            for (int b = a; b <= maxSlotsPerEntry && a + b <= n; ++b) {
                std::vector<int> pb;
                place(b, 0, pb, [&]() { out.push_back({EntryPlan{1, pa}, EntryPlan{2, pb}}); });
            }
        });
    }
}

std::string layoutName(int n, const std::vector<EntryPlan> &es)
{
    std::string s = "n=" + std::to_string(n);
    for (const EntryPlan &e : es) {
        s += " E" + std::to_string(e.id) + "@";
        for (size_t i = 0; i < e.at.size(); ++i) { if (i) s += ">"; s += std::to_string(e.at[i]); }
    }
    return s;
}

void startup()
{
    Config.memShared.defaultTo(false);
    Config.shmLocking.defaultTo(false);
    static char cwd[MAXPATHLEN];
    Ipc::Mem::Segment::BasePath = getcwd(cwd, MAXPATHLEN);
    Config.Store.avgObjectSize = 1024;
    Config.Store.objectsPerBucket = 20;
    Config.Store.maxObjectSize = 2048;
    Config.store_dir_select_algorithm = xstrdup("round-robin");
    Config.replPolicy = new RemovalPolicySettings;
    Config.replPolicy->type = xstrdup("lru");
    Config.replPolicy->args = nullptr;
    storeReplAdd("lru", createRemovalPolicy_lru);
    visible_appname_string = xstrdup(APP_FULLNAME);
    Mem::Init();
    fde::Init();
    comm_init();
    httpHeaderInitModule();
    mem_policy = createRemovalPolicy(Config.replPolicy);
    getCurrentTime();
}

void body(V::Ctx &ctx)
{
    // a private directory per harness process (the shared segments are named after it)
    char dir[256];
    snprintf(dir, sizeof dir, "c57-%d-%d", ctx.shard, (int)getpid());
    mkdir(dir, 0700);
    static char full[MAXPATHLEN];
    if (!realpath(dir, full)) { V::fail("realpath failed"); return; }
    workDir = full;
    char *shared = (char *)mmap(nullptr, sizeof(Verdict) * (BatchMax + 1) + 64, PROT_READ | PROT_WRITE, MAP_SHARED | MAP_ANONYMOUS, -1, 0);
    singleVerdict = verdict = (Verdict *)shared;
    batchVerdicts = (Verdict *)(shared + sizeof(Verdict));
    batchCursor = (volatile int *)(shared + sizeof(Verdict) * (BatchMax + 1));
    startup();
    if (getenv("C57_DEBUG")) {
        if (FILE *f = fopen("/proc/self/status", "r")) { char b[256]; while (fgets(b, sizeof b, f)) if (!strncmp(b, "VmRSS", 5) || !strncmp(b, "VmPTE", 5) || !strncmp(b, "VmSize", 6)) fputs(b, stderr); fclose(f); }
    }

    // plan: (number of slots, which base layouts, single or double deviations)
    // quick: n=3 all layouts, n=4 the layouts with two entries whose second entry has two slots
    // thorough: n=4 all layouts; n=5 the layouts whose entries all have two or three slots; pairs of
    // deviations on the n=3 layouts with two entries or a three-slot entry
    enum Filter { All, SecondOfTwoSlots, MultiSlotEntries, TwoEntriesOrThreeSlots };
    struct Plan { int n; Filter filter; bool pairs; };
    std::vector<Plan> plans;
    if (ctx.quick()) plans = {{3, All, false}, {4, SecondOfTwoSlots, false}};
    else plans = {{4, All, false}, {5, MultiSlotEntries, false}, {3, TwoEntriesOrThreeSlots, true}};

    for (const Plan &pl : plans) {
        std::vector<std::vector<EntryPlan>> ls;
        layouts(pl.n, 3, true, ls);
        for (const auto &es : ls) {
            if (pl.filter == SecondOfTwoSlots && !(es.size() == 2 && es[1].at.size() == 2)) continue;
            if (pl.filter == MultiSlotEntries && !(es[0].at.size() >= 2 && (es.size() == 1 || es[1].at.size() >= 2))) continue;
            if (pl.filter == TwoEntriesOrThreeSlots && !(es.size() == 2 || es[0].at.size() == 3)) continue;
            if (pastDeadline()) break;
            const Image base = baseImage(pl.n, es);
            const std::vector<Dev> devs = deviations(base, true);
            const std::string lname = layoutName(pl.n, es);
            if (!pl.pairs) {
                if (!V::begin_case(lname + " | base + every single deviation")) continue;
                // the base image itself must be indexed completely (harness sanity)
                if (!getenv("C57_DRY")) runImage(base, lname + " (unmodified)");
                if (getenv("C57_DRY")) V::count("dry_images");
                else if (verdict->done && !verdict->key[0] && verdict->readable != (int)es.size())
                    V::failKey("harness:valid-base-image-not-fully-indexed", lname + ": " + std::to_string(verdict->readable) + " readable entries instead of " + std::to_string(es.size()));
                else V::count("base_images_fully_indexed");
                std::vector<Job> jobs;
                for (const Dev &d : devs) {
                    Image im = base;
                    if (!applyDev(im, d)) continue;
                    jobs.push_back({im, lname + " + " + d.name});
                }
                if (!pastDeadline()) runBatch(jobs);
                V::end_case();
            } else {
                // two deviations: one case per (layout, first deviation); header-field deviations only as the second one
                const std::vector<Dev> second = deviations(base, false);
                for (size_t i = 0; i < devs.size(); ++i) {
                    if (!V::begin_case(lname + " + " + devs[i].name + " | + every second deviation")) continue;
                    Image one = base;
                    std::vector<Job> jobs;
                    if (applyDev(one, devs[i])) {
                        for (size_t j = 0; j < second.size(); ++j) {
                            if (devs[i].kind == Dev::Field && second[j].slot == devs[i].slot && second[j].field == devs[i].field) continue;
                            if (devs[i].kind == Dev::Field && (second[j].slot < devs[i].slot || (second[j].slot == devs[i].slot && second[j].field < devs[i].field))) continue; // unordered pairs once
                            Image two = one;
                            if (!applyDev(two, second[j])) continue;
                            jobs.push_back({two, lname + " + " + devs[i].name + " + " + second[j].name});
                        }
                    }
                    if (!pastDeadline()) runBatch(jobs);
                    V::end_case();
                }
            }
        }
    }
    V::count("images_rebuilt", rs.images);
    V::count("suspects_rerun_in_a_process_of_their_own", rs.recheckedAlone);
    V::count("images_where_the_process_died", rs.died);
    V::count("images_with_readable_entries", rs.withReadable);
    V::count("images_leaving_leaked_slots(observation)", rs.withLeak);
    V::count("images_leaving_write_locked_anchor(observation)", rs.withWriteLocked);
    V::count("images_refused_for_unreadable_db_header(observation)", rs.refused);
    V::count("images_with_anchor_key_from_metadata_differing_from_cell_key(observation)", rs.keyDiffers);
    // clean up: the db file, stderr capture, directory, and any shared segments named after it
    unlink((workDir + "/rock").c_str());
    unlink((workDir + "/stderr.txt").c_str());
    rmdir(workDir.c_str());
}

} // namespace

VHARNESS_MAIN(body)
