"""C54 Shared read/write lock provides mutual exclusion — E2, all interleavings up to a preemption bound."""
from vverif import seq, sched
from vverif.core import Result, HarnessError

LEVEL = 'model_checking'
ASSUME = ['sequentially consistent interleavings at the granularity of individual std::atomic operations (adequate for x86-TSO with seq_cst RMWs)',
          'src/ipc/ReadWriteLock.cc of the current tree compiled unmodified with std::atomic substituted by a scheduler-controlled atomic (forced pre-include)',
          'holder sets are tracked by the harness; every critical section contains one scheduling point']


def _build(ctx):
    return sched.build(ctx, 'C54_rwlock.cc', ['ipc/ReadWriteLock.cc'], stubs=['C54_stubs.cc'])


def _result(ctx, m):
    c = m['counters']
    if not m['failures'] and not m['crashes']:
        if c.get('failed_locks', 0) < 10 or c.get('ok_locks', 0) < 10 or c.get('reader_writer_overlap_states', 0) < 1:
            raise HarnessError('vacuity guard: ok=%s failed=%s overlap=%s' % (c.get('ok_locks'), c.get('failed_locks'), c.get('reader_writer_overlap_states')))
    cov = {
        'states': c.get('states', 0), 'transitions': c.get('steps', 0),
        'traces_validated_against_impl': c.get('executions', 0),
        'scenarios': m['evaluations'], 'scenarios_completed_at_bound': c.get('scenarios_completed_at_bound', 0),
        'bound_completed': ('2 preemptions' if ctx.quick else '3 preemptions') if not m['deadline_hit'] and not c.get('cap_hit') else 'partial',
        'context_switches': c.get('context_switches', 0), 'ok_locks': c.get('ok_locks', 0), 'failed_locks': c.get('failed_locks', 0),
        'reader_writer_overlap_states': c.get('reader_writer_overlap_states', 0),
        'rule': 'scenarios = all multisets of scripts over ops {R,W,A(ppend),B(append+restore),S(witch excl->shared),U(pgrade shared->excl),H(eaders)}: '
                'quick 2 procs x <=2 ops and 3 procs x 1 op, preemption bound 2; thorough 2 procs x <=3 ops and 3 procs x <=2 ops, bound 3; '
                'every schedule of every scenario within the bound is executed on the real lock',
        'samples': m['samples'], 'exhaustive': not m['deadline_hit'] and not c.get('cap_hit'),
        'outcome_classes': m['outcomes'],
    }
    return Result(LEVEL, cov, seq.violations_from(m), ASSUME)


def run(ctx):
    exe = _build(ctx)
    m = seq.run(ctx, exe)
    return _result(ctx, m)


def replay(ctx, data):
    exe = _build(ctx)
    m = seq.replay_case(ctx, exe, data['case'])     # "scenario|schedule"
    return Result(LEVEL, {}, seq.violations_from(m), ASSUME)
