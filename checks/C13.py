"""C13 Vary: a stored variant is served only to matching requests — E3, bounded input product.

Per case (unique URL, reused instance with a memory cache): a storing request with chosen values of
X-V / X-W fetches a cacheable response carrying a chosen Vary field and a body that names the request
it answers; a probing request with other chosen values follows.  If the probe is answered without
contacting the origin, every header nominated by Vary must have equal values in both requests under a
normalisation RFC 9111 section 4.1 permits (OWS around list separators, combining repeated field
lines), and Vary must not contain '*'.  History cases store several variants under one URL first.
"""
import itertools

from vverif import lockstep as ls
from vverif import lsx
from vverif.core import Result, Violation, HarnessError

LEVEL = 'exploration'

# a value is None (field absent) or a list of field lines
VALS = {
    'absent': None, 'empty': [''], 'a': ['a'], 'b': ['b'], 'a,b': ['a,b'], 'a, b': ['a, b'], 'A': ['A'],
    'a;q=1': ['a;q=1'], '"a"': ['"a"'], 'a%20': ['a%20'],
    # thorough
    'a|b': ['a', 'b'], 'a b': ['a b'], 'a%2c b': ['a%2c b'], '%22a%22': ['%22a%22'], 'a"': ['a"'], 'a%22': ['a%22'], 'b|a': ['b', 'a'],
}
# '"a"' and its percent-encoded spelling '%22a%22' are different values: the variant key must keep them apart
V10 = ['absent', 'empty', 'a', 'b', 'a,b', 'a, b', 'A', 'a;q=1', '"a"', 'a%20', '%22a%22']
V5 = ['absent', 'empty', 'a', 'b', 'a, b']
V16 = V10 + ['a|b', 'a b', 'a%2c b', 'a"', 'a%22', 'b|a']

VARY_ONE = ['X-V', 'x-v', 'X-V, X-V']                 # nominate X-V only
VARY_TWO = ['X-V, X-W', 'X-W,X-V']                    # nominate both
VARY_STAR = ['*', 'X-V, *']
VARY_ONE_T = VARY_ONE + ['X-V,', ' X-V ', 'X-V|X-V']          # '|' = two Vary field lines
VARY_TWO_T = VARY_TWO + ['X-V|X-W']
VARY_STAR_T = VARY_STAR + ['*, X-V', 'X-V|*']


def nominated(vary):
    names = [x.strip(' \t').lower() for line in vary.split('|') for x in line.split(',')]
    names = [x for x in names if x]
    return names


def norm(v):
    """The most generous normalisation RFC 9111 4.1 allows for a field of unknown syntax: combine the field lines with ','
    and drop optional whitespace around the list separators.  Absent is only equal to absent."""
    if v is None:
        return None
    return tuple(x.strip(' \t') for x in ','.join(v).split(','))


def all_cases(quick):
    cases = []
    n = [1000]

    def add(kind, vary, sv, pv):
        n[0] += 1
        cases.append({'n': n[0], 'kind': kind, 'vary': vary, 'store': sv, 'probe': pv})
    one, two, star = (VARY_ONE, VARY_TWO, VARY_STAR) if quick else (VARY_ONE_T, VARY_TWO_T, VARY_STAR_T)
    v1 = V10 if quick else V16
    v2 = V5 if quick else V10
    for vary in one:
        for s in v1:
            for p in v1:
                add('pair', vary, [s, 'absent'], [p, 'absent'])
        # the non-nominated header differs as well
        for s in V5:
            for p in V5:
                add('pair', vary, [s, 'a'], [p, 'b'])
    for vary in two:
        for s in itertools.product(v2, repeat=2):
            for p in itertools.product(v2, repeat=2):
                add('pair', vary, list(s), list(p))
    for vary in star:
        for s in V10:
            for p in V10:
                add('pair', vary, [s, 'absent'], [p, 'absent'])
    # histories: store one variant per value (in order), then probe every value again
    for vary in one + two:
        vals = v1 if vary in one else v2
        for rot in range(0, len(vals), 1 if not quick else 3):
            order = vals[rot:] + vals[:rot]
            add('history', vary, order, None)
    return cases


def make_world(ctx, shard):
    return lsx.RetryWorld(ctx, 'w%d' % shard, ls.port_base_for_check(ctx.pid, shard), memory_cache=True)


def req_lines(vals):
    out = ''
    for name, key in (('X-V', vals[0]), ('X-W', vals[1])):
        v = VALS[key]
        if v is None:
            continue
        for line in v:
            out += '%s:%s%s\r\n' % (name, ' ' if line else '', line)
    return out


def matches(vary, a, b):
    names = nominated(vary)
    if '*' in names:
        return False
    for h in names:
        i = {'x-v': 0, 'x-w': 1}[h]
        if norm(VALS[a[i]]) != norm(VALS[b[i]]):
            return False
    return True


def run_case(w, case):
    n = case['n']
    path = '/y%d' % n
    tr = []
    cur = {'tag': None}

    def responder(m):
        body = ('variant-for[%s]' % cur['tag']).encode()
        h = 'HTTP/1.1 200 OK\r\nDate: %s\r\nCache-Control: max-age=3600\r\nContent-Length: %d\r\n' % (ls.http_date(w.sq.now_us), len(body))
        for line in case['vary'].split('|'):
            h += 'Vary: %s\r\n' % line
        return (h + '\r\n').encode('latin1') + body

    def get(vals, tag):
        cur['tag'] = '%s~~%s' % (vals[0], vals[1])
        req = 'GET %s HTTP/1.1\r\nHost: %s\r\n%s\r\n' % (w.url(path), w.hostport(), req_lines(vals))
        ex = w.fetch(req.encode('latin1'), responder)
        r = ex.response
        ok = r is not None and not r.error and r.complete
        st = r.status if ok else 0
        body = r.body.decode('latin1') if ok else ''
        served = body[len('variant-for['):-1] if body.startswith('variant-for[') else None
        tr.append('%s X-V=%s X-W=%s -> %s origin=%d served=%r' % (tag, vals[0], vals[1], st, len(ex.origin_requests), served))
        return st, len(ex.origin_requests), served

    def result(outcome, violation=None):
        w.close_origin_conns()
        return {'outcome': outcome, 'violation': violation, 'transcript': '\n'.join(tr)}

    def judge(vals, st, contacted, served, stored):
        """stored: list of value pairs whose responses were stored so far.  Returns violation text or None."""
        if st != 200 or served is None:
            return '[broken] request X-V=%s X-W=%s got status %s' % (vals[0], vals[1], st)
        if contacted:
            return None
        sv = served.split('~~')
        if len(sv) != 2 or sv[0] not in VALS or sv[1] not in VALS:
            return '[broken] unparsable variant tag %r' % served
        if '*' in nominated(case['vary']):
            return '[star] response with Vary: %s was served from the cache (variant of X-V=%s X-W=%s) to X-V=%s X-W=%s' % (
                case['vary'], sv[0], sv[1], vals[0], vals[1])
        if not matches(case['vary'], sv, vals):
            return '[mismatch] Vary: %s; the variant stored for X-V=%s X-W=%s was served without contacting the origin to a request with X-V=%s X-W=%s' % (
                case['vary'], VALS[sv[0]], VALS[sv[1]], VALS[vals[0]], VALS[vals[1]])
        return None

    if case['kind'] == 'pair':
        st, c, served = get(case['store'], 'store')
        if st != 200 or c != 1:
            return result('store-failed')
        st, c, served = get(case['probe'], 'probe')
        v = judge(case['probe'], st, c, served, [case['store']])
        same = matches(case['vary'], case['store'], case['probe'])
        star = '*' in nominated(case['vary'])
        oc = 'pair:%s:%s' % ('star' if star else 'equal' if same else 'different', 'origin' if c else 'cache')
        return result(oc, v)
    # history
    order = case['store']
    two = len(nominated(case['vary'])) > 1 and 'x-w' in nominated(case['vary'])
    seq = [[a, b] for a in order for b in (order if two else ['absent'])]
    hits = wrong = 0
    for rnd in ('first', 'second'):
        for vals in seq:
            st, c, served = get(vals, rnd)
            v = judge(vals, st, c, served, None)
            if v:
                return result('history:violation', v)
            if not c:
                hits += 1
    return result('history:%s' % ('hits' if hits else 'no-hits'), None)


def key_of(case):
    if case['kind'] == 'pair':
        return 'pair:%s:%s;%s->%s;%s' % (case['vary'], case['store'][0], case['store'][1], case['probe'][0], case['probe'][1])
    return 'history:%s:%s' % (case['vary'], '/'.join(case['store']))


def vkey(what, case):
    """Stable identity: obligation + Vary form + the unordered pair of differing values of the first differing nominated header."""
    kind = what[1:what.index(']')]
    if kind == 'mismatch' and case['kind'] == 'pair':
        for h in nominated(case['vary']):
            i = {'x-v': 0, 'x-w': 1}[h]
            a, b = case['store'][i], case['probe'][i]
            if norm(VALS[a]) != norm(VALS[b]):
                return 'mismatch:%s:%s' % (h, ' vs '.join(sorted([a, b])))
    return '%s:%s' % (kind, key_of(case))


ASSUME = ['the real squid binary (ASan build of the current tree, memory cache only) runs under the lock-step/virtual-time shim; client and origin are played by the driver',
          'every response body names the request values it was generated for, so a cached answer identifies the variant that was served',
          'values of the unknown fields X-V / X-W are equal only after combining field lines and trimming optional whitespace around commas; case, quoting and %-escapes are significant; absent equals only absent',
          'only the direction required by the statement is checked: a cache answer implies matching values (serving fewer hits than possible is not a violation)']
RULE = ('Vary form x values of the storing request x values of the probing request (pairs), plus histories that store one variant per value under one URL and then ask for every value again; '
        'non-trivial = pair cases in which the storing response was stored and the probe completed, counted separately for equal / different / Vary:* classes, plus completed histories')


def run(ctx):
    ls.build_squid(ctx)
    cases = all_cases(ctx.quick)
    r = ls.run_cases(ctx, cases, run_case, make_world, key_of=key_of)
    oc = r['outcomes']
    eq_cache = oc.get('pair:equal:cache', 0)
    diff_origin = oc.get('pair:different:origin', 0)
    star_origin = oc.get('pair:star:origin', 0)
    hist = oc.get('history:hits', 0)
    nontrivial = sum(v for k, v in oc.items() if k.startswith('pair:')) + hist
    if not r['violations'] and not r['deadline_hit']:
        if eq_cache < 50 or diff_origin < 50 or star_origin < 50 or hist < 3:
            raise HarnessError('vacuity guard: equal-values hits=%d, different-values refetches=%d, Vary:* refetches=%d, histories with hits=%d: %r' % (
                eq_cache, diff_origin, star_origin, hist, oc))
    vio = [Violation(vkey(what, c), what, {'case': c}) for k, what, c in r['violations']]
    obs = ['squid problem during %s: %s' % (k, what[:300]) for k, what, c in r['crashes']]
    vio += [Violation('crash:' + k, 'squid crashed/asserted during case %s: %s' % (k, what), {'case': c}) for k, what, c in r['crashes']]
    cov = {'evaluations': r['evaluations'], 'distinct_nontrivial': nontrivial, 'rule': RULE, 'samples': r['samples'],
           'outcome_classes': oc, 'exhaustive': not r['deadline_hit'] and r['evaluations'] == len(cases), 'kicks': r['kicks'],
           'determinism_replays': r['replays'], 'cases_total': len(cases),
           'equal_values_served_from_cache': eq_cache, 'different_values_refetched': diff_origin, 'vary_star_refetched': star_origin}
    return Result(LEVEL, cov, vio, ASSUME, obs)


def replay(ctx, data):
    ls.build_squid(ctx)
    w = make_world(ctx, 0)
    w.start()
    try:
        r = run_case(w, data['case'])
        print(r['transcript'])
        print('outcome:', r['outcome'])
    finally:
        w.stop()
    v = [Violation(vkey(r['violation'], data['case']), r['violation'], data)] if r['violation'] else []
    return Result(LEVEL, {}, v, ASSUME)
