// C51 — ClpMap vs a reference LRU/TTL/capacity model: explicit-state BFS over add/get/del/setMemLimit/
// clock-advance sequences (E1).  Real code: src/base/ClpMap.h of the current tree (header-only; compiled
// into this harness from the scratch copy), testClpMap link set; squid_curtime is owned by the harness.
#include "squid.h"
#include "base/ClpMap.h"
#include "time/gadgets.h"

#include "vharness.h"
#include "vbfs.h"

#include <list>

struct C51Val {
    int id = 0;
    uint64_t mem = 0;
};
uint64_t C51ValMem(const C51Val &v) { return v.mem; }

namespace {

typedef VB::Fail Fail;
typedef ClpMap<std::string, C51Val, C51ValMem> Map;

const time_t T0 = 100000;
const int DEFAULT_TTL = 5;
uint64_t UNIT = 0;          // accounted cost of an entry with a 1-byte key and a 1-byte value
uint64_t BIGMEM = 0;        // value size that makes an entry cost exactly 2 units

struct MEntry {
    std::string key;
    int id;
    uint64_t mem;
    time_t expires;
    uint64_t cost;
};

struct Model {
    std::list<MEntry> lru;      // front = most recently used
    uint64_t limit = 0, used = 0;
    time_t now = T0;
    int adds = 0;
    std::list<MEntry>::iterator find(const std::string &k)
    {
        for (auto i = lru.begin(); i != lru.end(); ++i) if (i->key == k) return i;
        return lru.end();
    }
    void erase(std::list<MEntry>::iterator i) { used -= i->cost; lru.erase(i); }
    // visible lookup: expired entries are hidden (and dropped), fresh ones become most recently used
    std::list<MEntry>::iterator touch(const std::string &k)
    {
        auto i = find(k);
        if (i == lru.end()) return i;
        if (i->expires < now) { erase(i); return lru.end(); }
        lru.splice(lru.begin(), lru, i);
        return lru.begin();
    }
    std::string show() const
    {
        std::string s = "limit=" + std::to_string(limit / (UNIT ? UNIT : 1)) + "u+" + std::to_string(limit % (UNIT ? UNIT : 1)) + " [";
        for (auto &e : lru) s += e.key + (e.mem > 1 ? "B" : "s") + "#" + std::to_string(e.id) + "@" + std::to_string((long)(e.expires - now)) + " ";
        return s + "]";
    }
};

struct World {
    Map map;
    Model m;
    World(): map(2 * UNIT, DEFAULT_TTL) { squid_curtime = T0; m.limit = 2 * UNIT; }
};

enum Kind { K_ADD, K_ADD_DEFAULT, K_GET, K_DEL, K_LIMIT, K_ADVANCE };

struct Op {
    int kind;
    std::string key;
    bool big;
    int ttl;
    uint64_t limitUnits, limitExtra;
    int dt;
    std::string name;
};
std::vector<Op> Ops;

void buildOps()
{
    static const char *keys[] = {"a", "b", "c"};
    for (auto k : keys) {
        for (int big = 0; big < 2; ++big)
            for (int ttl : {-1, 0, 1, 10}) {
                Op o = {K_ADD, k, big != 0, ttl, 0, 0, 0, std::string("add(") + k + (big ? ",big," : ",small,") + std::to_string(ttl) + ")"};
                Ops.push_back(o);
            }
        { Op o = {K_ADD_DEFAULT, k, false, DEFAULT_TTL, 0, 0, 0, std::string("addDefaultTtl(") + k + ")"}; Ops.push_back(o); }
        { Op o = {K_GET, k, false, 0, 0, 0, 0, std::string("get(") + k + ")"}; Ops.push_back(o); }
        { Op o = {K_DEL, k, false, 0, 0, 0, 0, std::string("del(") + k + ")"}; Ops.push_back(o); }
    }
    static const uint64_t lim[][2] = {{0, 0}, {1, 0}, {2, 0}, {3, 0}, {2, 1}, {0, 1}};
    for (auto &l : lim) {
        Op o = {K_LIMIT, "", false, 0, l[0], l[1], 0, "setMemLimit(" + std::to_string(l[0]) + "u+" + std::to_string(l[1]) + ")"};
        Ops.push_back(o);
    }
    for (int dt : {1, 2, 11}) {
        Op o = {K_ADVANCE, "", false, 0, 0, 0, dt, "advance(" + std::to_string(dt) + ")"};
        Ops.push_back(o);
    }
}

uint64_t nHits = 0, nMisses = 0, nExpiredGets = 0, nCapacityPurges = 0, nLimitPurges = 0, nRejectedAdds = 0, nAcceptedAdds = 0, nReplacedAdds = 0;

uint64_t costOf(const std::string &key, uint64_t mem)
{
    return key.length() + mem + (UNIT - 2);
}

struct ClpSys {
    typedef ::World World;
    static const bool observersAreConst = true;
    bool leaf = false;
    uint64_t fullStates = 0, expiredPresentStates = 0;

    size_t numOps() const { return Ops.size(); }
    bool core(size_t) const { return true; }
    const std::string &opName(size_t o) const { return Ops[o].name; }
    std::string show(const World &w) { return w.m.show(); }

    bool apply(World &w, size_t oi, Fail &f)
    {
        const Op &op = Ops[oi];
        Model &m = w.m;
        switch (op.kind) {
        case K_ADD:
        case K_ADD_DEFAULT: {
            C51Val v;
            v.mem = op.big ? BIGMEM : 1;
            v.id = (op.key[0] - 'a') * 1000 + (op.big ? 500 : 0) + (op.ttl + 1) * 10 + (m.adds % 2);
            // reference
            bool expect;
            const uint64_t cost = costOf(op.key, v.mem);
            if (m.limit == 0) expect = false;
            else {
                const bool had = m.touch(op.key) != m.lru.end();
                if (had) { m.erase(m.lru.begin()); ++nReplacedAdds; }
                if (op.ttl < 0 || cost > m.limit) expect = false;
                else {
                    bool purged = false;
                    while (m.limit - m.used < cost) { m.erase(std::prev(m.lru.end())); purged = true; }     // capacity victims in LRU order
                    if (purged) ++nCapacityPurges;
                    MEntry e = {op.key, v.id, v.mem, m.now + op.ttl, cost};
                    m.lru.push_front(e);
                    m.used += cost;
                    expect = true;
                }
            }
            ++m.adds;
            const bool got = op.kind == K_ADD ? w.map.add(op.key, v, op.ttl) : w.map.add(op.key, v);
            if (expect) ++nAcceptedAdds; else ++nRejectedAdds;
            if (got != expect) f.set(std::string("add:") + (expect ? "refused" : "accepted"), op.name + " returned " + std::to_string(got) + ", reference " + std::to_string(expect) + "; model after: " + m.show());
            break;
        }
        case K_GET: {
            const bool wasThere = m.find(op.key) != m.lru.end();
            auto i = m.touch(op.key);
            const C51Val *v = w.map.get(op.key);
            if (i == m.lru.end()) {
                if (wasThere) ++nExpiredGets; else ++nMisses;
                if (v) f.set(wasThere ? "get:returned-expired" : "get:returned-absent", op.name + " returned value #" + std::to_string(v->id) + " but the reference has " + (wasThere ? "only an expired entry" : "no entry") + "; model: " + m.show());
            } else {
                ++nHits;
                if (!v) f.set("get:missing", op.name + " returned nothing but the reference holds fresh value #" + std::to_string(i->id) + "; model: " + m.show());
                else if (v->id != i->id || v->mem != i->mem) f.set("get:wrong-value", op.name + " returned value #" + std::to_string(v->id) + ", reference #" + std::to_string(i->id) + "; model: " + m.show());
            }
            break;
        }
        case K_DEL: {
            auto i = m.touch(op.key);
            if (i != m.lru.end()) m.erase(i);
            w.map.del(op.key);
            break;
        }
        case K_LIMIT: {
            const uint64_t n = op.limitUnits * UNIT + op.limitExtra;
            bool purged = false;
            while (m.used > n) { m.erase(std::prev(m.lru.end())); purged = true; }
            if (purged) ++nLimitPurges;
            m.limit = n;
            w.map.setMemLimit(n);
            break;
        }
        case K_ADVANCE:
            m.now += op.dt;
            squid_curtime += op.dt;
            break;
        }
        // per-step invariant of the statement: accounted memory never exceeds the capacity
        if (!f.bad() && w.map.memoryUsed() > w.map.memLimit())
            f.set("capacity:exceeded", "after " + op.name + ": memoryUsed() " + std::to_string(w.map.memoryUsed()) + " > memLimit() " + std::to_string(w.map.memLimit()));
        if (!f.bad() && (w.map.memoryUsed() != m.used || w.map.entries() != m.lru.size()))
            f.set("accounting:differs", "after " + op.name + ": memoryUsed()/entries() = " + std::to_string(w.map.memoryUsed()) + "/" + std::to_string(w.map.entries()) +
                  ", reference " + std::to_string(m.used) + "/" + std::to_string(m.lru.size()) + "; model: " + m.show());
        return true;
    }

    void put64(std::string &o, uint64_t v) { o.append((const char *)&v, 8); }

    // Dropped: the absolute clock (only expires - now matters, the clock is monotonic, all values are far from
    // overflow) and how long ago an entry expired (clamped to -1); hash-table bucket layout; pool statistics.
    void canon(const World &w, std::string &out)
    {
        out.clear();
        put64(out, w.map.memLimit_);
        put64(out, w.map.memUsed_);
        put64(out, (uint64_t)w.map.defaultTtl_);
        put64(out, w.m.adds % 2);
        put64(out, w.map.entries_.size());
        std::map<std::string, uint64_t> posOf;
        uint64_t pos = 0;
        for (auto i = w.map.entries_.begin(); i != w.map.entries_.end(); ++i, ++pos) {
            out += i->key; out += '\0';
            put64(out, (uint64_t)i->value.id);
            put64(out, i->value.mem);
            const int64_t rel = (int64_t)i->expires - (int64_t)squid_curtime;
            put64(out, (uint64_t)(rel < 0 ? -1 : rel));
            put64(out, i->memCounted);
            posOf[i->key] = pos;
        }
        // the index must point at exactly these entries
        put64(out, w.map.index_.size());
        std::map<std::string, uint64_t> idx;
        for (auto &kv : w.map.index_) {
            uint64_t p = 0;
            auto j = w.map.entries_.begin();
            while (j != w.map.entries_.end() && j != Map::ConstEntriesIterator(kv.second)) { ++j; ++p; }
            idx[kv.first] = (j == w.map.entries_.end()) ? 999999 : p;
        }
        for (auto &kv : idx) { out += kv.first; out += '\0'; put64(out, kv.second); }
        // The reference model is part of the state: if the implementation ever diverges from it, the pair
        // (real, model) is a new state even when the real half alone was seen before, so it gets observed.
        out += "|M";
        put64(out, w.m.limit);
        put64(out, w.m.used);
        for (auto &e : w.m.lru) {
            out += e.key; out += '\0';
            put64(out, (uint64_t)e.id);
            put64(out, e.mem);
            const int64_t rel = (int64_t)e.expires - (int64_t)w.m.now;
            put64(out, (uint64_t)(rel < 0 ? -1 : rel));
            put64(out, e.cost);
        }
    }

    void classify(const World &w)
    {
        if (w.m.limit && w.m.limit - w.m.used < UNIT) ++fullStates;
        for (auto &e : w.m.lru) if (e.expires < w.m.now) { ++expiredPresentStates; break; }
    }

    void observe(World &w, Fail &f)
    {
        const Model &m = w.m;
        if (w.map.memLimit() != m.limit) f.set("observe:memLimit", "memLimit() " + std::to_string(w.map.memLimit()) + " != " + std::to_string(m.limit));
        if (w.map.memoryUsed() > w.map.memLimit()) f.set("capacity:exceeded", "memoryUsed() > memLimit()");
        if (w.map.memoryUsed() != m.used) f.set("observe:memoryUsed", "memoryUsed() " + std::to_string(w.map.memoryUsed()) + " != " + std::to_string(m.used));
        if (w.map.freeMem() != m.limit - m.used) f.set("observe:freeMem", "freeMem() wrong");
        if (w.map.entries() != m.lru.size()) f.set("observe:entries", "entries() " + std::to_string(w.map.entries()) + " != " + std::to_string(m.lru.size()));
        // traversal: same stored entries (as a set), accounted sizes add up
        std::map<std::string, int> real, ref;
        uint64_t sum = 0;
        for (const auto &e : w.map) { real[e.key] = e.value.id; sum += e.memCounted; }
        for (auto &e : m.lru) ref[e.key] = e.id;
        if (real != ref) f.set("observe:traversal", "the stored entries differ from the reference; model: " + m.show());
        if (sum != w.map.memoryUsed()) f.set("observe:accounting-sum", "memoryUsed() is not the sum of the entries' accounted sizes");
    }

    void finish(int)
    {
        V::count("get_hits", nHits);
        V::count("get_misses", nMisses);
        V::count("get_on_expired", nExpiredGets);
        V::count("adds_accepted", nAcceptedAdds);
        V::count("adds_rejected", nRejectedAdds);
        V::count("adds_replacing_an_entry", nReplacedAdds);
        V::count("adds_that_purged_lru", nCapacityPurges);
        V::count("limit_changes_that_purged", nLimitPurges);
        V::count("states_full", fullStates);
        V::count("states_holding_expired_entry", expiredPresentStates);
    }
};

void calibrate()
{
    // the accounted cost of an entry is key length + value size + a constant; measure the constant on the real map
    squid_curtime = T0;
    Map probe(1 << 20);
    C51Val v;
    v.mem = 1;
    probe.add("a", v, 10);
    UNIT = probe.memoryUsed();
    v.mem = 7;
    probe.add("bcd", v, 10);
    if (UNIT < 3 || probe.memoryUsed() != 2 * UNIT + 2 + 6) {
        VB::setDesc("calibration");
        V::failKey("HARNESS:cost-model", "entry cost is not key length + value size + constant");
        UNIT = 64;
    }
    BIGMEM = 1 + UNIT;
}

void body(V::Ctx &ctx)
{
    buildOps();
    if (ctx.replay) {
        if (V::begin_case(ctx.replayCase)) {
            calibrate();
            ClpSys sys;
            VB::replayHistory(sys, ctx.replayCase);
            V::end_case();
        }
        return;
    }
    calibrate();
    ClpSys sys;
    VB::runSharded(sys, ctx, ctx.quick() ? 5 : 7);
}

} // namespace

VHARNESS_MAIN(body)
