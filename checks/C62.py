"""C62 Header size limits are enforced before forwarding — E3, bounded input product around the limits.

The real squid binary runs with small, distinct request_header_max_size / reply_header_max_size values
(two configurations, one per half of the shards).  Every case builds a request head (client side) or a
response head (origin side) of an exact size S around the limit L in one of several shapes (long
request-target, one long field, many fields, long reason phrase, never-terminated head, second message
on a persistent connection) and delivers it whole, split at L-1 / L / L+1, in 64-byte pieces, byte-wise
around the limit or byte-wise from the first byte.

Oracle (from the statement): S > L on the request side => the client is answered 414/431 and the origin
receives no byte of that request; S > L on the response side => the client never sees the origin's status
with those headers, nor any marker planted at the start / end of the head.  Heads of S <= L-2 are expected
to pass (vacuity guard, not a property claim).
"""
from vverif import lockstep as ls
from vverif import httpref
from vverif.lsutil import RetryWorld, written_out_samples
from vverif.core import Result, Violation, HarnessError

LEVEL = 'exploration'

CONFIGS = {'A': (1536, 1024), 'B': (4000, 3000)}       # name -> (request limit, reply limit) in bytes
ORIGIN_STATUS = 203                                    # unusual on purpose: seeing it downstream means "relayed as received"

REQ_SHAPES = ['url', 'field', 'many', 'name', 'unterminated-line', 'unterminated-head', 'second']
RESP_SHAPES = ['field', 'many', 'reason', 'unterminated', 'second']
DELIVERIES_Q = ['whole', 'split@L-1', 'split@L', 'split@L+1', 'bytewise-around']
DELIVERIES_T = ['whole', 'split@L-1', 'split@L', 'split@L+1', 'pieces64', 'bytewise-around', 'bytewise-all']


def sizes_for(L, quick):
    d = [-3, -2, -1, 0, 1, 2, 3] if quick else list(range(-16, 17)) + [64]
    out = [L + x for x in d] + [L // 2, 2 * L]
    if not quick:
        out += [L // 4, 4 * L + 3]
    return sorted(set(out))


def all_cases(quick, nshards):
    per = {'A': [], 'B': []}
    n = 1000
    for cfg, (LQ, LP) in sorted(CONFIGS.items()):
        for direction, shapes, L in (('req', REQ_SHAPES, LQ), ('resp', RESP_SHAPES, LP)):
            for shape in shapes:
                for S in sizes_for(L, quick):
                    for dl in (DELIVERIES_Q if quick else DELIVERIES_T):
                        if dl == 'bytewise-all' and abs(S - L) > 1:
                            continue          # ~2 kicks per byte: only right at the limit
                        for body in ((False,) if quick else (False, True)):
                            if body and shape.startswith('unterminated'):
                                continue
                            n += 1
                            per[cfg].append({'n': n, 'cfg': cfg, 'dir': direction, 'shape': shape, 'size': S, 'limit': L,
                                             'delivery': dl, 'body': body})
    half = nshards // 2
    out = []
    ia = ib = 0
    while ia < len(per['A']) or ib < len(per['B']):
        for s in range(nshards):
            if s < half:
                out.append(per['A'][ia] if ia < len(per['A']) else None)
                ia += 1
            else:
                out.append(per['B'][ib] if ib < len(per['B']) else None)
                ib += 1
    while out and out[-1] is None:
        out.pop()
    return out, len(per['A']) + len(per['B'])


# ------------------------------------------------------------------ message construction (exact sizes)

def pad_to(prefix, suffix, size, ch):
    """prefix + ch*k + suffix of exactly `size` bytes (k >= 0) or None if it does not fit."""
    k = size - len(prefix) - len(suffix)
    if k < 0:
        return None
    return prefix + ch * k + suffix


def build_request_head(case, url, host, method, extra=b''):
    """-> (head bytes of exactly case['size'], terminated?) ; markers are not needed on the request side
    (the oracle is 'zero bytes at the origin')."""
    S, shape, n = case['size'], case['shape'], case['n']
    H = host.encode()
    target = url('/q%d' % n).encode()
    if shape in ('url', 'unterminated-line'):
        if shape == 'url':
            return pad_to(method + b' ' + target + b'?p=', b' HTTP/1.1\r\nHost: ' + H + b'\r\n' + extra + b'\r\n', S, b'u'), True
        return pad_to(method + b' ' + target + b'?p=', b'', S, b'u'), False
    base = method + b' ' + target + b' HTTP/1.1\r\nHost: ' + H + b'\r\n' + extra
    if shape in ('field', 'second'):
        return pad_to(base + b'X-Pad: ', b'\r\n\r\n', S, b'f'), True
    if shape == 'name':
        return pad_to(base + b'X-', b': v\r\n\r\n', S, b'n'), True
    if shape == 'unterminated-head':
        return pad_to(base + b'X-Pad: ', b'', S, b'f'), False
    if shape == 'many':
        out = base
        i = 0
        while len(out) + 2 + 20 < S:
            ln = b'X-F%04d: v\r\n' % i
            if len(out) + len(ln) + 2 + 12 > S:
                break
            out += ln
            i += 1
        return pad_to(out + b'X-Last: ', b'\r\n\r\n', S, b'm'), True
    raise HarnessError('shape ' + shape)


def build_response_head(case, date, with_body):
    S, shape, n = case['size'], case['shape'], case['n']
    ma, mz = b'vmkA%dq' % n, b'vmkZ%dq' % n
    cl = b'Content-Length: 2\r\n' if with_body else b'Content-Length: 0\r\n'
    common = b'Date: ' + date.encode() + b'\r\n' + cl + b'Cache-Control: no-store\r\n'
    if shape == 'reason':
        # Squid does not relay the origin's reason phrase, so the end marker travels in a field of its own
        return pad_to(b'HTTP/1.1 %d ' % ORIGIN_STATUS + ma, b'\r\n' + common + b'X-Mark-Z: ' + mz + b'\r\n\r\n', S, b'r'), True, (ma, mz)
    base = b'HTTP/1.1 %d Marked\r\nX-Mark-A: ' % ORIGIN_STATUS + ma + b'\r\n' + common
    if shape in ('field', 'second'):
        return pad_to(base + b'X-Pad: ', mz + b'\r\n\r\n', S, b'f'), True, (ma, mz)
    if shape == 'unterminated':
        return pad_to(base + b'X-Pad: ', mz, S, b'f'), False, (ma, mz)
    if shape == 'many':
        out = base
        i = 0
        while True:
            ln = b'X-F%04d: v\r\n' % i
            if len(out) + len(ln) + 2 + 12 + len(mz) > S:
                break
            out += ln
            i += 1
        return pad_to(out + b'X-Last: ', mz + b'\r\n\r\n', S, b'm'), True, (ma, mz)
    raise HarnessError('shape ' + shape)


def split_pieces(data, L, delivery):
    if delivery == 'whole':
        return [data]
    if delivery.startswith('split@'):
        at = {'split@L-1': L - 1, 'split@L': L, 'split@L+1': L + 1}[delivery]
        at = max(1, min(at, len(data) - 1))
        return [data[:at], data[at:]]
    if delivery == 'pieces64':
        return [data[i:i + 64] for i in range(0, len(data), 64)]
    if delivery == 'bytewise-around':
        a = max(1, min(L - 6, len(data) - 1))
        b = min(len(data), L + 6)
        mid = [data[i:i + 1] for i in range(a, b)]
        return [data[:a]] + mid + ([data[b:]] if b < len(data) else [])
    if delivery == 'bytewise-all':
        return [data[i:i + 1] for i in range(len(data))]
    raise HarnessError('delivery ' + delivery)


# ------------------------------------------------------------------ one execution

def make_world_for(ctx, shard, cfg):
    LQ, LP = CONFIGS[cfg]
    w = RetryWorld(ctx, 'w%d' % shard, ls.port_base_for_check(ctx.pid, shard),
                 conf='request_header_max_size %d bytes\nreply_header_max_size %d bytes\n' % (LQ, LP))
    w.cfg = cfg
    return w


def small_response(w, tag):
    body = b'ok'
    return ('HTTP/1.1 200 OK\r\nDate: %s\r\nContent-Length: %d\r\nCache-Control: no-store\r\nX-Tag: %s\r\n\r\n' % (
        ls.http_date(w.sq.now_us), len(body), tag)).encode('latin1') + body


def quiesce(w, c, ex, responder, rounds=2, max_steps=40):
    idle = 0
    for _ in range(max_steps):
        w.sq.settle()
        p = w._origin_step(responder, ex)
        if c.pump():
            p = True
        if p:
            idle = 0
        else:
            idle += 1
            if idle >= rounds:
                break


def run_req_case(w, case):
    L, S = case['limit'], case['size']
    method = b'POST' if case['body'] else b'GET'
    payload = b'payload' if case['body'] else b''
    # the body does not count towards the head size; its Content-Length field does
    head, terminated = build_request_head(case, w.url, w.hostport(), method, b'Content-Length: 7\r\n' if case['body'] else b'')
    if head is None:
        return {'outcome': 'skip:size-too-small-for-shape', 'vio': None, 'transcript': ''}
    assert len(head) == S, (len(head), S)
    ex = ls.Exchange()
    c = w.sq.client()
    first_ok = None
    if case['shape'] == 'second':
        # a small first request on the same connection: the limit is per message, not per connection
        r1 = ('GET %s HTTP/1.1\r\nHost: %s\r\nX-Pad: %s\r\n\r\n' % (w.url('/first%d' % case['n']), w.hostport(), 'a' * (L // 2))).encode()
        c.send(r1)
        quiesce(w, c, ex, lambda m: small_response(w, 'first'))
        rs, rest = httpref.parse_responses(c.inbuf, ['GET'], eof=c.eof)
        first_ok = bool(rs and rs[0].status == 200 and rs[0].complete)
        if not first_ok:
            raise HarnessError('the small first request of a "second" case was not served: %r' % c.inbuf[:200])
        c.inbuf = b''
        ex = ls.Exchange()
    pieces = split_pieces(head + payload, L, case['delivery'])
    sent = 0
    stopped_early = False
    responder = lambda m: small_response(w, 'second')
    for i, pc in enumerate(pieces):
        if c.eof or c.inbuf:
            stopped_early = True          # Squid already answered / closed: a real client would stop here
            break
        c.send(pc)
        sent += len(pc)
        if i + 1 < len(pieces):
            w.sq.settle(1)
            w._origin_step(responder, ex)
            c.pump()
    quiesce(w, c, ex, responder)
    rs, rest = httpref.parse_responses(c.inbuf, [method.decode()], eof=c.eof)
    status = rs[0].status if rs and rs[0].status else 0
    origin_bytes = len(ex.origin_raw)
    client_bytes, eof = c.inbuf, c.eof
    c.close()
    w.sq.settle(1)
    late = ls.Exchange()
    w._origin_step(None, late)
    origin_bytes += len(late.origin_raw)
    w.close_origin_conns()
    over = S > L
    vio = None
    if over:
        if origin_bytes:
            vio = ('req-forwarded', 'a request head of %d bytes (limit %d, shape %s, delivery %s) reached the origin (%d bytes upstream, client status %s)' % (
                S, L, case['shape'], case['delivery'], origin_bytes, status))
        elif status not in (414, 431):
            vio = ('req-not-answered', 'a request head of %d bytes (limit %d, shape %s, delivery %s, %d bytes sent) was not answered with 414/431: status %s, connection %s' % (
                S, L, case['shape'], case['delivery'], sent, status or 'none', 'closed' if eof else 'open'))
        oc = 'req:over:rejected-%s' % (status or ('closed' if eof else 'silent'))
    elif not terminated:
        oc = 'req:under:unterminated-%s' % (status or ('closed' if eof else 'waiting'))
    else:
        if status == 200 and len(ex.origin_requests) == 1:
            oc = 'req:%s:accepted' % ('at-limit' if S >= L - 1 else 'under')
            # the forwarded request is the one we sent (same target), with its body
            m = ex.origin_requests[0]
            if case['body'] and payload and m.body != payload:
                vio = ('req-body-lost', 'under-limit request forwarded with body %r instead of %r' % (m.body[:20], payload))
        else:
            oc = 'req:%s:refused-%s' % ('at-limit' if S >= L - 1 else 'under', status or ('closed' if eof else 'silent'))
    tr = b'O:' + ex.origin_raw + b'\nC:' + client_bytes + (b'\nEOF' if eof else b'')
    return {'outcome': oc, 'vio': vio, 'transcript': tr}


def run_resp_case(w, case):
    L, S = case['limit'], case['size']
    n = case['n']
    ex = ls.Exchange()
    c = w.sq.client()
    state = {'served': 0, 'pieces': None, 'conn': None, 'markers': None, 'terminated': True}
    body = b'ok' if case['body'] else b''

    def responder(m):
        # runs inside _origin_step when a complete request arrived: remember the connection, send piece 0 only
        state['served'] += 1
        if case['shape'] == 'second' and state['served'] == 1:
            return small_response(w, 'first')
        head, terminated, markers = build_response_head(case, ls.http_date(w.sq.now_us), case['body'])
        if head is None:
            state['pieces'] = []
            return small_response(w, 'too-small')
        assert len(head) == S
        state['markers'] = markers
        state['terminated'] = terminated
        state['pieces'] = split_pieces(head + (body if terminated else b''), L, case['delivery'])
        state['conn'] = [oc for oc in w.oconns if oc.requests and oc.requests[-1] is m][0]
        return state['pieces'].pop(0)
    reqs = []
    if case['shape'] == 'second':
        reqs.append(('GET %s HTTP/1.1\r\nHost: %s\r\n\r\n' % (w.url('/first%d' % n), w.hostport())).encode())
    reqs.append(('GET %s HTTP/1.1\r\nHost: %s\r\n\r\n' % (w.url('/r%d' % n), w.hostport())).encode())
    client_all = b''
    for i, rq in enumerate(reqs):
        c.send(rq)
        quiesce(w, c, ex, responder)
        if i + 1 < len(reqs):
            rs, rest = httpref.parse_responses(c.inbuf, ['GET'], eof=c.eof)
            if not (rs and rs[0].status == 200 and rs[0].complete):
                raise HarnessError('first exchange of a "second" response case failed: %r' % c.inbuf[:200])
            c.inbuf = b''
    if state['pieces'] is None:
        raise HarnessError('request for response case %d never reached the origin: %r' % (n, c.inbuf[:200]))
    if state['pieces'] == [] and state['markers'] is None:
        c.close()
        w.close_origin_conns()
        return {'outcome': 'skip:size-too-small-for-shape', 'vio': None, 'transcript': ''}
    # remaining pieces, one environment action each
    oc_conn = state['conn']
    sent_all = True
    while state['pieces']:
        if oc_conn.c.closed or oc_conn.c.eof or oc_conn.c.reset:
            sent_all = False
            break
        pc = state['pieces'].pop(0)
        oc_conn.c.send(pc)
        w.sq.settle(1)
        oc_conn.c.pump()
        c.pump()
    quiesce(w, c, ex, responder)
    if not state['terminated'] and not (oc_conn.c.closed or oc_conn.c.eof):
        # an origin that stops mid-head and closes: Squid must still not relay the partial head as a response
        oc_conn.c.close()
        quiesce(w, c, ex, responder)
    client_bytes, eof = c.inbuf, c.eof
    rs, rest = httpref.parse_responses(client_bytes, ['GET'], eof=eof)
    status = rs[0].status if rs and rs[0].status else 0
    c.close()
    w.sq.settle(1)
    w.close_origin_conns()
    ma, mz = state['markers']
    over = S > L
    vio = None
    seen = [mk.decode() for mk in (ma, mz) if mk in client_bytes]
    if over:
        if seen or status == ORIGIN_STATUS:
            vio = ('resp-relayed', 'a response head of %d bytes (limit %d, shape %s, delivery %s) was relayed to the client: status %s, markers seen %r' % (
                S, L, case['shape'], case['delivery'], status, seen))
        oc = 'resp:over:blocked-%s' % (status or ('closed' if eof else 'silent'))
    elif not state['terminated']:
        oc = 'resp:under:unterminated-%s' % (status or ('closed' if eof else 'silent'))
    else:
        if status == ORIGIN_STATUS and mz in client_bytes:
            oc = 'resp:%s:relayed' % ('at-limit' if S >= L - 1 else 'under')
            if case['body'] and rs[0].body != body:
                vio = ('resp-body-lost', 'under-limit response relayed with body %r' % rs[0].body[:20])
        else:
            oc = 'resp:%s:refused-%s' % ('at-limit' if S >= L - 1 else 'under', status or ('closed' if eof else 'silent'))
    tr = b'O:' + ex.origin_raw + b'\nC:' + client_bytes + (b'\nEOF' if eof else b'')
    return {'outcome': oc, 'vio': vio, 'transcript': tr}


def run_case(w, case):
    if case is None:
        return {'outcome': 'pad', 'violation': None, 'transcript': ''}
    if case['cfg'] != w.cfg:
        raise HarnessError('case %r dealt to a configuration %s instance' % (case, w.cfg))
    r = run_req_case(w, case) if case['dir'] == 'req' else run_resp_case(w, case)
    v = r.pop('vio', None)
    r['violation'] = None
    if v:
        r['outcome'] = 'VIOLATION:' + v[0]
        r['violation'] = '%s [case %r]' % (v[1], {k: case[k] for k in ('cfg', 'dir', 'shape', 'size', 'limit', 'delivery', 'body')})
    return r


def key_of(case):
    if case is None:
        return 'pad'
    # identity of a finding: direction + shape + delivery class + how far over the limit (1, 2, few, many)
    d = case['size'] - case['limit']
    over = 'by1' if d == 1 else 'by2' if d == 2 else 'by3-64' if d <= 64 else 'far' if d > 0 else 'under'
    return '%s:%s:%s:%s' % (case['dir'], case['shape'], 'whole' if case['delivery'] == 'whole' else 'segmented', over)


ASSUME = ['the real squid binary (ASan build of the current tree) runs under the lock-step/virtual-time shim; client and origin are played by the driver',
          'head size = all bytes from the first byte of the start line to the end of the blank line, as put on the wire by the driver',
          'limits are configured in bytes (1536/1024 and 4000/3000); other limit values are not covered',
          'the origin answers 203 with two unique markers at the start and end of the head, so any relayed part of an over-limit head is recognisable']
RULE = ('2 configurations x direction {request head, response head} x shape (long target / one long field / many fields / long field name / long reason / '
        'never-terminated line or head / second message on a persistent connection) x size in {L-16..L+16, L+64, L/4, L/2, 2L, 4L+3} (quick: L-3..L+3, L/2, 2L) x '
        'delivery {whole, split at L-1 / L / L+1, 64-byte pieces, byte-wise around L, byte-wise from the start (|S-L|<=1)} (quick: all but 64-byte pieces and byte-wise from the start) x body {no, yes} (quick: no); non-trivial = cases whose head was parsed by Squid and either passed (under the limit) or was refused '
        'because of its size (over the limit)')


def run(ctx):
    ls.build_squid(ctx)
    nshards = max(2, ctx.ncpu - ctx.ncpu % 2)
    cases, total = all_cases(ctx.quick, nshards)
    half = nshards // 2

    def make_world(c, shard):
        return make_world_for(c, shard, 'A' if shard < half else 'B')
    r = ls.run_cases(ctx, cases, run_case, make_world, key_of=key_of, nshards=nshards, determinism_n=8)
    oc = dict(r['outcomes'])
    pads = oc.pop('pad', 0)
    skips = sum(v for k, v in oc.items() if k.startswith('skip:'))
    evaluations = r['evaluations'] - pads
    passed = sum(v for k, v in oc.items() if k.endswith(':accepted') or k.endswith(':relayed'))
    under_pass = sum(v for k, v in oc.items() if k in ('req:under:accepted', 'resp:under:relayed'))
    under_refused = sum(v for k, v in oc.items() if k.startswith('req:under:refused') or k.startswith('resp:under:refused'))
    blocked = sum(v for k, v in oc.items() if ':over:' in k)
    flagged = sum(v for k, v in oc.items() if k.startswith('VIOLATION:'))
    if not r['deadline_hit'] and not r['violations']:
        if under_pass < 20 or blocked < 20:
            raise HarnessError('vacuity guard: passed=%d blocked=%d: %r' % (under_pass, blocked, oc))
        if under_refused > under_pass // 4:
            raise HarnessError('vacuity guard: %d heads at least 2 bytes under the limit were refused (only %d passed): %r' % (under_refused, under_pass, oc))
        for side in ('req', 'resp'):
            if not any(k.startswith(side + ':over:') for k in oc) or not any(k.startswith(side + ':under:') for k in oc):
                raise HarnessError('vacuity guard: side %s lacks over- or under-limit outcomes: %r' % (side, oc))
    vio = [Violation(k, what, {'case': c}) for k, what, c in r['violations']]
    obs = ['squid problem during %s: %s' % (k, what[:300]) for k, what, c in r['crashes']]
    vio += [Violation('crash:' + k, 'squid crashed/asserted during case %r: %s' % (c, what), {'case': c}) for k, what, c in r['crashes'] if c]
    want = [('req', 'url', +1, 'whole'), ('req', 'field', -2, 'whole'), ('req', 'unterminated-head', +1, 'bytewise-around'), ('req', 'second', +2, 'split@L'),
            ('resp', 'field', +1, 'whole'), ('resp', 'many', -2, 'split@L'), ('resp', 'reason', +3, 'split@L-1'), ('resp', 'unterminated', +2, 'whole')]
    picked = []
    for d, shape, delta, dl in want:
        for c in cases:
            if c and (c['cfg'], c['dir'], c['shape'], c['size'] - c['limit'], c['delivery'], c['body']) == ('A', d, shape, delta, dl, False):
                picked.append(c)
                break

    def describe(c, rr):
        t = rr['transcript']
        o, cl = (t.split(b'\nC:', 1) + [b''])[:2] if t else (b'', b'')
        return {'origin_received_bytes': len(o) - 2 if o.startswith(b'O:') else 0, 'client_got': repr(cl[:40])}
    samples = written_out_samples(ctx, make_world_for(ctx, 0, 'A'), run_case, picked, describe) or [s for s in r['samples'] if s.get('case')]
    cov = {'evaluations': evaluations, 'distinct_nontrivial': passed + blocked + flagged, 'rule': RULE, 'samples': samples,
           'outcome_classes': oc, 'exhaustive': not r['deadline_hit'] and evaluations == total, 'kicks': r['kicks'],
           'determinism_replays': r['replays'], 'cases_total': total, 'skipped_size_too_small_for_shape': skips,
           'limits': CONFIGS}
    return Result(LEVEL, cov, vio, ASSUME, obs)


def replay(ctx, data):
    ls.build_squid(ctx)
    case = data['case']
    w = make_world_for(ctx, 0, case['cfg'])
    w.start()
    try:
        r = run_case(w, case)
        print(r['transcript'][:6000].decode('latin1'))
        print('outcome:', r['outcome'])
    finally:
        w.stop()
    v = [Violation(key_of(case), r['violation'], data)] if r['violation'] else []
    return Result(LEVEL, {}, v, ASSUME)
