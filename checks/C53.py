"""C53 Shared page allocator never double-allocates or loses pages — E2: the real Ipc::Mem::PageStack /
IdSet counting tree under every interleaving (up to a preemption bound) of 2-3 processes popping and
pushing pages."""
from vverif import seq, sched
from vverif.core import Result, HarnessError

LEVEL = 'model_checking'
ASSUME = ['sequentially consistent interleavings at the granularity of individual std::atomic operations (all shared state of PageStack/IdSet '
          'is atomic); compare_exchange_weak may additionally fail spuriously once per execution (costs one deviation)',
          'src/ipc/mem/PageStack.cc of the current tree compiled unmodified with std::atomic substituted by a scheduler-controlled atomic '
          '(forced pre-include); the stack lives in a harness buffer (placement new), not in a shared memory segment',
          'a failing pop() is judged against the counting abstraction: it is justified iff at some point during it every page of the pool was '
          'held or claimed by a concurrent pop() that goes on to succeed (identity-bag linearizability does NOT hold for the counting tree: see '
          'observations)',
          'PagePool level accounting (Pages.cc) is not part of the harness']

RULE = ('scenarios = 5 pools (capacity 130 = two inner levels with free pages in different leaves {1,65,129} / in one leaf {1,2} / none; '
        'capacity 3 = one inner level, created full / empty; each process initially holds one page in the non-full pools) x all script tuples '
        'over {o = pop, u = push back the page acquired last}: quick 2 processes x <=3 ops and 3 processes x 1 op, preemption bound 2; '
        'thorough 2 processes x <=3 ops bound 3, 3 processes x <=2 ops bound 2 and 3 processes x 1 op bound 3; every schedule within the '
        'bound runs the real pop()/push()')


def _build(ctx):
    return sched.build(ctx, 'C53_pagestack.cc', ['ipc/mem/PageStack.cc', 'ipc/mem/Page.cc'],
                       objects=['tests/stub_debug.o'], libs=['base/.libs/libbase.a'])


def _result(ctx, m):
    c = m['counters']
    partial = m['deadline_hit'] or c.get('cap_hit')
    if not m['failures'] and not m['crashes'] and not partial:
        need = {'pop_ok': 100, 'pop_empty': 100, 'pushes': 100, 'pops_with_cas_retry': 100, 'histories_with_overlapping_ops': 100,
                'histories_with_empty_pop_overlapping_push': 10, 'context_switches': 1000}
        low = {k: c.get(k, 0) for k, v in need.items() if c.get(k, 0) < v}
        if low:
            raise HarnessError('vacuity guard: too few conflict witnesses: %r' % low)
    obs = [s for s in m['samples'] if s.startswith('OBS ')]
    samples = [s for s in m['samples'] if not s.startswith('OBS ')] + obs[:3]
    cov = {
        'states': c.get('states', 0), 'transitions': c.get('steps', 0),
        'traces_validated_against_impl': c.get('executions', 0),
        'scenarios': m['evaluations'], 'scenarios_completed_at_bound': c.get('scenarios_completed_at_bound', 0),
        'bound_completed': ('2 preemptions' if ctx.quick else '3 preemptions (2 for three processes with two operations each)') if not partial else 'partial',
        'histories_checked': c.get('histories_checked', 0),
        'conflict_witnesses': {k: c.get(k, 0) for k in ('context_switches', 'pop_ok', 'pop_empty', 'pushes', 'skipped_pushes',
                                                        'pops_with_cas_retry', 'histories_with_overlapping_ops',
                                                        'histories_with_empty_pop_overlapping_push', 'linearization_search_nodes')},
        'histories_not_identity_bag_linearizable': c.get('histories_not_identity_bag_linearizable', 0),
        'rule': RULE, 'samples': samples[:8], 'exhaustive': not partial, 'outcome_classes': m['outcomes'],
    }
    observations = []
    if c.get('histories_not_identity_bag_linearizable', 0):
        observations.append('%d explored histories are linearizable only w.r.t. the counting abstraction, not w.r.t. a bag of page identities: '
                            'a pop() can return EMPTY while a page sits in the stack that is reserved (root counter already decremented) by a '
                            'concurrent pop() which later takes a different, meanwhile released page. Not counted as a violation.'
                            % c['histories_not_identity_bag_linearizable'])
        observations += obs[:3]
    return Result(LEVEL, cov, seq.violations_from(m), ASSUME, observations)


def run(ctx):
    exe = _build(ctx)
    m = seq.run(ctx, exe)
    return _result(ctx, m)


def replay(ctx, data):
    exe = _build(ctx)
    m = seq.replay_case(ctx, exe, data['case'])     # "scenario|schedule"
    return Result(LEVEL, {}, seq.violations_from(m), ASSUME)
