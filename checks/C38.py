"""C38 PROXY protocol headers are parsed faithfully and incrementally — E1, reference encoder x every prefix."""
from vverif import seq, seqx
from vverif.core import Result, HarnessError

LEVEL = 'exploration'
RULE = ('a reference encoder enumerates PROXY v1 lines (TCP4: 6x6 address pairs, TCP6: 7x7, x 6x6 ports (thorough 10x10), UNKNOWN with '
        'junk and the 105/106/107-octet limits, TCP6 with IPv4-mapped addresses) and v2 headers (LOCAL/PROXY x UNSPEC/INET/INET6/UNIX '
        'x UNSPEC/STREAM/DGRAM x 3 address blocks x every TLV list of length <= 2 over 15 TLVs (quick) / <= 2 over 30 TLVs plus a '
        'strided set of length-3 lists (thorough), and the 65535-octet maximum); each header, alone and followed by payload, is '
        'parsed complete and at EVERY prefix: a proper prefix of the header must ask for more input, anything longer must give the '
        'identical result, fields and consumed size must equal the encoded ones.  About 150 v1 and 100 v2 malformed inputs in named '
        'classes (line > 107, bad/garbled ports, family mismatch, missing fields, bad keyword/separator/line end/address/magic, bad '
        'version/command/family/protocol nibble, length shorter than the address block, TLV overrun) must be rejected, and for '
        'every input each prefix must ask for more, be rejected, or equal the complete result. '
        'non-trivial = every enumerated input (header x payload variant), each standing for all of its byte prefixes (parse_calls counts them)')
ASSUME = ['src/proxyp/Parser.cc, proxyp/Header.cc, parser/BinaryTokenizer.cc and parser/Tokenizer.cc are recompiled from the scratch '
          'copy of the current tree with -fsanitize=address,undefined and linked into the tests/testCacheManager link set; every '
          'input prefix is copied into its own SBuf',
          'documented v2 behaviour is the reference: UNSPEC family or protocol => no addresses and no TLVs, LOCAL => TLVs discarded, '
          'AF_UNIX addresses are skipped; IPv4 addresses are compared in Ip::Address\' IPv4-mapped form',
          'lenient v1 spellings (ports with leading zeros, inet_aton short forms, IPv4-mapped text under TCP4) are counted, not judged']


def _build(ctx):
    return seqx.build(ctx, 'tests/testCacheManager', ['C38_proxyp.cc'],
                      tree_sources=['proxyp/Parser.cc', 'proxyp/Header.cc', 'parser/BinaryTokenizer.cc', 'parser/Tokenizer.cc'],
                      tree_flags=['-fsanitize=undefined', '-fno-sanitize-recover=undefined'], ubsan=True)


def run(ctx):
    exe = _build(ctx)
    m = seq.run(ctx, exe)
    oc = m['outcomes']
    cov = seq.coverage_from(m, RULE, min_classes=4)
    cov.update({k: m['counters'].get(k, 0) for k in ('parse_calls', 'prefixes_need_more', 'prefixes_same_result', 'prefixes_rejected')})
    viol = seq.violations_from(m)
    if not m['deadline_hit'] and not m['crashes']:
        def need(what, n, prefix):
            got = sum(v for k, v in oc.items() if k.startswith(prefix))
            if got < n:
                raise HarnessError('vacuity guard: %s: %d inputs (need %d): %r' % (what, got, n, oc))
        need('well-formed v1/v2 headers tried', 15000, 'wellformed-')
        need('well-formed v1 headers parsed', 1000, 'wellformed-v1.0-parsed')
        need('well-formed v2 headers parsed', 5000, 'wellformed-v2.0-parsed')
        need('malformed inputs tried', 200, 'malformed-')
        if not viol or all(v.key.startswith(('malformed-not-rejected:', 'wellformed:')) for v in viol):
            # prefix enumeration of an input stops at its first prefix violation, so these only hold without prefix violations
            for k, n in (('prefixes_need_more', 1000000), ('prefixes_same_result', 100000), ('prefixes_rejected', 5000)):
                if cov[k] < n:
                    raise HarnessError('vacuity guard: %s = %d (need %d)' % (k, cov[k], n))
    return Result(LEVEL, cov, viol, ASSUME)


def replay(ctx, data):
    exe = _build(ctx)
    m = seq.replay_case(ctx, exe, data['case'])
    m.setdefault('deadline_hit', False)
    return Result(LEVEL, {}, seq.violations_from(m), ASSUME)
