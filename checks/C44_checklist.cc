// C44 — access lists decide by first match, also when ACLs go asynchronous (E1, explicit-state exploration).
//
// Real code: ACLChecklist (nonBlockingCheck/resumeNonBlockingCheck/matchChild/goAsync/fastCheck/
// calcImplicitAnswer/checkCallback), ACLFilledChecklist, Acl::Tree, Acl::AndNode/OrNode/NotNode,
// Acl::AllOf, Acl::AnyOf, Acl::InnerNode::lineParse, Acl::Node::ParseNamedAcl and aclParseAccessLine:
// every configuration is written as squid.conf lines ("acl L0 vleaf", "acl G all-of L2 !L3",
// "http_access allow L0 !G") and parsed by the real parser.  Only the leaf ACL type "vleaf" is
// synthetic: its match() asks the explorer what to do (answer now, or goAsync() and answer on resume).
// The explorer owns the "event loop": it decides when a pending lookup completes, when the caller of
// a check disappears, and interleaves a second check running on the same rule tree.
#include "squid.h"
#include "acl/Acl.h"
#include "acl/AllOf.h"
#include "acl/AnyOf.h"
#include "acl/BoolOps.h"
#include "acl/Checklist.h"
#include "acl/FilledChecklist.h"
#include "acl/Gadgets.h"
#include "acl/Tree.h"
#include "base/CbcPointer.h"
#include "cache_cf.h"
#include "cbdata.h"
#include "ConfigParser.h"
#include "mem/forward.h"
#include "SquidConfig.h"

#include "vharness.h"

namespace {

// ---------------------------------------------------------------- leaf behaviours
enum { bT, bF, bAT, bAF, bST, bSF, b2T, b2F, NBEH };
const char *BehName[NBEH] = {"T", "F", "AT", "AF", "ST", "SF", "2T", "2F"};
// T/F: answers at once.  AT/AF: one lookup that completes later (goAsync), then the answer.
// ST/SF: the lookup completes inside the starter (the starter calls resumeNonBlockingCheck() itself).
// 2T/2F: two consecutive lookups (goes async again when resumed), then the answer.
inline bool behTruth(int b) { return (b & 1) == 0; }
inline int behLookups(int b) { return b < bAT ? 0 : (b < b2T ? 1 : 2); }
inline bool behSyncResume(int b) { return b == bST || b == bSF; }

const int MaxLeaves = 8;

class Leaf;

class Caller
{
    CBDATA_CLASS(Caller);
public:
    struct Run *run = nullptr;
};
CBDATA_CLASS_INIT(Caller);

struct Run {
    char tag = 'A';
    bool invert = false;        // this transaction sees the opposite truth value of every leaf
    bool fast = false;
    ACLFilledChecklist *cl = nullptr;
    CbcPointer<ACLFilledChecklist> weak;
    Caller *caller = nullptr;
    bool gone = false;
    int callbacks = 0;
    bool callbackWhilePending = false;
    Acl::Answer answer;
    Leaf *pending = nullptr;
    int pauses = 0;
    int refused = 0;
    int done[MaxLeaves] = {};
};

std::vector<Run *> ActiveRuns;
std::string HarnessProblem;      // set by callbacks that cannot call V::fail themselves in a useful way

Run *runOf(const ACLChecklist *cl)
{
    for (auto r : ActiveRuns) if (r->cl == cl) return r;
    return nullptr;
}

uint64_t nLeafEvals = 0, nSyncResumes = 0, nEvents = 0, nStates = 0, nExecutions = 0, nAssignments = 0;
uint64_t nPausedRuns = 0, nDoubleAsyncRuns = 0, nCallerGone = 0, nFastChecks = 0, nTwoCheckExecutions = 0, nTwoCheckSkipped = 0,
         nTwoCheckChoicePoints = 0, nRefusedInFast = 0, nNegatedAsync = 0, nGroupAsync = 0, nDifferentAnswersTwoChecks = 0;

class Leaf : public Acl::Node
{
public:
    void *operator new(size_t n) { return ::operator new(n); }
    void operator delete(void *p) { ::operator delete(p); }

    int idx = -1;
    int beh = bT;

    char const *typeString() const override { return "vleaf"; }
    void parse() override {}
    SBufList dump() const override { return SBufList(); }
    bool empty() const override { return false; }

    static void Starter(ACLFilledChecklist &, const Acl::Node &);

private:
    int match(ACLChecklist *cl) override {
        Run *r = runOf(cl);
        if (!r) { HarnessProblem = "leaf evaluated for an unknown checklist"; return 0; }
        ++nLeafEvals;
        while (r->done[idx] < behLookups(beh)) {
            const int before = r->done[idx];
            if (cl->goAsync(Starter, *this))
                return -1;      // paused; we will be evaluated again after resumeNonBlockingCheck()
            if (r->done[idx] == before) {
                // no lookup possible (fast check or Squid's loop protection): like Squid's own slow ACLs, a mismatch
                ++r->refused;
                return 0;
            }
            // else the lookup completed synchronously inside the starter: use its result
        }
        return (behTruth(beh) != r->invert) ? 1 : 0;
    }
};

void Leaf::Starter(ACLFilledChecklist &cl, const Acl::Node &acl)
{
    Run *r = runOf(&cl);
    Leaf *leaf = const_cast<Leaf *>(dynamic_cast<const Leaf *>(&acl));
    if (!r || !leaf) { HarnessProblem = "starter called for an unknown checklist or node"; return; }
    if (behSyncResume(leaf->beh)) {
        ++r->done[leaf->idx];
        ++nSyncResumes;
        cl.resumeNonBlockingCheck();    // "the answer was cached": resumes before goAsync() returns
        return;
    }
    if (r->pending) { HarnessProblem = "a second lookup was started while one is pending"; return; }
    r->pending = leaf;
    ++r->pauses;
}

void Done(Acl::Answer a, void *data)
{
    Run *r = static_cast<Caller *>(data)->run;
    ++r->callbacks;
    r->answer = a;
    if (r->pending) r->callbackWhilePending = true;
}

// ---------------------------------------------------------------- configurations
struct Lit { bool neg; bool group; int leaf; };
struct Rule { bool allow; std::vector<Lit> lits; };
struct Structure {
    std::vector<Rule> rules;
    int groupKind = 0;                          // 0 none, 1 all-of, 2 any-of
    std::vector<std::vector<Lit>> groupLines;   // one "acl G ..." line each
    int nLeaves = 0;

    static std::string litText(const Lit &l) { return std::string(l.neg ? "!" : "") + (l.group ? std::string("G") : "L" + std::to_string(l.leaf)); }
    static std::string litsText(const std::vector<Lit> &ls) { std::string s; for (const auto &l : ls) { if (!s.empty()) s += ' '; s += litText(l); } return s; }

    std::vector<std::string> lines() const {
        std::vector<std::string> out;
        for (int i = 0; i < nLeaves; ++i) out.push_back("acl L" + std::to_string(i) + " vleaf");
        for (const auto &gl : groupLines) out.push_back(std::string("acl G ") + (groupKind == 1 ? "all-of " : "any-of ") + litsText(gl));
        for (const auto &r : rules) out.push_back(std::string("http_access ") + (r.allow ? "allow " : "deny ") + litsText(r.lits));
        return out;
    }
    std::string desc() const {
        std::string s;
        for (const auto &r : rules) { if (!s.empty()) s += "; "; s += (r.allow ? "allow " : "deny ") + litsText(r.lits); }
        if (rules.empty()) s = "(no rules)";
        if (groupKind) {
            s += std::string(" | G=") + (groupKind == 1 ? "all-of(" : "any-of(");
            for (size_t i = 0; i < groupLines.size(); ++i) { if (i) s += " / "; s += litsText(groupLines[i]); }
            s += ")";
        }
        return s;
    }
};

enum { rDeny = 0, rAllow = 1, rDunno = 2 };
const char *AnsName[] = {"DENIED", "ALLOWED", "DUNNO"};

bool refLit(const Structure &s, const Lit &l, const bool *truth)
{
    bool v;
    if (l.group) {
        v = false;
        for (const auto &line : s.groupLines) {
            if (s.groupKind == 1) {             // all-of: lines ORed, names on a line ANDed
                bool all = true;
                for (const auto &x : line) all = all && refLit(s, x, truth);
                v = v || all;
            } else {                            // any-of: everything ORed
                for (const auto &x : line) v = v || refLit(s, x, truth);
            }
        }
    } else
        v = truth[l.leaf];
    return l.neg ? !v : v;
}

// the property statement: first rule whose ACLs all match; else the opposite of the last rule; else neither
int refAnswer(const Structure &s, const bool *truth, int *winner = nullptr)
{
    if (winner) *winner = -1;
    if (s.rules.empty()) return rDunno;
    for (size_t i = 0; i < s.rules.size(); ++i) {
        bool all = true;
        for (const auto &l : s.rules[i].lits) all = all && refLit(s, l, truth);
        if (all) { if (winner) *winner = i; return s.rules[i].allow ? rAllow : rDeny; }
    }
    return s.rules.back().allow ? rDeny : rAllow;
}

int codeOf(const Acl::Answer &a) { return a.allowed() ? rAllow : (a.denied() ? rDeny : (a == ACCESS_DUNNO ? rDunno : 3)); }

struct Built {
    acl_access *access = nullptr;   // what a directive such as http_access stores in SquidConfig
    std::vector<Leaf *> leaves;
    bool ok = true;

    explicit Built(const Structure &s) {
        ConfigParser parser;
        for (const auto &line : s.lines()) {
            xstrncpy(config_input_line, line.c_str(), BUFSIZ);
            const auto sp = line.find(' ');
            char *rest = xstrdup(line.c_str() + sp + 1);   // parse_line() hands the text after the directive name to the directive parser
            ConfigParser::SetCfgLine(rest);
            if (line.compare(0, 4, "acl ") == 0) Acl::Node::ParseNamedAcl(parser, Config.namedAcls);
            else aclParseAccessLine("http_access", parser, &access);
            ConfigParser::SetCfgLine(nullptr);
            xfree(rest);
        }
        for (int i = 0; i < s.nLeaves; ++i) {
            auto leaf = dynamic_cast<Leaf *>(Acl::Node::FindByName(SBuf(("L" + std::to_string(i)).c_str())));
            if (!leaf) { ok = false; return; }
            leaf->idx = i;
            leaves.push_back(leaf);
        }
        if (s.rules.empty() ? access != nullptr : (!access || !*access || (*access)->childrenCount() != s.rules.size())) ok = false;
    }
    ~Built() {
        aclDestroyAccessList(&access);
        Acl::FreeNamedAcls(&Config.namedAcls);
    }
};

// ---------------------------------------------------------------- the explorer
struct World {
    const Structure &s;
    Built &b;
    bool truth[MaxLeaves];      // as seen by a non-inverted slow check
    std::string assign;         // "L0=AT L1=F"
    std::string where(const std::string &schedule) const { return "leaves {" + assign + "} schedule " + schedule; }
};

void startSlow(World &w, Run &r)
{
    auto p = ACLFilledChecklist::Make(w.b.access, nullptr);
    r.cl = p.get();
    r.weak = r.cl;
    r.caller = new Caller;
    r.caller->run = &r;
    ActiveRuns.push_back(&r);
    ++nEvents;
    ACLFilledChecklist::NonBlockingCheck(std::move(p), Done, r.caller);
}

void complete(Run &r)
{
    Leaf *leaf = r.pending;
    r.pending = nullptr;
    ++r.done[leaf->idx];
    ++nEvents;
    r.cl->resumeNonBlockingCheck();
}

void callerGoesAway(Run &r)
{
    delete r.caller;        // cbdata: the memory stays locked by the checklist, but is no longer valid
    r.gone = true;
    ++nEvents;
}

void forget(Run &r)
{
    for (size_t i = 0; i < ActiveRuns.size(); ++i) if (ActiveRuns[i] == &r) { ActiveRuns.erase(ActiveRuns.begin() + i); break; }
    if (!r.gone && r.caller) { delete r.caller; r.caller = nullptr; }
    r.weak = nullptr;
}

// checks a finished slow check; returns false after reporting a failure
bool verifySlow(World &w, Run &r, const std::string &schedule)
{
    std::string bad;
    bool t[MaxLeaves];
    for (int i = 0; i < MaxLeaves; ++i) t[i] = w.truth[i] != r.invert;
    const int want = refAnswer(w.s, t);
    if (!HarnessProblem.empty()) bad = "harness: " + HarnessProblem;
    else if (r.pending) bad = "harness: verify called while a lookup is pending";
    else if (r.gone) {
        if (r.callbacks) bad = "the callback was called " + std::to_string(r.callbacks) + " time(s) although its caller had gone away";
    } else if (r.callbacks != 1) bad = "the callback was called " + std::to_string(r.callbacks) + " times instead of once";
    else if (r.callbackWhilePending) bad = "the callback was called while a lookup was still pending";
    else if (codeOf(r.answer) != want)
        bad = std::string("check ") + r.tag + " answered " + AnsName[codeOf(r.answer) > 2 ? 2 : codeOf(r.answer)] + (codeOf(r.answer) > 2 ? "(other)" : "") + " but first-match evaluation gives " + AnsName[want];
    if (bad.empty() && r.weak.valid()) bad = "the checklist object was not destroyed after the check ended";
    if (!bad.empty()) {
        V::fail(bad + " [" + w.where(schedule) + (r.invert ? ", check B sees inverted leaf values" : "") + "]");
        HarnessProblem.clear();
        return false;
    }
    return true;
}

bool fastCheckOnce(World &w, const std::string &schedule)
{
    Run f;
    f.tag = 'F';
    f.fast = true;
    auto p = ACLFilledChecklist::Make(w.b.access, nullptr);
    f.cl = p.get();
    ActiveRuns.push_back(&f);
    ++nEvents;
    ++nFastChecks;
    const Acl::Answer ans = p->fastCheck();
    forget(f);
    // a fast check cannot wait: a leaf that needs a lookup reports a mismatch
    bool t[MaxLeaves];
    for (int i = 0; i < w.s.nLeaves; ++i) t[i] = behLookups(w.b.leaves[i]->beh) ? false : w.truth[i];
    const int want = refAnswer(w.s, t);
    nRefusedInFast += f.refused;
    if (f.pauses || f.pending) { V::fail("a fast check started an asynchronous lookup [" + w.where(schedule) + "]"); return false; }
    if (codeOf(ans) != want) {
        V::fail(std::string("fastCheck() answered ") + AnsName[codeOf(ans) > 2 ? 2 : codeOf(ans)] + " but first-match evaluation (lookup-needing leaves mismatch) gives " + AnsName[want] + " [" + w.where(schedule) + "]");
        return false;
    }
    return true;
}

// one configuration (structure + behaviour of every leaf): all schedules
bool exploreAssignment(World &w, bool twoChecks)
{
    ++nAssignments;
    int pausesA = 0;
    // (a) one slow check; lookups complete one after the other
    {
        Run a;
        startSlow(w, a);
        std::string sched = "A";
        while (a.pending) { complete(a); sched += 'a'; }
        pausesA = a.pauses;
        nStates += 2 + a.pauses;
        ++nExecutions;
        const bool ok = verifySlow(w, a, sched);
        forget(a);
        if (!ok) return false;
        int winner = -1;
        const int want = refAnswer(w.s, w.truth, &winner);
        V::outcome(want == rDunno ? "dunno:no-rules" : (winner >= 0 ? (want == rAllow ? "allow:rule" : "deny:rule") : (want == rAllow ? "allow:implicit" : "deny:implicit")));
        if (pausesA) ++nPausedRuns;
    }
    // (b) fast check
    if (!fastCheckOnce(w, "F")) return false;
    ++nStates;
    ++nExecutions;

    for (int k = 1; k <= pausesA; ++k) {
        // (c) the caller goes away while the k-th lookup is pending
        {
            Run a;
            startSlow(w, a);
            std::string sched = "A";
            for (int i = 1; i < k; ++i) { complete(a); sched += 'a'; }
            callerGoesAway(a);
            sched += 'x';
            complete(a);
            sched += 'a';
            ++nCallerGone;
            ++nStates;
            ++nExecutions;
            bool ok = true;
            if (a.pending) {
                V::fail("the check went on to start another lookup after its caller had gone away [" + w.where(sched) + "]");
                ok = false;
                while (a.pending) complete(a);
            } else ok = verifySlow(w, a, sched);
            forget(a);
            if (!ok) return false;
        }
        // (d) a fast check on the same tree while the k-th lookup is pending
        {
            Run a;
            startSlow(w, a);
            std::string sched = "A";
            for (int i = 1; i < k; ++i) { complete(a); sched += 'a'; }
            sched += 'F';
            bool ok = fastCheckOnce(w, sched);
            while (a.pending) { complete(a); sched += 'a'; }
            ++nStates;
            ++nExecutions;
            ok = verifySlow(w, a, sched) && ok;
            forget(a);
            if (!ok) return false;
        }
    }

    // (e) two slow checks on the same tree, the second one seeing the opposite value of every leaf;
    //     every interleaving of their lookup completions (stateless depth-first search over the choice points)
    if (twoChecks && pausesA) {
        std::vector<char> forced;
        uint64_t execs = 0;
        bool skipped = false;
        for (;;) {
            Run a, b;
            b.tag = 'B';
            b.invert = true;
            startSlow(w, a);
            startSlow(w, b);
            std::string sched = "AB";
            size_t decision = 0;
            while (a.pending || b.pending) {
                char pick;
                if (a.pending && b.pending) {
                    if (decision == forced.size()) { forced.push_back('a'); ++nStates; ++nTwoCheckChoicePoints; }
                    pick = forced[decision++];
                } else pick = a.pending ? 'a' : 'b';
                sched += pick;
                complete(pick == 'a' ? a : b);
            }
            ++nExecutions;
            ++nTwoCheckExecutions;
            ++execs;
            if (a.pauses + b.pauses > 8) skipped = true;    // bound: beyond 8 lookups only the first (A-first) interleaving
            const bool ok = verifySlow(w, a, sched) & verifySlow(w, b, sched);
            if (a.callbacks == 1 && b.callbacks == 1 && codeOf(a.answer) != codeOf(b.answer)) ++nDifferentAnswersTwoChecks;
            forget(a);
            forget(b);
            if (!ok) return false;
            if (skipped) { ++nTwoCheckSkipped; break; }
            // backtrack: flip the last 'a' choice to 'b'
            while (!forced.empty() && forced.back() == 'b') forced.pop_back();
            if (forced.empty()) break;
            forced.back() = 'b';
        }
    }
    return true;
}

void runStructure(const std::string &tag, const Structure &s, const std::vector<int> &alphabet, bool twoChecks)
{
    const std::string desc = tag + ":" + s.desc();
    if (!V::begin_case(desc)) return;
    {
        Built b(s);
        if (!b.ok) { V::fail("harness: the parsed configuration does not have the expected shape"); V::end_case(); return; }
        World w{s, b, {}, ""};
        std::vector<int> pick(s.nLeaves, 0);
        bool sampled = false;
        for (;;) {
            w.assign.clear();
            bool anyAsync = false, any2 = false;
            for (int i = 0; i < s.nLeaves; ++i) {
                const int beh = alphabet[pick[i]];
                b.leaves[i]->beh = beh;
                w.truth[i] = behTruth(beh);
                if (i) w.assign += ' ';
                w.assign += "L" + std::to_string(i) + "=" + BehName[beh];
                anyAsync = anyAsync || behLookups(beh);
                any2 = any2 || behLookups(beh) == 2;
            }
            if (any2) ++nDoubleAsyncRuns;
            if (!exploreAssignment(w, twoChecks)) break;
            if (!sampled && anyAsync && s.nLeaves >= 2) {
                sampled = true;
                bool t[MaxLeaves];
                for (int i = 0; i < MaxLeaves; ++i) t[i] = w.truth[i];
                V::sample(desc + " {" + w.assign + "} -> " + AnsName[refAnswer(s, t)]);
            }
            int k = s.nLeaves - 1;
            while (k >= 0 && ++pick[k] == (int)alphabet.size()) { pick[k] = 0; --k; }
            if (k < 0) break;
        }
        // structure-level statistics for the vacuity guards
        for (const auto &r : s.rules) for (const auto &l : r.lits) { if (l.neg && !l.group) ++nNegatedAsync; if (l.group) ++nGroupAsync; }
    }
    V::end_case();
}

// ---------------------------------------------------------------- enumeration of structures
// all rule shapes with 1..maxLits literals over fresh leaves (numbered from *next), both actions, all negation patterns
std::vector<Rule> ruleShapes(int maxLits)
{
    std::vector<Rule> out;
    for (int allow = 1; allow >= 0; --allow)
        for (int n = 1; n <= maxLits; ++n)
            for (int negs = 0; negs < (1 << n); ++negs) {
                Rule r; r.allow = allow;
                for (int i = 0; i < n; ++i) r.lits.push_back({(negs >> i & 1) != 0, false, -1});
                out.push_back(r);
            }
    return out;
}

void number(Structure &s)      // give every non-group literal its own leaf
{
    int next = 0;
    for (auto &r : s.rules) for (auto &l : r.lits) if (!l.group) l.leaf = next++;
    for (auto &gl : s.groupLines) for (auto &l : gl) l.leaf = next++;
    s.nLeaves = next;
}

void familyPlain(const std::string &tag, int nRules, int maxLits, const std::vector<int> &alphabet, bool twoChecks)
{
    const auto shapes = ruleShapes(maxLits);
    std::vector<int> idx(nRules, 0);
    for (;;) {
        Structure s;
        for (int i = 0; i < nRules; ++i) s.rules.push_back(shapes[idx[i]]);
        number(s);
        runStructure(tag, s, alphabet, twoChecks);
        int k = nRules - 1;
        while (k >= 0 && ++idx[k] == (int)shapes.size()) { idx[k] = 0; --k; }
        if (k < 0) break;
    }
}

// two rules over the same two leaves (a leaf may occur in both rules and twice in one rule)
void familyShared(const std::string &tag, const std::vector<int> &alphabet, bool twoChecks)
{
    std::vector<Rule> shapes;
    for (int allow = 1; allow >= 0; --allow) {
        for (int l0 = 0; l0 < 2; ++l0) for (int n0 = 0; n0 < 2; ++n0) {
                Rule r; r.allow = allow; r.lits.push_back({n0 != 0, false, l0}); shapes.push_back(r);
                for (int l1 = 0; l1 < 2; ++l1) for (int n1 = 0; n1 < 2; ++n1) { Rule q = r; q.lits.push_back({n1 != 0, false, l1}); shapes.push_back(q); }
            }
    }
    for (const auto &r0 : shapes)
        for (const auto &r1 : shapes) {
            Structure s;
            s.rules = {r0, r1};
            s.nLeaves = 2;
            runStructure(tag, s, alphabet, twoChecks);
        }
}

std::vector<std::pair<int, std::vector<std::vector<Lit>>>> groupShapes()
{
    std::vector<std::pair<int, std::vector<std::vector<Lit>>>> out;
    auto lit = [](int neg) { return Lit{neg != 0, false, -1}; };
    for (int kind = 1; kind <= 2; ++kind) {
        for (int a = 0; a < 2; ++a) out.push_back({kind, {{lit(a)}}});                                                  // one line, one name
        for (int a = 0; a < 2; ++a) for (int b = 0; b < 2; ++b) out.push_back({kind, {{lit(a), lit(b)}}});              // one line, two names
        for (int a = 0; a < 2; ++a) for (int b = 0; b < 2; ++b) out.push_back({kind, {{lit(a)}, {lit(b)}}});            // two lines
        if (kind == 1)
            for (int a = 0; a < 2; ++a) for (int b = 0; b < 2; ++b) for (int c = 0; c < 2; ++c) out.push_back({kind, {{lit(a), lit(b)}, {lit(c)}}});
    }
    return out;
}

// one literal of the rule list is the (possibly negated) group G
void familyGroup(const std::string &tag, int nRules, const std::vector<int> &alphabet, bool twoChecks)
{
    std::vector<Rule> gRules;       // rule shapes containing G
    for (int allow = 1; allow >= 0; --allow)
        for (int gneg = 0; gneg < 2; ++gneg) {
            Rule r; r.allow = allow; r.lits.push_back({gneg != 0, true, -1}); gRules.push_back(r);
            for (int n = 0; n < 2; ++n) {
                Rule a = r; a.lits.push_back({n != 0, false, -1}); gRules.push_back(a);                 // G L
                Rule b; b.allow = allow; b.lits.push_back({n != 0, false, -1}); b.lits.push_back({gneg != 0, true, -1}); gRules.push_back(b);   // L G
            }
        }
    const auto others = ruleShapes(1);
    for (const auto &g : groupShapes())
        for (const auto &gr : gRules) {
            if (nRules == 1) {
                Structure s; s.rules = {gr}; s.groupKind = g.first; s.groupLines = g.second; number(s);
                runStructure(tag, s, alphabet, twoChecks);
            } else {
                for (const auto &o : others)
                    for (int first = 0; first < 2; ++first) {
                        Structure s;
                        if (first) s.rules = {gr, o}; else s.rules = {o, gr};
                        s.groupKind = g.first; s.groupLines = g.second; number(s);
                        runStructure(tag, s, alphabet, twoChecks);
                    }
            }
        }
}

void body(V::Ctx &ctx)
{
    Mem::Init();
    // squid.conf default "configuration_includes_quoted_values off" (default_all() sets both before parsing starts)
    ConfigParser::RecognizeQuotedValues = false;
    ConfigParser::StrictMode = false;
    Acl::RegisterMaker("vleaf", [](Acl::TypeName)->Acl::Node* { return new Leaf; });
    Acl::RegisterMaker("all-of", [](Acl::TypeName)->Acl::Node* { return new Acl::AllOf; });    // as in Acl::Init() (src/AclRegs.cc)
    Acl::RegisterMaker("any-of", [](Acl::TypeName)->Acl::Node* { return new Acl::AnyOf; });

    const std::vector<int> all8 = {bT, bF, bAT, bAF, bST, bSF, b2T, b2F};
    const std::vector<int> four = {bT, bF, bAT, bAF};
    const std::vector<int> six = {bT, bF, bAT, bAF, bST, b2F};
    const std::vector<int> five = {bT, bF, bAT, bAF, bST};

    {   // no rules at all (the directive was never configured)
        Structure s;
        runStructure("E", s, all8, true);
    }
    familyPlain("R1", 1, 2, all8, true);
    familyPlain("R2", 2, 2, all8, true);
    familyShared("S", all8, true);
    if (ctx.quick()) {
        familyPlain("R3", 3, 1, six, true);
        familyGroup("G1", 1, six, true);
    } else {
        familyPlain("R3", 3, 1, all8, true);
        familyPlain("R3w", 3, 2, five, true);
        familyGroup("G1", 1, all8, true);
        familyGroup("G2", 2, four, true);
    }

    V::count("assignments", nAssignments);
    V::count("states", nStates);
    V::count("events", nEvents);
    V::count("executions", nExecutions);
    V::count("leaf_evaluations", nLeafEvals);
    V::count("sync_resumes_inside_starter", nSyncResumes);
    V::count("slow_checks_that_paused", nPausedRuns);
    V::count("assignments_with_double_lookup_leaf", nDoubleAsyncRuns);
    V::count("caller_gone_executions", nCallerGone);
    V::count("fast_checks", nFastChecks);
    V::count("fast_check_lookup_refusals", nRefusedInFast);
    V::count("two_check_executions", nTwoCheckExecutions);
    V::count("two_check_choice_points", nTwoCheckChoicePoints);
    V::count("two_check_beyond_bound", nTwoCheckSkipped);
    V::count("two_check_executions_with_different_answers", nDifferentAnswersTwoChecks);
    V::count("structures_negated_leaf_literals", nNegatedAsync);
    V::count("structures_group_literals", nGroupAsync);
}

} // namespace

VHARNESS_MAIN(body)
