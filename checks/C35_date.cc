// C35 — HTTP date formatting and parsing (E1).
// Real code: Time::FormatRfc1123 / Time::ParseRfc1123 (src/time/rfc1123.cc), recompiled from the
// current tree with -fsanitize=undefined on top of ASan.
//
// Part A (round trip): every day 1970-01-01 .. 9999-12-31 x a tier-dependent set of seconds-of-day,
//   plus every second of a few boundary days.  Oracle: FormatRfc1123(t) is the IMF-fixdate rendering
//   of t computed by an independent proleptic-Gregorian calendar (no libc time functions), and
//   ParseRfc1123(FormatRfc1123(t)) == t.
// Part B (parser): boundary dates rendered in IMF-fixdate / RFC 850 / asctime form and every
//   1-token mutant (quick) or <=2-token mutant (thorough) of each rendering.  A strict RFC 9110
//   recogniser decides whether a string is in one of the three forms and which time it denotes;
//   oracle: Squid accepted (result != -1) and the string denotes a time => result == that time.
#include "squid.h"
#include "time/gadgets.h"

#include "vharness.h"

#include <algorithm>
#include <cstdint>

namespace {

// ---------------------------------------------------------------- independent calendar
const char *MON[12] = {"Jan", "Feb", "Mar", "Apr", "May", "Jun", "Jul", "Aug", "Sep", "Oct", "Nov", "Dec"};
const char *WD3[7] = {"Sun", "Mon", "Tue", "Wed", "Thu", "Fri", "Sat"};
const char *WDL[7] = {"Sunday", "Monday", "Tuesday", "Wednesday", "Thursday", "Friday", "Saturday"};

bool leap(int y) { return (y % 4 == 0 && y % 100 != 0) || y % 400 == 0; }
int dim(int y, int m /*1..12*/) {
    static const int d[12] = {31, 28, 31, 30, 31, 30, 31, 31, 30, 31, 30, 31};
    return (m == 2 && leap(y)) ? 29 : d[m - 1];
}
// days since 1970-01-01 of the proleptic Gregorian date (counting rule: whole years + months + days)
int64_t daysFromCivil(int y, int m, int d) {
    int64_t yy = y - 1;
    int64_t days = yy * 365 + yy / 4 - yy / 100 + yy / 400;     // days before Jan 1 of year y since 0001-01-01
    for (int k = 1; k < m; ++k) days += dim(y, k);
    days += d - 1;
    return days - 719162;                                       // 0001-01-01 .. 1970-01-01
}
int weekday(int64_t days) { return (int)(((days % 7) + 7 + 4) % 7); }   // 1970-01-01 was a Thursday

struct Civil { int y, m, d, H, M, S; };

int64_t toTime(const Civil &c) { return daysFromCivil(c.y, c.m, c.d) * 86400 + c.H * 3600 + c.M * 60 + c.S; }

std::string fmtImf(const Civil &c) {
    char b[64];
    snprintf(b, sizeof b, "%s, %02d %s %04d %02d:%02d:%02d GMT", WD3[weekday(daysFromCivil(c.y, c.m, c.d))], c.d, MON[c.m - 1], c.y, c.H, c.M, c.S);
    return b;
}

// ---------------------------------------------------------------- strict recogniser of the three forms
struct Ref {
    bool inForm = false;      // matches one of the three grammars of RFC 9110 5.6.7 (syntax only)
    bool denotes = false;     // ... and unambiguously denotes a time >= 1970 (valid calendar date, consistent weekday, ...)
    const char *why = "";     // why not asserted
    int64_t t = 0;
    int form = 0;             // 1 IMF, 2 RFC850, 3 asctime
};

bool dig(char c) { return c >= '0' && c <= '9'; }
int two(const std::string &s, size_t p) { return (s[p] - '0') * 10 + (s[p + 1] - '0'); }
int monthAt(const std::string &s, size_t p) {
    for (int i = 0; i < 12; ++i) if (s.compare(p, 3, MON[i]) == 0) return i + 1;
    return 0;
}
bool timeAt(const std::string &s, size_t p, Civil &c) {      // 2DIGIT ":" 2DIGIT ":" 2DIGIT
    if (p + 8 > s.size()) return false;
    if (!(dig(s[p]) && dig(s[p+1]) && s[p+2] == ':' && dig(s[p+3]) && dig(s[p+4]) && s[p+5] == ':' && dig(s[p+6]) && dig(s[p+7]))) return false;
    c.H = two(s, p); c.M = two(s, p + 3); c.S = two(s, p + 6);
    return true;
}

void finish(Ref &r, const Civil &c, int wd, bool twoDigitYear, int yy) {
    r.inForm = true;
    Civil k = c;
    if (twoDigitYear) {
        // RFC 9110: a two-digit year more than 50 years in the future is the most recent past year with
        // these digits.  Asserted only where that rule (evaluated in the 2020s) and the classic fixed
        // pivot agree: 00-69 => 20yy, 77-99 => 19yy; 70-76 is left unasserted.
        if (yy <= 69) k.y = 2000 + yy;
        else if (yy >= 77) k.y = 1900 + yy;
        else { r.why = "ambiguous two-digit year 70-76"; return; }
    }
    if (k.y < 1970) { r.why = "year before 1970"; return; }
    if (k.m < 1 || k.m > 12) { r.why = "month"; return; }
    if (k.d < 1 || k.d > dim(k.y, k.m)) { r.why = "day not in month"; return; }
    if (k.H > 23 || k.M > 59) { r.why = "hour/minute out of range"; return; }
    if (k.S > 59) { r.why = "leap second or out of range"; return; }
    if (weekday(daysFromCivil(k.y, k.m, k.d)) != wd) { r.why = "weekday inconsistent with the date"; return; }
    r.denotes = true;
    r.t = toTime(k);
}

Ref recognise(const std::string &s) {
    Ref r;
    Civil c{0, 0, 0, 0, 0, 0};
    // IMF-fixdate: day-name "," SP 2DIGIT SP month SP 4DIGIT SP time SP "GMT"   (29 octets)
    if (s.size() == 29 && s[3] == ',' && s[4] == ' ' && dig(s[5]) && dig(s[6]) && s[7] == ' ' && s[11] == ' ' &&
            dig(s[12]) && dig(s[13]) && dig(s[14]) && dig(s[15]) && s[16] == ' ' && s[25] == ' ' && s.compare(26, 3, "GMT") == 0) {
        int wd = -1;
        for (int i = 0; i < 7; ++i) if (s.compare(0, 3, WD3[i]) == 0) wd = i;
        c.m = monthAt(s, 8);
        if (wd >= 0 && c.m && timeAt(s, 17, c)) {
            c.d = two(s, 5); c.y = two(s, 12) * 100 + two(s, 14);
            r.form = 1;
            finish(r, c, wd, false, 0);
            return r;
        }
    }
    // rfc850-date: day-name-l "," SP 2DIGIT "-" month "-" 2DIGIT SP time SP "GMT"
    for (int i = 0; i < 7; ++i) {
        const size_t n = strlen(WDL[i]);
        if (s.size() == n + 24 && s.compare(0, n, WDL[i]) == 0 && s[n] == ',' && s[n+1] == ' ' && dig(s[n+2]) && dig(s[n+3]) &&
                s[n+4] == '-' && s[n+8] == '-' && dig(s[n+9]) && dig(s[n+10]) && s[n+11] == ' ' && s[n+20] == ' ' && s.compare(n + 21, 3, "GMT") == 0) {
            c.m = monthAt(s, n + 5);
            if (c.m && timeAt(s, n + 12, c)) {
                c.d = two(s, n + 2);
                r.form = 2;
                finish(r, c, i, true, two(s, n + 9));
                return r;
            }
        }
    }
    // asctime-date: day-name SP month SP ( 2DIGIT / ( SP 1DIGIT )) SP time SP 4DIGIT   (24 octets)
    if (s.size() == 24 && s[3] == ' ' && s[7] == ' ' && (dig(s[8]) || s[8] == ' ') && dig(s[9]) && s[10] == ' ' && s[19] == ' ' &&
            dig(s[20]) && dig(s[21]) && dig(s[22]) && dig(s[23])) {
        int wd = -1;
        for (int i = 0; i < 7; ++i) if (s.compare(0, 3, WD3[i]) == 0) wd = i;
        c.m = monthAt(s, 4);
        if (wd >= 0 && c.m && timeAt(s, 11, c)) {
            c.d = (s[8] == ' ' ? 0 : (s[8] - '0') * 10) + (s[9] - '0');
            c.y = two(s, 20) * 100 + two(s, 22);
            r.form = 3;
            finish(r, c, wd, false, 0);
            return r;
        }
    }
    return r;
}

// ---------------------------------------------------------------- part A
uint64_t nRoundTrips = 0, nParsed = 0;

// The result must not depend on the process time zone; cases alternate between UTC and a POSIX TZ rule
// with DST (no zoneinfo file needed).  Setting TZ also stops strftime() from re-reading /etc/localtime.
void useZone(unsigned k) {
    setenv("TZ", (k & 1) ? "EST5EDT,M3.2.0,M11.1.0" : "UTC", 1);
    tzset();
}

void roundTrip(int64_t t, const Civil &c) {
    ++nRoundTrips;
    const char *f = Time::FormatRfc1123((time_t)t);
    const std::string s(f ? f : "(null)");
    const std::string want = fmtImf(c);
    if (s != want) {
        V::failKey("format:not-the-IMF-fixdate-of-t", "FormatRfc1123(" + std::to_string(t) + ") = \"" + V::esc(s) + "\", expected \"" + want + "\"");
    }
    const time_t back = Time::ParseRfc1123(s.c_str());
    if ((int64_t)back != t)
        V::failKey("roundtrip:parse(format(t))!=t", "ParseRfc1123(\"" + s + "\") = " + std::to_string((int64_t)back) + ", expected " + std::to_string(t));
}

void yearCase(int y, bool quick) {
    uint64_t n = 0;
    useZone((unsigned)y);
    if (y % 997 == 0) { const int64_t t = daysFromCivil(y, 7, 4) * 86400 + 45296; V::sample("format(" + std::to_string(t) + ") = \"" + Time::FormatRfc1123((time_t)t) + "\" -> parse = " + std::to_string((int64_t)Time::ParseRfc1123(Time::FormatRfc1123((time_t)t)))); }
    for (int m = 1; m <= 12; ++m)
        for (int d = 1; d <= dim(y, m); ++d) {
            const int64_t days = daysFromCivil(y, m, d);
            auto one = [&](int sod) {
                Civil c{y, m, d, sod / 3600, (sod / 60) % 60, sod % 60};
                roundTrip(days * 86400 + sod, c);
                ++n;
            };
            if (quick) {
                one(0); one(43201); one(86399);
                one((int)((days * 7919 + 12345) % 86400));           // walks through all minute/second values over the days
            } else {
                for (int h = 0; h < 24; ++h) {
                    one(h * 3600);
                    one(h * 3600 + 3599);
                    one(h * 3600 + (int)((days * 7 + h * 11) % 60) * 60 + (int)((days * 13 + h * 17) % 60));
                }
            }
        }
    V::S().outcomes["roundtrip:ok-or-reported"] += n;
}

void wholeDay(const Civil &day) {
    const int64_t days = daysFromCivil(day.y, day.m, day.d);
    for (int sod = 0; sod < 86400; ++sod) {
        Civil c{day.y, day.m, day.d, sod / 3600, (sod / 60) % 60, sod % 60};
        roundTrip(days * 86400 + sod, c);
    }
    V::S().outcomes["roundtrip:ok-or-reported"] += 86400;
}

// ---------------------------------------------------------------- part B
typedef std::vector<std::string> Toks;

std::string join(const Toks &t) { std::string s; for (auto &x : t) s += x; return s; }

Toks tokImf(const Civil &c) {
    char d[8], y[8], H[8], M[8], S[8];
    snprintf(d, 8, "%02d", c.d); snprintf(y, 8, "%04d", c.y); snprintf(H, 8, "%02d", c.H); snprintf(M, 8, "%02d", c.M); snprintf(S, 8, "%02d", c.S);
    return {WD3[weekday(daysFromCivil(c.y, c.m, c.d))], ",", " ", d, " ", MON[c.m - 1], " ", y, " ", H, ":", M, ":", S, " ", "GMT"};
}
Toks tok850(const Civil &c) {
    char d[8], y[8], H[8], M[8], S[8];
    snprintf(d, 8, "%02d", c.d); snprintf(y, 8, "%02d", c.y % 100); snprintf(H, 8, "%02d", c.H); snprintf(M, 8, "%02d", c.M); snprintf(S, 8, "%02d", c.S);
    return {WDL[weekday(daysFromCivil(c.y, c.m, c.d))], ",", " ", d, "-", MON[c.m - 1], "-", y, " ", H, ":", M, ":", S, " ", "GMT"};
}
Toks tokAsc(const Civil &c) {
    char d[8], y[8], H[8], M[8], S[8];
    snprintf(d, 8, "%d", c.d); snprintf(y, 8, "%04d", c.y); snprintf(H, 8, "%02d", c.H); snprintf(M, 8, "%02d", c.M); snprintf(S, 8, "%02d", c.S);
    Toks t = {WD3[weekday(daysFromCivil(c.y, c.m, c.d))], " ", MON[c.m - 1], " "};
    if (c.d < 10) t.push_back(" ");
    t.push_back(d);
    for (const char *x : std::initializer_list<const char *>{" ", H, ":", M, ":", S, " ", y}) t.push_back(x);
    return t;
}

const std::vector<std::string> &alts() {
    static std::vector<std::string> a;
    if (a.empty()) {
        for (const char *x : {"0", "1", "6", "9", "00", "01", "06", "09", "10", "12", "19", "20", "23", "24", "28", "29", "30", "31", "32",
                              "59", "60", "61", "69", "70", "76", "77", "94", "99", "100", "000", "1900", "1969", "1970", "1994", "2000", "2038",
                              "2069", "2100", "9999", "10000", "19100", "99999999999", "-1", "+1",
                              "Jan", "Feb", "Mar", "Apr", "May", "Jun", "Jul", "Aug", "Sep", "Oct", "Nov", "Dec", "JAN", "feb", "January", "Sept", "Xyz",
                              "Sun", "Mon", "Tue", "Wed", "Thu", "Fri", "Sat", "Sunday", "Monday", "Thursday", "Saturday", "sun", "SUN",
                              " ", "  ", ",", ", ", "-", ":", "\t", "/", ".",
                              "GMT", "UTC", "gmt", "UT", "Z", "+0000", "-0500", "EST", "GMT+1",
                              "8:49:37", "08:49", "08:49:37.5", "24:00:00", "23:59:60", "\x80", "\xff" "9", "1\x80"})
            a.push_back(x);
        a.push_back(std::string(70, '7'));
        a.push_back(std::string(70, 'x'));
    }
    return a;
}

struct Tally { uint64_t informAcc = 0, informRej = 0, unassertedAcc = 0, unassertedRej = 0, otherAcc = 0, otherRej = 0; };
Tally tally;
uint64_t accByForm[4] = {0, 0, 0, 0};
// flat open-addressing set of the 64-bit hashes of the strings already tried for the current base string
struct HashSet {
    std::vector<uint64_t> tab; uint64_t n = 0;
    void reset(size_t cap) { tab.assign(cap, 0); n = 0; }
    bool insert(uint64_t h) {            // true if new
        if (!h) h = 1;
        size_t m = tab.size() - 1, i = (size_t)(h * 0x9E3779B97F4A7C15ULL >> 20) & m;
        while (tab[i]) { if (tab[i] == h) return false; i = (i + 1) & m; }
        tab[i] = h; ++n; return true;
    }
} seen;

uint64_t fnv(const std::string &s) { uint64_t h = 1469598103934665603ULL; for (unsigned char c : s) { h ^= c; h *= 1099511628211ULL; } return h; }

void tryString(const std::string &s, const char *formName) {
    if (!seen.insert(fnv(s))) return;     // this string was already tried for this base
    ++nParsed;
    const Ref ref = recognise(s);
    const time_t got = Time::ParseRfc1123(s.c_str());
    const bool accepted = got != (time_t)-1;
    if ((nParsed % 7001) == 3 || (ref.denotes && ref.form > 1 && (nParsed % 101) == 0))
        V::sample("parse(\"" + V::esc(s) + "\") = " + std::to_string((int64_t)got) + (ref.denotes ? " ; reference: denotes " + std::to_string(ref.t) : ref.inForm ? std::string(" ; reference: in form, not asserted (") + ref.why + ")" : " ; reference: not in any of the three forms"));
    if (ref.denotes) {
        if (accepted) {
            ++tally.informAcc; ++accByForm[ref.form];
            if ((int64_t)got != ref.t) {
                static const char *fn[4] = {"", "imf-fixdate", "rfc850", "asctime"};
                V::failKey(std::string("parse:") + fn[ref.form] + ":accepted-with-wrong-time",
                           std::string("ParseRfc1123(\"") + V::esc(s) + "\") = " + std::to_string((int64_t)got) + " but the " + fn[ref.form] +
                           " string denotes " + std::to_string(ref.t) + " (difference " + std::to_string((int64_t)got - ref.t) + " s; mutant of a " + formName + " date)");
            }
        } else ++tally.informRej;
    } else if (ref.inForm) {
        if (accepted) ++tally.unassertedAcc; else ++tally.unassertedRej;
    } else {
        if (accepted) ++tally.otherAcc; else ++tally.otherRej;
    }
}

// all strings obtained from `base` by one token edit (delete / replace / insert / swap-adjacent)
void forEachEdit(const Toks &base, const std::function<void(const Toks &)> &f) {
    const auto &A = alts();
    for (size_t i = 0; i < base.size(); ++i) {
        { Toks t = base; t.erase(t.begin() + i); f(t); }
        for (auto &a : A) { if (a == base[i]) continue; Toks t = base; t[i] = a; f(t); }
        if (i + 1 < base.size()) { Toks t = base; std::swap(t[i], t[i+1]); f(t); }
    }
    for (size_t i = 0; i <= base.size(); ++i)
        for (auto &a : A) { Toks t = base; t.insert(t.begin() + i, a); f(t); }
}

void mutantCase(const Toks &base, const char *formName, int depth) {
    seen.reset(depth > 1 ? (1u << 23) : (1u << 16));
    useZone((unsigned)base[0].size() + (unsigned)base.size());
    const std::string b = join(base);
    // the unmutated rendering must be recognised by the reference (self-test of the recogniser)
    if (!recognise(b).inForm) V::fail("harness self-test: reference recogniser does not accept the base rendering \"" + b + "\"");
    tryString(b, formName);
    // depth 1: delete / replace / insert / swap-adjacent at every position
    forEachEdit(base, [&](const Toks &t) { tryString(join(t), formName); });
    if (depth > 1) {
        // depth 2: every pair of positions i<j with every replacement or deletion at each of them
        const auto &A = alts();
        for (size_t i = 0; i < base.size(); ++i)
            for (size_t j = i + 1; j < base.size(); ++j)
                for (size_t ai = 0; ai <= A.size(); ++ai)
                    for (size_t aj = 0; aj <= A.size(); ++aj) {
                        Toks t = base;
                        if (aj == A.size()) t.erase(t.begin() + j); else t[j] = A[aj];
                        if (ai == A.size()) t.erase(t.begin() + i); else t[i] = A[ai];
                        tryString(join(t), formName);
                    }
    }
    V::count("parser_inputs_distinct_per_base", seen.n);
}

void body(V::Ctx &ctx)
{
    const bool quick = ctx.quick();
    // ---- B: parser on the three forms and their mutants
    std::vector<Civil> dates = {
        {1994, 11, 6, 8, 49, 37}, {1970, 1, 1, 0, 0, 0}, {1999, 12, 31, 23, 59, 59}, {2000, 2, 29, 12, 0, 0}, {2038, 1, 19, 3, 14, 7},
        {2038, 1, 19, 3, 14, 8}, {2069, 12, 31, 23, 59, 59}, {1977, 1, 1, 0, 0, 0}, {2000, 1, 1, 0, 0, 0}, {2024, 2, 29, 23, 59, 59},
        {2100, 3, 1, 0, 0, 0}, {2100, 2, 28, 23, 59, 59}, {9999, 12, 31, 23, 59, 59}, {1970, 3, 1, 1, 1, 1}, {1975, 6, 15, 10, 20, 30},
        {2070, 1, 1, 0, 0, 0}, {2106, 2, 7, 6, 28, 16}};
    for (int m = 1; m <= 12; ++m) { dates.push_back({2023, m, 1, 0, 0, 1}); dates.push_back({2023, m, dim(2023, m), 22, 58, 59}); dates.push_back({2024, m, dim(2024, m), 9, 9, 9}); }
    const size_t nDeep = 4;     // thorough: <=2-token mutants for the first nDeep dates in each form, 1-token for the rest
    for (size_t i = 0; i < dates.size(); ++i) {
        const Civil &c = dates[i];
        const int depth = (!quick && i < nDeep) ? 2 : 1;
        struct F { const char *name; Toks t; } forms[3] = {{"imf-fixdate", tokImf(c)}, {"rfc850", tok850(c)}, {"asctime", tokAsc(c)}};
        for (auto &f : forms) {
            const std::string d = std::string("parse:") + f.name + ":depth" + std::to_string(depth) + ":" + join(f.t);
            if (V::begin_case(d)) { mutantCase(f.t, f.name, depth); V::end_case(); }
        }
    }
    // ---- A: round trips, one case per year
    for (int y = 1970; y <= 9999; ++y) {
        char d[32]; snprintf(d, sizeof d, "rt:year=%d", y);
        if (V::begin_case(d)) { yearCase(y, quick); V::end_case(); }
    }
    std::vector<Civil> boundary = {
        {1970, 1, 1, 0, 0, 0}, {2000, 2, 29, 0, 0, 0}, {9999, 12, 31, 0, 0, 0},
        {1999, 12, 31, 0, 0, 0}, {2000, 1, 1, 0, 0, 0}, {2038, 1, 19, 0, 0, 0}, {2100, 2, 28, 0, 0, 0}, {2100, 3, 1, 0, 0, 0},
        {2106, 2, 7, 0, 0, 0}, {1972, 2, 29, 0, 0, 0}, {2400, 2, 29, 0, 0, 0}, {9999, 1, 1, 0, 0, 0}, {1970, 12, 31, 0, 0, 0},
        {2069, 12, 31, 0, 0, 0}, {1977, 1, 1, 0, 0, 0}, {2024, 12, 31, 0, 0, 0}};
    const size_t nDays = quick ? 3 : boundary.size();
    for (size_t i = 0; i < nDays; ++i) {
        char d[48]; snprintf(d, sizeof d, "rt:day=%04d-%02d-%02d", boundary[i].y, boundary[i].m, boundary[i].d);
        if (V::begin_case(d)) { wholeDay(boundary[i]); V::end_case(); }
    }
    V::S().outcomes["parse:denoting-accepted"] += tally.informAcc;
    V::S().outcomes["parse:denoting-rejected"] += tally.informRej;
    V::S().outcomes["parse:inform-unasserted-accepted"] += tally.unassertedAcc;
    V::S().outcomes["parse:inform-unasserted-rejected"] += tally.unassertedRej;
    V::S().outcomes["parse:notinform-accepted"] += tally.otherAcc;
    V::S().outcomes["parse:notinform-rejected"] += tally.otherRej;
    V::count("round_trips", nRoundTrips);
    V::count("parser_inputs", nParsed);
    V::count("accepted_imf", accByForm[1]);
    V::count("accepted_rfc850", accByForm[2]);
    V::count("accepted_asctime", accByForm[3]);
}

} // namespace

VHARNESS_MAIN(body)
