// C58 — Ipc::TypedMsgHdr: every put sequence x every get sequence, and raw-buffer mutants, against a
// reference (de)serialiser working on plain bytes (E1).
//
// Real code: src/ipc/TypedMsgHdr.cc of the current tree (ipc/TypedMsgHdr.o of the scratch tree).  A message is built with
// the real put*() primitives, "sent" (its data buffer {type, size, raw[maxSize]} is copied byte for
// byte into a fresh message prepared with prepForReading(), exactly what a datagram read does), and
// then read back with the real get*() primitives, both directly and through the copy constructor.
// The reference knows only the wire layout: a get of n bytes at position p may succeed only if
// p+n <= min(size field, maxSize); a string is an int length L (0 <= L <= maxSize) followed by L bytes.
// A message whose size field exceeds maxSize is malformed as a whole and may be refused at any get.
// Every message object lives in front of a 64 KB guard area filled with a sentinel, so a read beyond
// the object is observed by the reference instead of killing the run; ASan still guards everything
// else (the temporary buffer in getString(), String, the put side).
#include "squid.h"
#include "ipc/TypedMsgHdr.h"
#include "SquidString.h"
#include "base/TextException.h"

#include "vharness.h"

#include <climits>
#include <new>

namespace {

typedef Ipc::TypedMsgHdr Msg;
const size_t MaxSize = Msg::maxSize;
const size_t Guard = 64 * 1024;
const int MsgType = 7;

struct Pod16 { uint32_t a; uint16_t b; uint8_t c[10]; };
static_assert(sizeof(Pod16) == 16, "Pod16 is 16 bytes");

// ---------------------------------------------------------------- put / get alphabets
struct PutKind { char kind; int ival; size_t len; const char *name; };
const PutKind PutKinds[] = {
    {'I', 0, 0, "i0"}, {'I', 1, 0, "i1"}, {'I', 5, 0, "i5"}, {'I', -1, 0, "i-1"}, {'I', 4096, 0, "i4096"},
    {'I', 4097, 0, "i4097"}, {'I', INT_MAX, 0, "iMAX"},
    {'P', 0, 0, "pod16"},
    {'S', 0, 0, "s0"}, {'S', 0, 1, "s1"}, {'S', 0, 5, "s5"}, {'S', 0, MaxSize - 4, "s4092"}, {'S', 0, MaxSize, "s4096"},
    {'F', 0, 8, "f8"},
};
const int NPut = sizeof(PutKinds) / sizeof(PutKinds[0]);
const char GetKinds[] = {'I', 'P', 'S', 'F'};
const int NGet = 4;

unsigned char patternByte(size_t item, size_t j) { return (unsigned char)(1 + (item * 53 + j * 7) % 251); }

// the plain wire image of a data buffer
struct Wire {
    int type = 0;
    size_t size = 0;
    std::string raw = std::string(MaxSize, '\0');
};

// ---------------------------------------------------------------- reference (de)serialiser
struct RefPut {
    Wire w;
    std::vector<size_t> stringLenPos;   // positions of string length fields
    bool put(const PutKind &k, size_t item, std::string &bytesOut) {   // false: does not fit, must be rejected
        std::string b;
        if (k.kind == 'I') { b.assign((const char *)&k.ival, sizeof(int)); }
        else if (k.kind == 'P') { Pod16 p; fillPod(p, item); b.assign((const char *)&p, sizeof(p)); }
        else if (k.kind == 'F') { for (size_t j = 0; j < k.len; ++j) b += (char)patternByte(item, j); }
        else {
            const int L = (int)k.len;
            b.assign((const char *)&L, sizeof(int));
            for (size_t j = 0; j < k.len; ++j) b += (char)patternByte(item, j);
        }
        bytesOut = b;
        if (w.size + b.size() > MaxSize) return false;
        if (k.kind == 'S') stringLenPos.push_back(w.size);
        w.raw.replace(w.size, b.size(), b);
        w.size += b.size();
        return true;
    }
    static void fillPod(Pod16 &p, size_t item) {
        p.a = 0xa0b0c0d0u + (uint32_t)item; p.b = (uint16_t)(0x1234 + item);
        for (int j = 0; j < 10; ++j) p.c[j] = patternByte(item, j);
    }
};

struct RefGet {
    const Wire &w;
    const std::string &guardView;     // what lies behind raw[] in the real object (not used for values)
    size_t pos = 0;
    bool beyondBufferOnly = false;    // the last refusal is only due to the maxSize cap (size field lies)
    RefGet(const Wire &aw, const std::string &g): w(aw), guardView(g) {}
    size_t valid() const { return std::min(w.size, MaxSize); }
    bool take(size_t n, std::string &out) {
        beyondBufferOnly = false;
        if (n > valid() || pos > valid() - n) {
            beyondBufferOnly = (n <= w.size && pos <= w.size - n);
            return false;
        }
        out = w.raw.substr(pos, n);
        pos += n;
        return true;
    }
    // returns false if the get must throw
    bool get(char kind, std::string &value) {
        if (kind == 'I') return take(sizeof(int), value);
        if (kind == 'P') return take(16, value);
        if (kind == 'F') return take(8, value);
        std::string lb;
        if (!take(sizeof(int), lb)) return false;
        int L; memcpy(&L, lb.data(), sizeof(int));
        if (L < 0 || (size_t)L > MaxSize) return false;
        if (L == 0) { value.clear(); return true; }
        return take((size_t)L, value);
    }
};

// ---------------------------------------------------------------- real objects in front of a guard area
struct Slot {
    char *block;
    Msg *m = nullptr;
    Slot() { block = (char *)malloc(sizeof(Msg) + Guard); memset(block + sizeof(Msg), 0xEE, Guard); }
    ~Slot() { destroy(); free(block); }
    void destroy() { if (m) { m->~Msg(); m = nullptr; } }
    void fillGuard() {}     // nothing writes to the guard area; it is filled once
    Msg *fresh() { destroy(); fillGuard(); m = new (block) Msg; return m; }
    Msg *copyOf(const Msg &o) { destroy(); fillGuard(); m = new (block) Msg(o); return m; }
};

Slot sender, receiver, copier;

void loadWire(Msg &m, const Wire &w)
{
    m.prepForReading();
    m.data.type_ = w.type;
    m.data.size = w.size;
    memcpy(m.data.raw, w.raw.data(), MaxSize);
}

uint64_t nGets = 0, nPuts = 0, nMutants = 0;

// The driver keeps only the first 200 failure records of a process: report every key at most 3 times
// per process so that a frequent failure class cannot crowd out a different one.
std::map<std::string, int> reported;
void failCapped(const std::string &key, const std::string &msg)
{
    if (++reported[key] <= 3) V::failKey(key, msg);
    else V::count("failures_not_listed_again:" + key);
}

// run one get sequence on message m (which holds wire image w); compare with the reference
// returns false after reporting a failure
bool runGets(Msg &m, const Wire &w, const std::vector<char> &gets, const std::string &what, bool tally)
{
    static const std::string noGuard;
    RefGet ref(w, noGuard);
    for (size_t gi = 0; gi < gets.size(); ++gi) {
        const char k = gets[gi];
        std::string expect, got;
        const bool refOk = ref.get(k, expect);
        bool ok = true;
        ++nGets;
        try {
            if (k == 'I') { const int v = m.getInt(); got.assign((const char *)&v, sizeof(int)); }
            else if (k == 'P') { Pod16 p; memset(&p, 0x5a, sizeof(p)); m.getPod(p); got.assign((const char *)&p, sizeof(p)); }
            else if (k == 'F') { char b[8]; memset(b, 0x5a, 8); m.getFixed(b, 8); got.assign(b, 8); }
            else { String s; m.getString(s); got.assign(s.rawBuf() ? s.rawBuf() : "", s.size()); }
        } catch (const std::exception &) {
            ok = false;
        }
        auto where = [&]() {
            return " [" + what + ", get #" + std::to_string(gi + 1) + " '" + std::string(1, k) + "' ending at offset " + std::to_string(ref.pos) +
                   ", size field " + std::to_string(w.size) + "]";
        };
        if (ok && !refOk) {
            if (ref.beyondBufferOnly) {
                failCapped("get:size-field-beyond-maxSize-not-rejected:reads-past-data-buffer",
                           std::string("a get succeeded although it extends past raw[maxSize]: the size field claims more than the buffer holds") + where());
                if (tally) V::outcome("get-accepted-beyond-buffer(violation)");
                return true;    // stop reading this message, but go on with the other sequences and mutants
            }
            failCapped("get:succeeded-beyond-stored-data", std::string("a get succeeded although the message holds too little data or a bad length") + where());
            return false;
        }
        if (!ok && refOk) {
            if (w.size > MaxSize) {
                // a message whose size field exceeds the buffer is malformed as a whole: it may be
                // refused at any get (it must just never be read past the buffer, see above)
                if (tally) V::outcome("get-rejected:oversize-message");
                return true;
            }
            failCapped("get:threw-on-well-formed-data", std::string("a get threw although the data is present and well-formed") + where());
            return false;
        }
        if (!ok) {
            if (tally) V::outcome(ref.beyondBufferOnly ? "get-rejected:beyond-buffer" : "get-rejected");
            return true;     // the message is bad; callers stop reading
        }
        if (got != expect) {
            failCapped("get:wrong-value", std::string("a get returned bytes different from the stored ones") + where());
            return false;
        }
    }
    const bool more = m.hasMoreData();
    if (more != (ref.pos < w.size)) {
        failCapped("hasMoreData:wrong", "hasMoreData() disagrees with the reference [" + what + "]");
        return false;
    }
    if (tally) V::outcome("gets-accepted");
    return true;
}

void forEachGetSeq(int maxLen, const std::function<bool(const std::vector<char> &)> &fn)
{
    std::vector<int> idx;
    for (int len = 1; len <= maxLen; ++len) {
        idx.assign(len, 0);
        for (;;) {
            std::vector<char> g;
            for (int i : idx) g.push_back(GetKinds[i]);
            if (!fn(g)) return;
            int k = len - 1;
            while (k >= 0 && ++idx[k] == NGet) { idx[k] = 0; --k; }
            if (k < 0) break;
        }
    }
}

std::string getName(const std::vector<char> &g) { return std::string(g.begin(), g.end()); }

// receive wire image w into a fresh message and run the get sequence, directly and through a copy
bool receiveAndGet(const Wire &w, int expectType, const std::vector<char> &gets, const std::string &what, bool tally = true)
{
    Msg *r = receiver.fresh();
    loadWire(*r, w);
    bool typeOk = true;
    try { r->checkType(expectType); } catch (const std::exception &) { typeOk = false; }
    if (typeOk != (w.type == expectType)) {
        failCapped(typeOk ? "checkType:accepted-wrong-type" : "checkType:rejected-right-type", "checkType(" + std::to_string(expectType) + ") on stored type " + std::to_string(w.type) + " [" + what + "]");
        return false;
    }
    if (!typeOk) { if (tally) V::outcome("type-rejected"); return true; }
    if (r->rawType() != w.type) { failCapped("rawType:wrong", "rawType() differs from the stored type [" + what + "]"); return false; }
    if (!runGets(*r, w, gets, what + " gets=" + getName(gets), tally)) return false;
    // the copy constructor resets the read offset: the same sequence must behave the same on a copy
    Msg *c = copier.copyOf(*r);
    return runGets(*c, w, gets, what + " (copy) gets=" + getName(gets), false);
}

void onePutSequence(const std::vector<int> &puts, int maxGets, bool thorough)
{
    // ---- build with the real put primitives, in parallel with the reference
    Msg *s = sender.fresh();
    s->setType(MsgType);
    RefPut ref;
    ref.w.type = MsgType;
    std::vector<char> matching;
    for (size_t i = 0; i < puts.size(); ++i) {
        const PutKind &k = PutKinds[puts[i]];
        std::string bytes;
        const bool fits = ref.put(k, i, bytes);
        bool ok = true;
        ++nPuts;
        try {
            if (k.kind == 'I') s->putInt(k.ival);
            else if (k.kind == 'P') { Pod16 p; RefPut::fillPod(p, i); s->putPod(p); }
            else if (k.kind == 'F') s->putFixed(bytes.data(), bytes.size());
            else { String str; if (k.len) str.assign(bytes.data() + sizeof(int), (int)k.len); s->putString(str); }
        } catch (const std::exception &) {
            ok = false;
        }
        if (ok && !fits) { failCapped("put:overflow-not-rejected", "a put that does not fit into maxSize succeeded (item " + std::to_string(i + 1) + ")"); return; }
        if (!ok && fits) { failCapped("put:rejected-although-it-fits", "a put that fits threw (item " + std::to_string(i + 1) + ")"); return; }
        if (!ok) {
            if (s->data.size > MaxSize) failCapped("put:size-beyond-maxSize-after-rejected-put", "data.size > maxSize after a rejected put");
            V::outcome("put-overflow-rejected");
            return;     // the sender would not send this message
        }
        matching.push_back(k.kind);
    }
    // the real object's buffer must equal the reference image
    if (s->data.type_ != ref.w.type || s->data.size != ref.w.size || memcmp(s->data.raw, ref.w.raw.data(), MaxSize) != 0) {
        failCapped("put:wire-image-differs", "the stored bytes differ from the reference serialisation");
        return;
    }
    Wire sent = ref.w;

    // ---- (a) round trip with the matching get sequence, then every other get sequence
    if (!receiveAndGet(sent, MsgType, matching, "round-trip", false)) return;
    V::outcome("round-trip-ok");
    bool good = true;
    forEachGetSeq(maxGets, [&](const std::vector<char> &g) { return good = receiveAndGet(sent, MsgType, g, "intact"); });
    if (!good) return;

    // ---- (b) raw-buffer mutants
    std::vector<Wire> mutants;
    std::vector<std::string> names;
    auto add = [&](const Wire &w, const std::string &n) { mutants.push_back(w); names.push_back(n); };
    for (int t : {0, MsgType + 1, -1}) { Wire w = sent; w.type = t; add(w, "type=" + std::to_string(t)); }
    std::vector<size_t> sizes = {0, 1, sent.size ? sent.size - 1 : 0, sent.size + 1, MaxSize - 1, MaxSize, MaxSize + 1, MaxSize + 28,
                                 2 * MaxSize + 100, (size_t)INT_MAX, (size_t)-1, (size_t)INT_MIN};
    for (size_t z : sizes) { if (z == sent.size) continue; Wire w = sent; w.size = z; add(w, "size=" + std::to_string(z)); }
    for (size_t pos : ref.stringLenPos) {
        int L; memcpy(&L, sent.raw.data() + pos, sizeof(int));
        const int rem = (int)(sent.size - pos - sizeof(int));
        for (int v : {0, -1, L - 1, L + 1, rem, rem + 1, (int)MaxSize, (int)MaxSize + 1, INT_MAX, INT_MIN}) {
            if (v == L) continue;
            Wire w = sent;
            w.raw.replace(pos, sizeof(int), (const char *)&v, sizeof(int));
            add(w, "len@" + std::to_string(pos) + "=" + std::to_string(v));
            if (thorough) {       // second deviation: the size field as well
                for (size_t z : {(size_t)0, sent.size + 1, MaxSize, MaxSize + 1, (size_t)-1}) {
                    Wire w2 = w; w2.size = z;
                    add(w2, "len@" + std::to_string(pos) + "=" + std::to_string(v) + ",size=" + std::to_string(z));
                }
            }
        }
    }
    for (size_t mi = 0; mi < mutants.size(); ++mi) {
        ++nMutants;
        const int limit = 3;
        const bool typeMutant = mutants[mi].type != MsgType;
        if (typeMutant || (int)matching.size() > limit || matching.empty())
            if (!receiveAndGet(mutants[mi], MsgType, matching, "mutant " + names[mi])) return;
        if (typeMutant) continue;
        forEachGetSeq(limit, [&](const std::vector<char> &g) { return good = receiveAndGet(mutants[mi], MsgType, g, "mutant " + names[mi]); });
        if (!good) return;
    }
}

void fdCases()
{
    if (V::begin_case("fd: putFd/getFd/hasFd")) {
        Msg *s = sender.fresh();
        s->setType(MsgType);
        bool threw = false;
        try { (void)s->getFd(); } catch (const std::exception &) { threw = true; }
        if (!threw) failCapped("getFd:without-descriptor-not-rejected", "getFd() on a message without a descriptor did not throw");
        if (s->hasFd()) V::fail("hasFd() true on a fresh message");
        threw = false;
        try { s->putFd(-1); } catch (const std::exception &) { threw = true; }
        if (!threw) V::fail("putFd(-1) did not throw");
        for (int fd : {0, 1, 2, 1023, INT_MAX}) {
            Msg *m = sender.fresh();
            m->setType(MsgType);
            m->putInt(fd);
            m->putFd(fd);
            if (!m->hasFd() || m->getFd() != fd) V::fail("putFd/getFd round trip failed for " + std::to_string(fd));
            Msg *c = copier.copyOf(*m);
            if (!c->hasFd() || c->getFd() != fd || c->getInt() != fd) V::fail("fd lost in a copy for " + std::to_string(fd));
            threw = false;
            try { m->putFd(fd); } catch (const std::exception &) { threw = true; }
            if (!threw) V::fail("second putFd() did not throw");
        }
        // setType twice with a different type must throw
        Msg *m = sender.fresh();
        m->setType(MsgType);
        threw = false;
        try { m->setType(MsgType + 1); } catch (const std::exception &) { threw = true; }
        if (!threw) V::fail("setType() with a different type did not throw");
        V::outcome("fd-ok");
        V::end_case();
    }
}

void body(V::Ctx &ctx)
{
    const int maxPuts = ctx.quick() ? 3 : 4;
    const int maxGets = ctx.quick() ? 4 : 5;
    fdCases();
    // sequences of up to 3 puts use all 14 items; the 4-put sequences of the thorough tier use 8 of them
    const std::vector<int> all = {0, 1, 2, 3, 4, 5, 6, 7, 8, 9, 10, 11, 12, 13};
    const std::vector<int> reduced = {1, 3, 4, 7, 8, 10, 11, 13};      // i1 i-1 i4096 pod16 s0 s5 s4092 f8
    std::vector<int> pos;
    for (int len = 0; len <= maxPuts; ++len) {
        const std::vector<int> &items = len <= 3 ? all : reduced;
        pos.assign(len, 0);
        for (;;) {
            std::vector<int> idx;
            std::string desc = "puts:";
            for (int i : pos) { idx.push_back(items[i]); desc += ' '; desc += PutKinds[items[i]].name; }
            if (V::begin_case(desc)) { onePutSequence(idx, maxGets, ctx.thorough()); V::end_case(); }
            int k = len - 1;
            while (k >= 0 && ++pos[k] == (int)items.size()) { pos[k] = 0; --k; }
            if (k < 0) break;
        }
    }
    V::count("get_calls", nGets);
    V::count("put_calls", nPuts);
    V::count("raw_buffer_mutants", nMutants);
}

} // namespace

VHARNESS_MAIN(body)
