// C36 — lib/base64.cc of the current tree, compiled with HAVE_NETTLE_BASE64_H undefined so that Squid's own
// (Nettle-derived) coder is the code under test even when the configured build links libnettle.
// Its functions have C++ linkage (base64_decode_init(base64_decode_ctx*) ...), libnettle's are nettle_*,
// so both implementations coexist in one executable.
#include "squid.h"
#undef HAVE_NETTLE_BASE64_H
#include "base64.cc"        // <tree>/lib/base64.cc via -I<tree>/lib

#include "vharness.h"
#include <string>
#include <vector>
#include <cstring>

#define C36_IMPL "tree-lib-base64"
#include "C36_codec.inc"

void c36_tree_roundtrip(const std::string &raw, bool allSplits) { codecRoundTrip(raw, allSplits); }
const char *c36_tree_decode_text(const std::string &text) { return codecDecodeText(text); }
void c36_tree_counters(uint64_t &enc, uint64_t &dec) { enc = nEncodeCalls; dec = nDecodeCalls; }
