"""C39 ICP, HTCP and SNMP listeners tolerate arbitrary datagrams — E3, systematic k-deviation mutation space.

The real ASan squid binary runs under the lock-step shim with icp_port, htcp_port and snmp_port enabled,
two sibling cache_peers (one ICP, one HTCP) whose UDP and HTTP ends are played by the driver, and an origin
played by the driver.  Seed datagrams come from reference encoders (lib/vverif/udpref.py); the case space is

  phase 1 (stateless): every seed, every seed sent to the two other UDP ports, every truncation, every single
      byte x {0x00, 0xFF, 0x7F, 0x80, +1, -1}; thorough: every pair of mutated bytes within the fixed
      header / length fields of the seed;
  phase 2 (reply while Squid waits for it): a client request makes Squid query the ICP or the HTCP peer; the
      driver answers with a reply seed carrying the query's reqnum / msg_id and URL, mutated in the same way,
      and the HTTP transaction has to complete (it doubles as the liveness probe).

Oracle (property statement): no sanitizer report, no assertion / FATAL, no exit, no hang; HTTP is still served
(a forwarded GET gets its 200) after every batch of datagrams.
"""
import hashlib
import os
import re
import struct
import time

from vverif import lockstep as ls
from vverif import httpref
from vverif import udpref as u
from vverif.core import Result, Violation, HarnessError

LEVEL = 'exploration'
BATCH = 64                      # datagrams between two HTTP liveness probes (phase 1)
OPS = ('00', 'FF', '7F', '80', '+1', '-1')
MAX_VIOLATIONS_PER_SHARD = 12
CANON_BASE = 20000               # ports used to canonicalise datagrams when counting distinct cases across shards


# ------------------------------------------------------------------ ports of one instance

class Ports:
    def __init__(self, base):
        self.base = base
        self.http = base
        self.origin = base + 1
        self.icp = base + 2
        self.htcp = base + 3
        self.snmp = base + 4
        self.icpp_http = base + 5
        self.icpp_udp = base + 6
        self.htcpp_http = base + 7
        self.htcpp_udp = base + 8
        self.client_udp = base + 10

    def udp_port(self, proto):
        return {'icp': self.icp, 'htcp': self.htcp, 'snmp': self.snmp}[proto]


# ------------------------------------------------------------------ seed corpus

SQ = (1, 3, 6, 1, 4, 1, 3495, 1)
OID_UPTIME = SQ + (1, 3, 0)
OID_ADMIN = SQ + (2, 1, 0)
OID_VERSION = SQ + (2, 3, 0)
OID_HTTPREQ = SQ + (3, 2, 1, 1, 0)
OID_MEDIAN = SQ + (3, 2, 2, 1, 2, 5)
OID_PEERNAME = SQ + (5, 1, 3, 2, 1)
OID_PEERTBL = SQ + (5, 1, 3)
OID_CLIENT = SQ + (5, 2, 2, 1, 127, 0, 0, 1)
OID_PEERCOL1 = SQ + (5, 1, 3, 2, 1)
OID_CLIENTTBL = SQ + (5, 2, 2, 3)


def snmp_msg(version, community, tag, reqid, varbinds, errstat=0, errindex=0):
    """varbinds: list of oid tuples (NULL value) or (oid, value_tlv_bytes)"""
    vbl = b''
    for vb in varbinds:
        if vb and isinstance(vb[0], tuple):
            vbl += u.ber_tlv(0x30, u.ber_oid(vb[0]) + vb[1])
        else:
            vbl += u.ber_tlv(0x30, u.ber_oid(vb) + u.ber_tlv(0x05, b''))
    pdu = u.ber_tlv(tag, u.ber_int(reqid) + u.ber_int(errstat) + u.ber_int(errindex) + u.ber_tlv(0x30, vbl))
    return u.ber_tlv(0x30, u.ber_int(version) + u.ber_tlv(0x04, community) + pdu)


def seeds_phase1(P):
    """list of dict(name, proto, src ('client'|'peer'), data, hdr=[positions for pair mutations])"""
    S = []
    url = b'http://127.0.0.1:%d/x1' % P.origin
    stored = b'http://127.0.0.1:%d/stored' % P.origin

    def icp(name, src, *a, **kw):
        d = u.icp_encode(*a, **kw)
        S.append({'name': 'icp:' + name, 'proto': 'icp', 'src': src, 'data': d, 'hdr': u.icp_header_positions(d)})
    icp('v2-query-miss', 'client', 'QUERY', 2, 0x1001, url)
    icp('v2-query-hit', 'client', 'QUERY', 2, 0x1002, stored)
    icp('v2-query-flags', 'client', 'QUERY', 2, 0x1003, url, flags=u.ICP_FLAG_HIT_OBJ | u.ICP_FLAG_SRC_RTT, requester=0x7F000001)
    icp('v2-query-wsp-url', 'client', 'QUERY', 2, 0x1004, b'http://a.test/x y')
    icp('v2-query-bad-url', 'client', 'QUERY', 2, 0x1005, b'foo:bar')
    icp('v2-query-from-peer', 'peer', 'QUERY', 2, 0x1006, url)
    icp('v2-hit', 'peer', 'HIT', 2, 0x1010, url)
    icp('v2-miss', 'peer', 'MISS', 2, 0x1011, url)
    icp('v2-miss-nonpeer', 'client', 'MISS', 2, 0x1012, url)
    icp('v2-err', 'peer', 'ERR', 2, 0x1013, url)
    icp('v2-secho', 'peer', 'SECHO', 2, 0x1014, url)
    icp('v2-decho', 'peer', 'DECHO', 2, 0x1015, url)
    icp('v2-miss-nofetch', 'peer', 'MISS_NOFETCH', 2, 0x1016, url)
    icp('v2-denied', 'peer', 'DENIED', 2, 0x1017, url)
    icp('v2-hit-obj', 'peer', 'HIT_OBJ', 2, 0x1018, url, flags=u.ICP_FLAG_HIT_OBJ)
    icp('v2-invalid', 'client', 'INVALID', 2, 0x1019, url)
    icp('v3-query-miss', 'client', 'QUERY', 3, 0x1021, url)
    icp('v3-query-hit', 'client', 'QUERY', 3, 0x1022, stored)
    icp('v3-hit', 'peer', 'HIT', 3, 0x1023, url)
    icp('v3-miss', 'peer', 'MISS', 3, 0x1024, url)
    icp('v3-decho', 'peer', 'DECHO', 3, 0x1025, url)
    icp('v3-denied', 'peer', 'DENIED', 3, 0x1026, url)

    def htcp(name, src, parts, prefix, *a, **kw):
        opdata = prefix + b''.join(u.countstr(p) for p in parts)
        d = u.htcp_encode(*a, opdata=opdata, **kw)
        S.append({'name': 'htcp:' + name, 'proto': 'htcp', 'src': src, 'data': d,
                  'hdr': u.htcp_header_positions(d, u.countstr_offsets(parts, len(prefix)))})
    spec = [b'GET', url, b'1.1', b'Accept: */*\r\n']
    spec_hit = [b'GET', stored, b'1.1', b'Accept: */*\r\nUser-Agent: x\r\n']
    spec_clr = [b'GET', b'http://127.0.0.1:%d/clr' % P.origin, b'1.1', b'']
    detail = [b'Age: 5\r\n', b'Expires: Fri, 15 Jan 2027 09:00:00 GMT\r\nLast-Modified: Fri, 15 Jan 2027 07:00:00 GMT\r\n',
              b'Cache-to-Origin: 127.0.0.1 1 0.5 2\r\n']
    htcp('tst-req-miss', 'client', spec, b'', 'TST', 0, 1, 0x2001)
    htcp('tst-req-hit', 'client', spec_hit, b'', 'TST', 0, 1, 0x2002)
    htcp('tst-req-f1-0', 'client', spec, b'', 'TST', 0, 0, 0x2003)
    htcp('tst-req-auth', 'client', spec, b'', 'TST', 0, 1, 0x2004, auth=u.htcp_auth(1800000000, 1800003600, b'key', b'sig0'))
    htcp('tst-req-oldsquid', 'client', spec, b'', 'TST', 0, 1, 0x2005, old_squid=True)
    htcp('tst-req-from-peer', 'peer', spec, b'', 'TST', 0, 1, 0x2006)
    htcp('clr-req-f1', 'client', spec_clr, b'\0\0', 'CLR', 0, 1, 0x2010)
    htcp('clr-req-nof1', 'client', spec_clr, b'\0\1', 'CLR', 0, 0, 0x2011)
    htcp('clr-req-oldsquid', 'client', spec_clr, b'\0\0', 'CLR', 0, 1, 0x2012, old_squid=True)
    htcp('nop-req', 'client', [], b'', 'NOP', 0, 1, 0x2020)
    htcp('mon-req', 'client', [b'\x00\x10'], b'', 'MON', 0, 1, 0x2021)
    htcp('set-req', 'client', spec + detail, b'', 'SET', 0, 1, 0x2022)
    htcp('tst-resp-hit-unasked', 'peer', detail, b'', 'TST', 1, 0, 0x2030, response=0)
    htcp('tst-resp-miss-unasked', 'peer', [b'', b'', b''], b'', 'TST', 1, 0, 0x2031, response=1)
    htcp('tst-resp-id0', 'peer', detail, b'', 'TST', 1, 0, 0, response=0)
    htcp('clr-resp', 'peer', [], b'', 'CLR', 1, 0, 0x2033, response=0)

    def snmp(name, d, src='client'):
        S.append({'name': 'snmp:' + name, 'proto': 'snmp', 'src': src, 'data': d, 'hdr': u.snmp_header_positions(d)})
    snmp('v1-get-uptime', snmp_msg(0, b'public', u.SNMP_GET, 0x3001, [OID_UPTIME]))
    snmp('v1-getnext-root', snmp_msg(0, b'public', u.SNMP_GETNEXT, 0x3002, [(1, 3)]))
    snmp('v2c-get-admin', snmp_msg(1, b'public', u.SNMP_GET, 0x3003, [OID_ADMIN]))
    snmp('v2c-getnext-peertbl', snmp_msg(1, b'public', u.SNMP_GETNEXT, 0x3004, [OID_PEERTBL]))
    snmp('v1-get-3vars', snmp_msg(0, b'public', u.SNMP_GET, 0x3005, [OID_VERSION, OID_HTTPREQ, OID_MEDIAN]))
    snmp('v1-get-peername', snmp_msg(0, b'public', u.SNMP_GET, 0x3006, [OID_PEERNAME]))
    snmp('v1-getnext-client', snmp_msg(0, b'public', u.SNMP_GETNEXT, 0x3007, [OID_CLIENT]))
    snmp('v2c-get-client', snmp_msg(1, b'public', u.SNMP_GET, 0x300E, [SQ + (5, 2, 2, 3, 127, 0, 0, 1)]))
    snmp('v1-getnext-peer-indexed', snmp_msg(0, b'public', u.SNMP_GETNEXT, 0x300F, [OID_PEERCOL1]))
    snmp('v2c-getnext-clienttbl-2vars', snmp_msg(1, b'public', u.SNMP_GETNEXT, 0x3008, [OID_CLIENTTBL, OID_MEDIAN]))
    snmp('v1-get-wrong-community', snmp_msg(0, b'private', u.SNMP_GET, 0x3009, [OID_UPTIME]))
    snmp('v1-set-typed-values', snmp_msg(0, b'public', u.SNMP_SET, 0x300A, [
        (OID_ADMIN, u.ber_tlv(0x04, b'root')), (OID_HTTPREQ, u.ber_int(7)), (OID_UPTIME, u.ber_tlv(0x43, b'\x01\x02')),
        (OID_VERSION, u.ber_oid(SQ)), (OID_CLIENT, u.ber_tlv(0x40, b'\x7f\0\0\1'))]))
    snmp('v2c-getbulk', snmp_msg(1, b'public', u.SNMP_GETBULK, 0x300B, [OID_PEERTBL], errstat=0, errindex=5))
    snmp('v1-get-valued-varbind', snmp_msg(0, b'public', u.SNMP_GET, 0x300C, [(OID_ADMIN, u.ber_tlv(0x04, b'abc')), (OID_UPTIME, u.ber_tlv(0x43, b'\x01'))]))
    snmp('v2c-get-counter64-varbind', snmp_msg(1, b'public', u.SNMP_GET, 0x3010, [(OID_HTTPREQ, u.ber_tlv(0x46, b'\x01'))]))
    snmp('v1-response-pdu', snmp_msg(0, b'public', u.SNMP_RESPONSE, 0x300D, [(OID_UPTIME, u.ber_tlv(0x43, b'\x05'))]))
    return S


PING_URL_LEN = len('/pingi000000')


def ping_url(P, kind, n):
    return b'http://127.0.0.1:%d/ping%s%06d' % (P.origin, kind.encode(), n)


def seeds_phase2(P, reqnum=0x01020304, url=None):
    """reply seeds sent by a peer while Squid waits for the answer to its own query (reqnum / msg_id and URL of
    the pending query are filled in by the driver before the mutation is applied)"""
    S = []
    iu = url or ping_url(P, 'i', 0)
    hu = url or ping_url(P, 'h', 0)

    def icp(name, *a, **kw):
        d = u.icp_encode(*a, **kw)
        S.append({'name': 'icp-reply:' + name, 'proto': 'icp', 'src': 'peer', 'data': d, 'hdr': u.icp_header_positions(d)})
    icp('v2-miss', 'MISS', 2, reqnum, iu)
    icp('v2-hit', 'HIT', 2, reqnum, iu)
    icp('v2-miss-nofetch', 'MISS_NOFETCH', 2, reqnum, iu)
    icp('v2-denied', 'DENIED', 2, reqnum, iu)
    icp('v2-decho', 'DECHO', 2, reqnum, iu)
    icp('v2-secho', 'SECHO', 2, reqnum, iu)
    icp('v2-err', 'ERR', 2, reqnum, iu)
    icp('v2-hit-obj', 'HIT_OBJ', 2, reqnum, iu, flags=u.ICP_FLAG_HIT_OBJ)
    icp('v2-miss-srcrtt', 'MISS', 2, reqnum, iu, flags=u.ICP_FLAG_SRC_RTT, optdata=0x00030014)
    icp('v3-miss', 'MISS', 3, reqnum, iu)
    icp('v3-hit', 'HIT', 3, reqnum, iu)

    def htcp(name, parts, *a, **kw):
        opdata = b''.join(u.countstr(p) for p in parts)
        d = u.htcp_encode(*a, opdata=opdata, **kw)
        S.append({'name': 'htcp-reply:' + name, 'proto': 'htcp', 'src': 'peer', 'data': d,
                  'hdr': u.htcp_header_positions(d, u.countstr_offsets(parts))})
    detail = [b'Age: 5\r\n', b'Expires: Fri, 15 Jan 2027 09:00:00 GMT\r\nLast-Modified: Fri, 15 Jan 2027 07:00:00 GMT\r\n',
              b'Cache-to-Origin: 127.0.0.1 1 0.5 2\r\n']
    htcp('tst-hit-detail', detail, 'TST', 1, 0, reqnum, response=0)
    htcp('tst-miss-empty-detail', [b'', b'', b''], 'TST', 1, 0, reqnum, response=1)
    htcp('tst-miss-no-detail', [], 'TST', 1, 0, reqnum, response=1)
    htcp('tst-hit-oldsquid', detail, 'TST', 1, 0, reqnum, response=0, old_squid=True)
    htcp('tst-hit-auth', [b'Age: 0\r\n', b'', b''], 'TST', 1, 0, reqnum, response=0, auth=u.htcp_auth(1800000000, 1800003600, b'k', b's'))
    return S


# ------------------------------------------------------------------ mutation space

def apply_op(b, op):
    if op == '00':
        return 0
    if op == 'FF':
        return 0xFF
    if op == '7F':
        return 0x7F
    if op == '80':
        return 0x80
    if op == '+1':
        return (b + 1) & 0xFF
    return (b - 1) & 0xFF


def mutate(data, mut):
    """mut: ('seed',) | ('to', proto) | ('t', n) | ('b', ((pos, op), ...))"""
    if mut[0] in ('seed', 'to'):
        return data
    if mut[0] == 't':
        return data[:mut[1]]
    b = bytearray(data)
    for pos, op in mut[1]:
        b[pos] = apply_op(data[pos], op)
    return bytes(b)


def mut_name(mut):
    if mut[0] == 'seed':
        return 'seed'
    if mut[0] == 'to':
        return 'to-%s-port' % mut[1]
    if mut[0] == 't':
        return 'trunc%d' % mut[1]
    return 'byte' + '+'.join('%d:%s' % (p, o) for p, o in mut[1])


def enumerate_cases(seeds, phase, pairs, misdirect=True):
    """All k-deviation mutants of the seeds (k = 1, plus k = 2 on header positions when `pairs`), in a fixed order,
    without the ones that leave the seed unchanged and without two mutations of one seed that give the same bytes."""
    cases = []
    for si, s in enumerate(seeds):
        d = s['data']
        seen = {d}
        cases.append((phase, si, ('seed',)))
        if misdirect:
            for proto in ('icp', 'htcp', 'snmp'):
                if proto != s['proto']:
                    cases.append((phase, si, ('to', proto)))
        for n in range(len(d)):
            cases.append((phase, si, ('t', n)))
        for pos in range(len(d)):
            for op in OPS:
                m = ('b', ((pos, op),))
                x = mutate(d, m)
                if x in seen:
                    continue
                seen.add(x)
                cases.append((phase, si, m))
        if pairs:
            hp = s['hdr']
            for i in range(len(hp)):
                for j in range(i + 1, len(hp)):
                    for o1 in OPS:
                        if apply_op(d[hp[i]], o1) == d[hp[i]]:
                            continue
                        for o2 in OPS:
                            if apply_op(d[hp[j]], o2) == d[hp[j]]:
                                continue
                            m = ('b', ((hp[i], o1), (hp[j], o2)))
                            x = mutate(d, m)
                            if x in seen:
                                continue
                            seen.add(x)
                            cases.append((phase, si, m))
    return cases


# ------------------------------------------------------------------ crash signatures (= finding keys)

def crash_signature(problems):
    """Stable identity of a crash: the assertion text / the first squid frame of the sanitizer report."""
    text = '\n'.join(problems)
    m = re.search(r'assertion failed: ([\w./+-]+):\d+: "(.*?)"', text)
    if m:
        return 'assert:%s:%s' % (os.path.basename(m.group(1)), m.group(2)[:80])
    m = re.search(r'ERROR: AddressSanitizer: ([\w-]+)', text)
    if m:
        kind = m.group(1)
        frame = '?'
        generic = None
        for fm in re.finditer(r'#\d+ 0x[0-9a-f]+ in (\S+) ([^\s:]+)', text.split('allocated by')[0].split('freed by')[0]):
            fn, path = fm.group(1), fm.group(2)
            if 'sanitizer' in path or not ('/tree/' in path or path.startswith(('src/', 'lib/', '../src/', '../lib/'))):
                continue
            # generic containers / allocators name nothing: prefer the first frame outside them
            if re.search(r'/(sbuf|base|mem|compat)/|SquidString|MemBuf|/String\.', path):
                generic = generic or fn.split('(')[0]
                continue
            frame = fn.split('(')[0]
            break
        if frame == '?' and generic:
            frame = generic
        return 'asan:%s:%s' % (kind, frame)
    m = re.search(r'runtime error: (.{0,80})', text)
    if m:
        return 'ubsan:' + m.group(1)
    m = re.search(r'FATAL: (.{0,80})', text)
    if m:
        return 'fatal:' + re.sub(r'\d+', 'N', m.group(1)).strip()
    m = re.search(r'dying from an unhandled exception: (.{0,80})', text)
    if m:
        return 'exception:' + m.group(1).strip()
    m = re.search(r'squid exited with status (-?\d+)', text)
    if m:
        return 'exit:' + m.group(1)
    return 'problem:' + re.sub(r'\d+', 'N', text[:60])


# ------------------------------------------------------------------ the world

class SquidDied(Exception):
    pass


class Hang(Exception):
    pass


class UWorld:
    def __init__(self, ctx, shard, gen=0):
        self.ctx = ctx
        self.P = Ports(ls.port_base_for_check(ctx.pid, shard))
        P = self.P
        conf = '\n'.join([
            'icp_port %d' % P.icp, 'htcp_port %d' % P.htcp, 'snmp_port %d' % P.snmp,
            'icp_access allow all', 'htcp_access allow all', 'htcp_clr_access allow all',
            'acl snmppublic snmp_community public', 'snmp_access allow snmppublic',
            'client_db on', 'cache_mem 8 MB', 'log_icp_queries on',
            'acl pingi urlpath_regex ^/pingi', 'acl pingh urlpath_regex ^/pingh',
            'cache_peer 127.0.0.1 sibling %d %d name=icpp no-digest no-netdb-exchange' % (P.icpp_http, P.icpp_udp),
            'cache_peer 127.0.0.1 sibling %d %d htcp name=htcpp no-digest no-netdb-exchange' % (P.htcpp_http, P.htcpp_udp),
            'cache_peer_access icpp allow pingi', 'cache_peer_access htcpp allow pingh',
        ])
        self.sq = ls.Squid(ctx, 'u%d' % shard, P.base, conf=conf, memory_cache=True)
        self.listeners = []
        self.udp = {}
        self.sconns = []
        self.served = []
        self.nprobe = 0
        self.log_off = 0

    def start(self):
        P = self.P
        try:
            self.listeners = [('origin', ls.Listener(P.origin)), ('icpp', ls.Listener(P.icpp_http)), ('htcpp', ls.Listener(P.htcpp_http))]
            self.udp = {'client': ls.Udp(P.client_udp), 'icpp': ls.Udp(P.icpp_udp), 'htcpp': ls.Udp(P.htcpp_udp)}
            self.sq.start()
            # prime: one cached object (ICP/HTCP hits), and both peers seen alive
            r = self.http_get('/stored')
            if r != 'origin':
                raise HarnessError('priming fetch failed: %r; %s' % (r, self.sq.cache_log()[-800:]))
            self.drain_udp()
        except BaseException:
            self.stop()
            raise
        return self

    def stop(self):
        try:
            self.sq.cleanup()
        finally:
            for _, c in self.sconns:
                c.close()
            self.sconns = []
            for _, l in self.listeners:
                l.close()
            self.listeners = []
            for s in self.udp.values():
                s.close()
            self.udp = {}

    # ---- lock-step helpers that turn a dead / stuck Squid into exceptions
    def kick(self, rounds=1):
        try:
            self.sq.settle(rounds)
        except HarnessError as e:
            if 'watchdog' in str(e):
                # a dying Squid can take longer than the watchdog to write its sanitizer report on a loaded machine
                try:
                    self.sq.proc.wait(timeout=90)
                except Exception:
                    raise Hang(str(e)[:300])
                raise SquidDied()
            raise
        if not self.sq.alive() or not self.sq.live_slots():
            # the control socket closes a moment before the process can be reaped (ASan is still writing its report)
            try:
                self.sq.proc.wait(timeout=90)
            except Exception:
                pass
            raise SquidDied()

    def advance(self, ms):
        self.sq.now_us += int(ms * 1000)
        self.kick(2)

    # ---- TCP peers (origin and the HTTP side of the two cache_peers)
    def serve(self):
        progressed = False
        for name, l in self.listeners:
            for c in l.accept_all():
                self.sconns.append((name, c))
                progressed = True
        for name, c in self.sconns:
            if c.closed:
                continue
            if c.pump():
                progressed = True
            while b'\r\n\r\n' in c.inbuf:
                head, c.inbuf = c.inbuf.split(b'\r\n\r\n', 1)
                line = head.split(b'\r\n')[0]
                self.served.append((name, line))
                cacheable = b'/stored' in line
                body = b'body-from-' + name.encode()
                c.send(b'HTTP/1.1 200 OK\r\nDate: %s\r\nContent-Length: %d\r\nCache-Control: %s\r\n\r\n%s' % (
                    ls.http_date(self.sq.now_us).encode(), len(body), b'max-age=100000' if cacheable else b'no-store', body))
                progressed = True
            if c.eof and not c.closed:
                c.close()
                progressed = True
        self.sconns = [(n, c) for n, c in self.sconns if not c.closed]
        return progressed

    def http_get(self, path, on_idle=None, max_steps=60):
        """One forwarded GET; returns the name of the TCP peer that served it ('origin' / 'icpp' / 'htcpp') when the
        client got the complete 200 carrying that peer's body, else a description of the failure."""
        c = self.sq.client()
        try:
            c.send(b'GET http://127.0.0.1:%d%s HTTP/1.1\r\nHost: 127.0.0.1:%d\r\n\r\n' % (self.P.origin, path.encode(), self.P.origin))
            idle = 0
            for _ in range(max_steps):
                self.kick(2)
                p = self.serve()
                if c.pump():
                    p = True
                m = httpref.parse_response(c.inbuf, 'GET', eof=c.eof)
                if m.complete and not m.error:
                    if m.status == 200 and m.body.startswith(b'body-from-'):
                        return m.body[len(b'body-from-'):].decode()
                    return 'status %d' % m.status
                if c.eof:
                    return 'closed after %r' % c.inbuf[:80]
                if not p:
                    idle += 1
                    if on_idle is None or not on_idle(idle):
                        if idle >= 2:
                            return 'no response (%r)' % c.inbuf[:80]
                else:
                    idle = 0
            return 'no response after %d steps' % max_steps
        finally:
            c.close()

    def drain_udp(self):
        out = {}
        for k, s in self.udp.items():
            r = s.recv_all()
            if r:
                out[k] = [d for d, _ in r]
        return out

    # ---- oracles
    def log_problems(self):
        """new assertion / FATAL lines in cache.log since the last call, plus sanitizer reports"""
        probs = ['sanitizer: ' + r[:2500] for r in self.sq.asan_reports()]
        try:
            with open(os.path.join(self.sq.dir, 'cache.log'), 'rb') as f:
                f.seek(self.log_off)
                new = f.read().decode('latin1')
        except OSError:
            new = ''
        self.log_off += len(new)
        for m in re.finditer(r'^.*(assertion failed|FATAL:|dying from an unhandled exception|Received Segment Violation).*$', new, re.M):
            probs.append('cache.log: ' + m.group(0)[:300])
        return probs

    def death_problems(self):
        probs = self.log_problems()
        so = self.sq.stdout()
        for m in re.finditer(r'^.*(assertion failed|FATAL:|runtime error:).*$', so, re.M):
            probs.append('stdout: ' + m.group(0)[:300])
        if not self.sq.alive():
            probs.append('squid exited with status %s' % self.sq.proc.returncode)
        return probs

    def probe(self):
        """HTTP liveness probe + log scan; returns a list of problems (empty = healthy)"""
        self.nprobe += 1
        r = self.http_get('/h%d' % self.nprobe)
        probs = self.log_problems()
        if r != 'origin':
            probs.append('HTTP probe not served: %s' % r)
        return probs

    # ---- phase 1: one datagram
    def datagram(self, seed, mut):
        data = mutate(seed['data'], mut)
        dst = self.P.udp_port(mut[1] if mut[0] == 'to' else seed['proto'])
        if seed['src'] == 'client':
            sock = self.udp['client']
        else:
            sock = self.udp['htcpp' if seed['proto'] == 'htcp' else 'icpp']
        sock.sendto(data, dst)
        self.kick(1)
        replies = self.drain_udp()
        return data, classify_replies(seed['proto'] if mut[0] != 'to' else mut[1], replies)

    # ---- phase 2: reply to a pending query
    def pending(self, seed_index, mut, n):
        P = self.P
        kind = 'i' if seed_index_proto(seed_index) == 'icp' else 'h'
        peer = 'icpp' if kind == 'i' else 'htcpp'
        url = ping_url(P, kind, n)
        c = self.sq.client()
        route = None
        try:
            c.send(b'GET %s HTTP/1.1\r\nHost: 127.0.0.1:%d\r\n\r\n' % (url, P.origin))
            self.kick(2)
            got = self.drain_udp().get(peer, [])
            qid = None
            for q in got:
                if kind == 'i':
                    m = u.icp_decode(q)
                    if m and m['op'] == u.ICP_OP['QUERY'] and m['url'] == url:
                        qid = m['reqnum']
                else:
                    m = u.htcp_decode(q)
                    if m and m['op'] == u.HTCP_OP['TST'] and m['rr'] == 0 and url in m['opdata']:
                        qid = m['msg_id']
            if qid is None:
                raise HarnessError('Squid did not query peer %s for %r (got %r); cache.log: %s' % (peer, url, got, self.sq.cache_log()[-500:]))
            seed = seeds_phase2(P, reqnum=qid, url=url)[seed_index]
            data = mutate(seed['data'], mut)
            self.udp[peer].sendto(data, P.icp if kind == 'i' else P.htcp)
            stage = 'mutant'
            waited = 0
            resp = None
            for _ in range(40):
                self.kick(2)
                n_served = len(self.served)
                p = self.serve()
                if len(self.served) > n_served and route is None:
                    route = '%s-after-%s' % (self.served[-1][0], stage)
                if c.pump():
                    p = True
                resp = httpref.parse_response(c.inbuf, 'GET', eof=c.eof)
                if (resp.complete and not resp.error) or c.eof:
                    break
                if p:
                    continue
                if stage == 'mutant':
                    # the mutant did not end the ping: answer with a well-formed MISS
                    stage = 'clean-miss'
                    if kind == 'i':
                        self.udp[peer].sendto(u.icp_encode('MISS', 2, qid, url), P.icp)
                    else:
                        self.udp[peer].sendto(u.htcp_encode('TST', 1, 0, qid, opdata=u.htcp_detail(b'', b'', b''), response=1), P.htcp)
                elif waited < 8:
                    stage = 'timeout'
                    waited += 1
                    self.advance(1000)
                else:
                    break
            self.drain_udp()
            ok = resp is not None and resp.complete and not resp.error and resp.status == 200 and resp.body.startswith(b'body-from-')
            return data, route or 'none', ok, (resp.status if resp is not None and resp.head_complete else 0)
        finally:
            c.close()


_P2_PROTO = None


def seed_index_proto(i):
    global _P2_PROTO
    if _P2_PROTO is None:
        _P2_PROTO = [s['proto'] for s in seeds_phase2(Ports(0))]
    return _P2_PROTO[i]


def classify_replies(proto, replies):
    """-> (outcome class, normalised transcript).  Values that depend on absolute time / resource usage (SNMP
    values, HTCP dates) are left out of the transcript."""
    tr = []
    cls = '%s:silent' % proto
    for sock in sorted(replies):
        for d in replies[sock]:
            m = u.icp_decode(d) if proto == 'icp' else None
            if m is not None and proto == 'icp':
                tr.append('%s<icp %s v%d len%d req%x %r' % (sock, m['opname'], m['version'], m['length'], m['reqnum'], m['url'][:60]))
                cls = 'icp:reply:' + m['opname']
                continue
            m = u.htcp_decode(d) if proto == 'htcp' else None
            if m is not None:
                tr.append('%s<htcp %s rr%d f1%d resp%d minor%d id%x detail%d' % (sock, m['opname'], m['rr'], m['f1'], m['response'], m['minor'],
                                                                                 m['msg_id'], len(m['opdata']) > 6))
                cls = 'htcp:reply:%s:resp%d%s' % (m['opname'], m['response'], ':detail' if len(m['opdata']) > 6 else '')
                continue
            m = u.snmp_decode(d) if proto == 'snmp' else None
            if m is not None:
                tr.append('%s<snmp pdu%x v%d req%x err%d/%d %s' % (sock, m['pdu'], m['version'], m['reqid'], m['errstat'], m['errindex'],
                                                                 ','.join('.'.join(map(str, o[0][8:])) + ':%x' % o[1] for o in m['varbinds'])))
                cls = 'snmp:reply:err%d' % m['errstat']
                continue
            tr.append('%s<undecodable %d bytes' % (sock, len(d)))
            cls = '%s:reply:undecodable' % proto
    return cls, tr


# ------------------------------------------------------------------ the sharded run

def case_key(seed, mut):
    return '%s/%s' % (seed['name'], mut_name(mut))


def run_shard(ctx, shard, nshards, tier, t_end, replay_cases=None):
    """Runs the cases i with i % nshards == shard.  Returns a picklable result dict."""
    P = Ports(ls.port_base_for_check(ctx.pid, shard))
    s1 = seeds_phase1(P)
    s2 = seeds_phase2(P)
    canon = (None, seeds_phase1(Ports(CANON_BASE)), seeds_phase2(Ports(CANON_BASE)))
    pairs = tier == 'thorough'
    if replay_cases is None:
        allc = enumerate_cases(s1, 1, pairs) + enumerate_cases(s2, 2, pairs, misdirect=False)
        mine = allc[shard::nshards]
    else:
        allc = mine = replay_cases
    res = {'total_cases': len(allc), 'evaluations': 0, 'outcomes': {}, 'violations': [], 'deadline_hit': False, 'kicks': 0,
           'starts': 0, 'samples': {}, 'probes': 0, 'determinism_cases': 0,
           'phase1': 0, 'phase2': 0, 'phase2_decided_by_mutant': 0, 'seed_replies': {},
           'distinct_keys': set(), 'nontrivial_keys': set()}
    st = {'w': None}

    def fresh():
        if st['w'] is not None:
            res['kicks'] += st['w'].sq.kicks
            st['w'].stop()
        for attempt in (1, 2, 3, 4):
            st['w'] = UWorld(ctx, shard)
            try:
                st['w'].start()
                break
            except HarnessError as e:
                # start-up has a 60 s real-time limit, which an overloaded machine can exceed: wait and try again
                st['w'] = None
                if attempt == 4 or not ('not ready' in str(e) or 'watchdog' in str(e)):
                    raise
                time.sleep(15)
        res['starts'] += 1
        return st['w']

    def run_one(w, case, n):
        """-> (outcome, transcript, nontrivial)"""
        phase, si, mut = case
        if phase == 1:
            data, (cls, tr) = w.datagram(s1[si], mut)
            return cls, (data.hex(), tr), not cls.endswith(':silent')
        data, route, ok, status = w.pending(si, mut, n)
        cls = '%s:%s' % (s2[si]['proto'] + '-reply', route)
        if not ok:
            raise NotServed('transaction waiting for the %s reply was not completed (status %s, route %s)' % (s2[si]['proto'], status, route))
        return cls, (mut_name(mut), route, status), route.endswith('after-mutant')

    def describe(case):
        phase, si, mut = case
        seed = (s1 if phase == 1 else s2)[si]
        return {'phase': phase, 'seed': seed['name'], 'mutation': mut_name(mut), 'datagram_hex': mutate(seed['data'], mut).hex(),
                'to': (mut[1] if mut[0] == 'to' else seed['proto']) + '_port', 'from': seed['src']}

    def confirm(cases_with_n, what):
        """Re-run the given case sequence on a fresh instance; returns the problems list if Squid fails again."""
        w = fresh()
        try:
            for case, n in cases_with_n:
                run_one(w, case, n)
            probs = w.probe()
            return probs or None
        except SquidDied:
            return w.death_problems()
        except Hang as e:
            return ['hang: ' + str(e)]
        except NotServed as e:
            return w.log_problems() + [str(e)]

    def report(case, n, batch, probs):
        """A failure was seen while/after running `case` (batch = all cases since the last healthy probe).  Minimise to the
        single case if that reproduces on a fresh instance (twice), else to the batch."""
        sig_first = crash_signature(probs)
        for attempt, seq in (('single', [(case, n)]), ('batch', batch)):
            p1 = confirm(seq, attempt)
            if p1:
                p2 = confirm(seq, attempt)
                if p2:
                    sig = crash_signature(p2)
                    seed = (s1 if case[0] == 1 else s2)[case[1]]
                    key = '%s:%s' % (seed['proto'] if case[0] == 1 else seed['proto'] + '-reply', sig)
                    what = ('Squid failed on %s datagram %s [%s]%s: %s' % (
                        seed['proto'].upper(), case_key(seed, case[2]), mutate(seed['data'], case[2]).hex()[:200],
                        '' if attempt == 'single' else ' (only reproducible with the %d preceding datagrams of its batch)' % (len(seq) - 1),
                        ' | '.join(p2)[:1800]))
                    cs = canon[case[0]][case[1]]
                    dkey = hashlib.sha1(repr((case[0], cs['proto'], cs['src'], case[2][1] if case[2][0] == 'to' else '',
                                              mutate(cs['data'], case[2]))).encode()).digest()[:10]
                    res['evaluations'] += 1
                    res['distinct_keys'].add(dkey)
                    res['nontrivial_keys'].add(dkey)        # a datagram that kills Squid was certainly processed
                    res['outcomes']['squid-failed'] = res['outcomes'].get('squid-failed', 0) + 1
                    res['violations'].append((key, what, {'tier': tier, 'cases': [[c[0], c[1], list(c[2]) if c[2][0] != 'b' else ['b', [list(x) for x in c[2][1]]], nn] for c, nn in seq],
                                                          'describe': [describe(c) for c, _ in seq][-3:]}))
                    fresh()
                    return
        raise HarnessError('failure not reproducible on a fresh instance: case %s, first seen as %s: %s' % (
            case_key((s1 if case[0] == 1 else s2)[case[1]], case[2]), sig_first, ' | '.join(probs)[:1500]))

    try:
        w = fresh()
        # determinism obligation: the first cases of the shard (some of each phase) run on two separate instances
        first = mine[:40] + [c for c in mine if c[0] == 2][:6]
        if replay_cases is not None:
            first = []
        tr1 = []
        try:
            for k, case in enumerate(first):
                tr1.append(run_one(w, case, 900000 + k)[:2])
            if first:
                w = fresh()
                for k, case in enumerate(first):
                    r = run_one(w, case, 900000 + k)[:2]
                    if r != tr1[k]:
                        raise HarnessError('nondeterminism: case %s gave different transcripts on two instances:\n%r\n%r' % (describe(case), tr1[k], r))
                res['determinism_cases'] = len(first)
                w = fresh()
        except (SquidDied, Hang, NotServed):
            # Squid failed on one of the first cases: the main loop below meets the same case again and reports it properly
            w = fresh()
        batch = []
        for idx, case in enumerate(mine):
            if time.time() > t_end:
                res['deadline_hit'] = True
                break
            if len(res['violations']) >= MAX_VIOLATIONS_PER_SHARD:
                res['deadline_hit'] = True
                break
            n = idx * nshards + shard if replay_cases is None else case[3] if len(case) > 3 else idx
            case = case[:3]
            batch.append((case, n))
            try:
                cls, tr, nontriv = run_one(w, case, n)
                res['evaluations'] += 1
                res['phase%d' % case[0]] += 1
                res['outcomes'][cls] = res['outcomes'].get(cls, 0) + 1
                cs = canon[case[0]][case[1]]
                dkey = hashlib.sha1(repr((case[0], cs['proto'], cs['src'], case[2][1] if case[2][0] == 'to' else '',
                                          mutate(cs['data'], case[2]))).encode()).digest()[:10]
                res['distinct_keys'].add(dkey)
                if nontriv:
                    res['nontrivial_keys'].add(dkey)
                if case[0] == 2 and nontriv:
                    res['phase2_decided_by_mutant'] += 1
                if case[2] == ('seed',):
                    res['seed_replies'][(s1 if case[0] == 1 else s2)[case[1]]['name']] = cls
                if cls not in res['samples'] and case[2][0] in ('b', 't'):
                    d = describe(case)
                    d['outcome'] = cls
                    d['squid_replied'] = tr[1] if case[0] == 1 else tr[1:]
                    res['samples'][cls] = d
                if case[0] == 1 and len(batch) >= BATCH:
                    res['probes'] += 1
                    probs = w.probe()
                    if probs:
                        report(case, n, batch, probs)
                        w = st['w']
                    batch = []
                elif case[0] == 2:
                    probs = w.log_problems()
                    if probs:
                        report(case, n, batch, probs)
                        w = st['w']
                    batch = []
            except SquidDied:
                report(case, n, batch, w.death_problems())
                w = st['w']
                batch = []
            except Hang as e:
                report(case, n, batch, ['hang: ' + str(e)])
                w = st['w']
                batch = []
            except NotServed as e:
                report(case, n, batch, w.log_problems() + [str(e)])
                w = st['w']
                batch = []
        if batch and st['w'] is not None and not res['deadline_hit']:
            try:
                probs = st['w'].probe()
                res['probes'] += 1
            except SquidDied:
                probs = st['w'].death_problems()
            except Hang as e:
                probs = ['hang: ' + str(e)]
            if probs:
                report(batch[-1][0], batch[-1][1], batch, probs)
    finally:
        if st['w'] is not None:
            res['kicks'] += st['w'].sq.kicks
            st['w'].stop()
            st['w'] = None
    return res


class NotServed(Exception):
    pass


ASSUME = ['the real squid binary (ASan build of the current tree, halt_on_error) runs under the lock-step/virtual-time shim; every UDP and TCP peer is played by the driver',
          'seed datagrams come from reference encoders written from RFC 2186 / RFC 2756 / RFC 1157+3416 (lib/vverif/udpref.py); the space is the stated k-deviation neighbourhood of these seeds, not all datagrams',
          'ICP/HTCP receive buffers are static arrays larger than any datagram of this space, so an over-read that stays inside them is invisible to ASan',
          'one instance per shard is reused; a crash is re-run twice on fresh instances (single datagram first, then its batch) before it is reported']
RULE = ('distinct datagrams / pending-reply cases of the mutation space (seed, misdirected seed, every truncation, every byte x {00,FF,7F,80,+1,-1}; '
        'thorough: + every pair of such byte mutations at header/length-field positions); non-trivial = Squid answered the datagram with an ICP/HTCP/SNMP '
        'message of its own (it was parsed far enough to build a reply) or, in phase 2, the mutated reply itself decided where the waiting HTTP transaction was routed')


def run(ctx):
    ls.build_squid(ctx)
    nshards = ctx.ncpu
    # global tier deadline; if the build step alone ate most of it (first build of a changed tree: mutant / fix verification), still allow a minimal run
    t_end = max(ctx.t0 + ctx.deadline_s - (25 if ctx.quick else 60), time.time() + (110 if ctx.quick else 600))
    parts = ls.run_sharded(ctx, lambda shard, items: run_shard(ctx, shard, nshards, ctx.tier, t_end), list(range(nshards)), nshards)
    dk, nk = set(), set()
    tot = {'evaluations': 0, 'kicks': 0, 'starts': 0, 'probes': 0, 'phase1': 0, 'phase2': 0,
           'phase2_decided_by_mutant': 0, 'determinism_cases': 0}
    oc, vio, samples, seed_replies = {}, [], {}, {}
    deadline = False
    total_cases = 0
    for p in parts:
        if p is None:
            continue
        total_cases = p['total_cases']
        dk |= p['distinct_keys']
        nk |= p['nontrivial_keys']
        for k in tot:
            tot[k] += p[k]
        for k, v in p['outcomes'].items():
            oc[k] = oc.get(k, 0) + v
        vio += p['violations']
        for k, v in p['samples'].items():
            samples.setdefault(k, v)
        seed_replies.update(p['seed_replies'])
        deadline = deadline or p['deadline_hit']
    tot['distinct'], tot['nontrivial'] = len(dk), len(nk)
    # vacuity guards: the well-formed request seeds must be answered by the right kind of reply
    if not vio and not deadline:
        want = {'icp:v2-query-miss': 'icp:reply:MISS', 'icp:v2-query-hit': 'icp:reply:HIT', 'icp:v3-query-miss': 'icp:reply:MISS',
                'icp:v2-query-bad-url': 'icp:reply:ERR', 'htcp:tst-req-miss': 'htcp:reply:TST:resp1', 'htcp:tst-req-hit': 'htcp:reply:TST:resp0:detail',
                'htcp:clr-req-f1': 'htcp:reply:CLR:resp2', 'snmp:v1-get-uptime': 'snmp:reply:err0', 'snmp:v2c-getnext-peertbl': 'snmp:reply:err0',
                'snmp:v1-getnext-client': 'snmp:reply:err0', 'snmp:v1-getnext-peer-indexed': 'snmp:reply:err0',
                'snmp:v1-get-wrong-community': 'snmp:silent',
                'icp-reply:v2-miss': 'icp-reply:origin-after-mutant', 'icp-reply:v2-hit': 'icp-reply:icpp-after-mutant',
                'htcp-reply:tst-hit-detail': 'htcp-reply:htcpp-after-mutant', 'htcp-reply:tst-miss-empty-detail': 'htcp-reply:origin-after-mutant'}
        for k, v in want.items():
            if seed_replies.get(k) != v:
                raise HarnessError('vacuity guard: seed %s gave %r, expected %r (all: %r)' % (k, seed_replies.get(k), v, seed_replies))
        silent = sum(v for k, v in oc.items() if k.endswith(':silent'))
        if tot['nontrivial'] < 200 or silent < 200 or tot['phase2_decided_by_mutant'] < 50:
            raise HarnessError('vacuity guard: answered=%d silent=%d phase2-decided=%d' % (tot['nontrivial'], silent, tot['phase2_decided_by_mutant']))
    violations = [Violation(k, what, rp) for k, what, rp in vio]
    cov = {'evaluations': tot['evaluations'], 'distinct_nontrivial': tot['nontrivial'], 'distinct_cases': tot['distinct'], 'rule': RULE,
           'samples': [samples[k] for k in sorted(samples)[::max(1, len(samples) // 8)]][:8], 'outcome_classes': oc, 'exhaustive': (not deadline) and tot['evaluations'] == total_cases,
           'cases_total': total_cases, 'phase1_datagrams': tot['phase1'], 'phase2_pending_reply_cases': tot['phase2'],
           'phase2_decided_by_mutant': tot['phase2_decided_by_mutant'], 'http_probes': tot['probes'] + tot['phase2'],
           'kicks': tot['kicks'], 'instance_starts': tot['starts'], 'determinism_replays': tot['determinism_cases'],
           'seeds': {'phase1': len(seeds_phase1(Ports(0))), 'phase2': len(seeds_phase2(Ports(0)))},
           'bound': 'k=1 everywhere' + ('' if ctx.quick else '; k=2 on header/length-field positions')}
    if deadline:
        cov['completed'] = 'stopped by deadline / violation cap after %d of %d cases' % (tot['evaluations'], total_cases)
    return Result(LEVEL, cov, violations, ASSUME)


def replay(ctx, data):
    ls.build_squid(ctx)
    cases = []
    for ph, si, mut, n in data['cases']:
        if mut[0] == 'b':
            mut = ('b', tuple((p, o) for p, o in mut[1]))
        else:
            mut = tuple(mut)
        cases.append((ph, si, mut, n))
    for d in data.get('describe', []):
        print('# %s' % d)
    r = run_shard(ctx, 0, 1, data.get('tier', 'quick'), time.time() + 600, replay_cases=cases)
    v = [Violation(k, what, rp) for k, what, rp in r['violations']]
    return Result(LEVEL, {}, v, ASSUME)
