// minimal stubs for linking src/ipc/ReadWriteLock.cc stand-alone
#include "squid.h"
#include "Store.h"
#include <cstdarg>
#include <cstdio>
#include <cstdlib>

void storeAppendPrintf(StoreEntry *, const char *, ...) {}
void xassert(const char *msg, const char *file, int line)
{
    fprintf(stderr, "assertion failed: %s:%d: \"%s\"\n", file, line, msg);
    abort();
}
