"""C57 Rock rebuild indexes only intact entries from any disk image — E1, fault enumeration: every small db image
(valid layouts + one/two deviations) is rebuilt by the real Rock::Rebuild in a forked process and the resulting
map is judged against the image."""
import glob
import os
import shutil

from vverif import seq
from vverif.core import Result, HarnessError

LEVEL = 'fault_enumeration'
RULE = ('db = 16 KB header + n slots of 512 bytes; base images = every placement of one entry or two entries (1..3 chained slots '
        'each, every assignment of chain slots to db positions, remaining slots blank); quick: n=3 all bases and the n=4 bases with two entries of 1+2 or 2+2 slots; thorough: n=4 all bases and the n=5 bases whose entries all have 2 or 3 slots; images = '
        'each base image plus every single deviation: any cell-header field of any slot (used or blank) set to another value of '
        'its domain (key {zero,K1,K2,K1-colliding}, entrySize {0,total,total+-1}, payloadSize {0,p,p+-1,200,472,473}, version '
        '{0,1000,1001,2000}, firstSlot and nextSlot {-1..n}), a slot zeroed, a slot copied over another, the file truncated (0, '
        '100, header only, every slot boundary, 20/40/100/511 bytes into every slot); thorough additionally every pair (any '
        'first deviation x a second header-field deviation) on the n=3 bases with two entries or a three-slot entry; every image is rebuilt by Rock::Rebuild in a forked '
        'worker process (events run on a jumping clock; a worker takes up to 48 images one after the other, tearing the cache_dir down in between like tests/testRock.cc, and every image it judges bad is re-run in a process of its own before it is reported) which then walks Ipc::StoreMap and the free-slot stack; non-trivial = images '
        'with a deviation on which the rebuild finished (the map was judged)')
ASSUME = ['src/fs/rock/*, src/ipc/StoreMap.cc, src/store_rebuild.cc of the current tree as built (ASan) for the tests/testRock link set, '
          'driven like tests/testRock.cc (non-SMP, Blocking disk I/O); the db geometry is forced to n slots by setting the dir size after parse()',
          'entry payloads are written by the harness (swap metadata TLVs KEY_MD5, STD_LFS, URL + a reply) following store/SwapMeta.h',
          'a process that dies in fatal()/assert/exception/ASan or does not finish within 400 event rounds / 20 s of CPU time counts as a crash (re-run alone before it is reported)',
          'slots that end up neither free nor in a readable chain, and anchors left write-locked, are counted as observations, not violations',
          'opt_store_doublecheck (-S) is off']


def _build(ctx):
    # the testRock set stubs store_rebuild.cc (its storeRebuildLoadEntry() pretends every slot is zero):
    # link the tree's real store_rebuild.cc instead; main.cc's storeRebuildStart() also lives in
    # tests/stub_store_client.o, so the (uncalled) real one is renamed
    return seq.build(ctx, 'tests/testRock', ['C57_rock.cc'], tree_sources=['store_rebuild.cc'],
                     tree_flags=['-DstoreRebuildStart=storeRebuildStart_notLinked'], drop_objects=[r'stub_store_rebuild\.o$'])


def _cleanup(ctx):
    tag = ctx.rundir.strip('/').replace('/', '.')
    for p in glob.glob('/dev/shm/squid-%s.c57-*' % tag):
        try:
            os.unlink(p)
        except OSError:
            pass
    for p in glob.glob(os.path.join(ctx.rundir, 'c57-*')):
        shutil.rmtree(p, ignore_errors=True)



def _timed_build(ctx):
    """Compiling and linking the harness is build time as well: like ctx.vbuild(), do not charge it to the
    tier deadline (under load the link of a unit-test set alone can take minutes)."""
    import time
    t, b0 = time.time(), getattr(ctx, 'build_s', 0.0)
    exe = _build(ctx)
    ctx.deadline_s += max(0.0, (time.time() - t) - (getattr(ctx, 'build_s', 0.0) - b0))
    return exe


def run(ctx):
    exe = _timed_build(ctx)
    _cleanup(ctx)
    try:
        m = seq.run(ctx, exe)
    finally:
        _cleanup(ctx)
    oc = m['outcomes']
    c = m['counters']
    judged = sum(v for k, v in oc.items() if k.startswith('rebuilt:'))
    withreadable = sum(v for k, v in oc.items() if k.startswith('rebuilt:') and not k.startswith('rebuilt:0-'))
    none = sum(v for k, v in oc.items() if k.startswith('rebuilt:0-'))
    if not m['deadline_hit']:
        if c.get('base_images_fully_indexed', 0) < 50 or withreadable < 1000 or none < 100:
            raise HarnessError('vacuity guard: bases indexed=%s, images with readable entries=%s, images with none=%s' % (
                c.get('base_images_fully_indexed'), withreadable, none))
    cov = seq.coverage_from(m, RULE, nontrivial_classes=[k for k in oc if k.startswith('rebuilt:') or k.startswith('violation:')], min_classes=3)
    cov['evaluations'] = c.get('images_rebuilt', 0)      # an evaluation is one image; a harness case is one base layout
    cov['cases'] = m['evaluations']
    return Result(LEVEL, cov, seq.violations_from(m), ASSUME)


def replay(ctx, data):
    exe = _build(ctx)
    tiers = [ctx.tier] + [t for t in ('quick', 'thorough') if t != ctx.tier]
    try:
        for t in tiers:
            ctx.tier = t
            m = seq.replay_case(ctx, exe, data['case'])
            if m.get('evaluations'):
                break
    finally:
        _cleanup(ctx)
    m.setdefault('deadline_hit', False)
    return Result(LEVEL, {}, seq.violations_from(m), ASSUME)
