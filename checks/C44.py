"""C44 Access lists decide by first match, even when checks go asynchronous — E1, explicit-state exploration of
rule lists x leaf behaviours x lookup-completion schedules on the real ACLChecklist / Acl::Tree code."""
from vverif import seq, seqla
from vverif.core import Result, HarnessError

LEVEL = 'model_checking'
BOUND_Q = ('rule lists: 0..2 rules x 1..2 possibly negated leaves (8 behaviours each), 2 rules sharing 2 leaves, 3 one-leaf '
           'rules (6 behaviours), 1 rule with an all-of/any-of group (6 behaviours); two-check interleavings up to 8 lookups')
BOUND_T = ('quick bound + 3 one-leaf rules (8 behaviours), 3 rules x 1..2 leaves (5 behaviours), group lists with 8 '
           'behaviours, 2-rule lists with a group (4 behaviours); two-check interleavings up to 8 lookups')
RULE = ('configurations are written as squid.conf lines and parsed by the real parser; leaf behaviours: T, F (immediate), '
        'AT, AF (goAsync, lookup completes later), ST, SF (lookup completes inside the starter), 2T, 2F (two consecutive '
        'lookups); per configuration: one slow check, one fast check, caller gone at every pause, a fast check at every '
        'pause, and two concurrent slow checks (the second seeing inverted leaf values) in every interleaving of their '
        'lookup completions; oracle = first-match reference evaluator, callback exactly once (never after the caller '
        'is gone), checklist destroyed')
ASSUME = ['the synthetic leaf ACL type follows the protocol of Squid\'s own slow ACLs: return -1 after a successful goAsync(), '
          'report a mismatch when goAsync() refuses, use the lookup result when it completed inside the starter',
          'the explorer plays the event loop: a lookup completes only when the explorer calls resumeNonBlockingCheck()',
          'a fast check treats a leaf that needs a lookup as a mismatch (the leaf decides; the statement is silent)']


def _build(ctx):
    return seqla.build(ctx, 'tests/testCacheManager', ['C44_checklist.cc'])


def _result(ctx, m):
    c = m['counters']
    oc = m['outcomes']
    if not m['failures'] and not m['crashes'] and not m['deadline_hit']:
        for k in ('allow:rule', 'deny:rule', 'allow:implicit', 'deny:implicit', 'dunno:no-rules'):
            if oc.get(k, 0) < 1:
                raise HarnessError('vacuity guard: no configuration with outcome %s' % k)
        for k, least in (('slow_checks_that_paused', 100), ('sync_resumes_inside_starter', 100),
                         ('assignments_with_double_lookup_leaf', 100), ('caller_gone_executions', 100),
                         ('fast_check_lookup_refusals', 100), ('two_check_choice_points', 100),
                         ('two_check_executions_with_different_answers', 100),
                         ('structures_negated_leaf_literals', 10), ('structures_group_literals', 10)):
            if c.get(k, 0) < least:
                raise HarnessError('vacuity guard: %s = %d < %d' % (k, c.get(k, 0), least))
    complete = not m['deadline_hit']
    cov = {
        'states': c.get('states', 0), 'transitions': c.get('events', 0),
        'traces_validated_against_impl': c.get('executions', 0),
        'structures': m['evaluations'], 'configurations': c.get('assignments', 0),
        'bound_completed': (BOUND_Q if ctx.quick else BOUND_T) if complete else 'partial (deadline)',
        'rule': RULE, 'samples': m['samples'], 'exhaustive': complete,
        'outcome_classes': oc, 'counters': c,
    }
    return Result(LEVEL, cov, seq.violations_from(m), ASSUME)


def run(ctx):
    exe = _build(ctx)
    m = seq.run(ctx, exe)
    return _result(ctx, m)


def replay(ctx, data):
    exe = _build(ctx)
    m = seq.replay_case(ctx, exe, data['case'])
    return Result(LEVEL, {}, seq.violations_from(m), ASSUME)
