// C37 — storage for the global `Config` that src/dns/rfc3596.cc reads (Config.dns.packet_max only).
// Constructing a real SquidConfig would drag half of Squid into the small tests/testDns link set, so the
// symbol is provided as zero-filled storage of sufficient size; C37_dns.cc static_asserts the size and
// accesses it through the real SquidConfig type.  A variable name is not type-mangled, so this links.
alignas(64) char Config[1 << 16] = {};
