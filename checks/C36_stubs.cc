// C36 — the real auth framework objects (src/auth/*.cc, src/auth/basic/*.cc) replace tests/stub_libauth.o in the
// tests/testCacheManager link set; auth/Gadgets.cc lists the user caches of the other schemes, which are not linked.
#include "squid.h"
#include "auth/CredentialsCache.h"
#include "auth/digest/User.h"
#include "auth/negotiate/User.h"
#include "auth/ntlm/User.h"

CbcPointer<Auth::CredentialsCache> Auth::Digest::User::Cache() { return CbcPointer<Auth::CredentialsCache>(); }
CbcPointer<Auth::CredentialsCache> Auth::Negotiate::User::Cache() { return CbcPointer<Auth::CredentialsCache>(); }
CbcPointer<Auth::CredentialsCache> Auth::Ntlm::User::Cache() { return CbcPointer<Auth::CredentialsCache>(); }
