"""C03 No request smuggling — E3, bounded input product against a strict RFC 9112 reference delimiter.

One client connection carries the pipeline  M1 BODY M2  through the real squid binary (lock-step); the
driver also plays the origin.  M1's framing headers are the product of Content-Length variants x
Transfer-Encoding variants x line-terminator styles x method x version x relaxed_header_parser, and
BODY itself spells a further request E (`GET /e-<n>`), so every way of putting M1's end in the wrong
place changes the sequence of requests the origin sees (E missing / E extra / M2 mutated / body cut).

Oracle: `ref_delimit()` below, a reference written from RFC 9112/9110 only.  It computes the single
most lenient delimitation L that uses nothing but RFC-sanctioned recipient rules (bare LF as line end,
bare CR / NUL -> SP, obs-fold -> SP, whitespace-preceded first line dropped, equal Content-Length
values collapsed, Transfer-Encoding overrides Content-Length, empty list elements) and stops with
"reject" where no sanctioned rule yields a boundary.  Since rejecting is always allowed, the set of
permitted outcomes is { every prefix of L followed by stop }.  Squid's upstream request sequence
(method, target, decoded body) must be such a prefix; upstream heads must not carry CL+TE or two CLs.
"""
import re

from vverif import lockstep as ls
from vverif import httpref
from vverif.lsutil import RetryWorld
from vverif.core import Result, Violation, HarnessError

LEVEL = 'exploration'

# ------------------------------------------------------------------ reference (RFC 9112 / RFC 9110 only)

TOKEN_RE = re.compile(rb"^[!#$%&'*+\-.^_`|~0-9A-Za-z]+$")
RL_WS = b' \t\x0b\x0c\r'          # RFC 9112 3: lenient request-line whitespace: SP, HTAB, VT, FF, bare CR
TCODING_RE = re.compile(rb"^([!#$%&'*+\-.^_`|~0-9A-Za-z]+)((?:[ \t]*;[ \t]*[!#$%&'*+\-.^_`|~0-9A-Za-z]+"
                        rb"(?:[ \t]*=[ \t]*(?:[!#$%&'*+\-.^_`|~0-9A-Za-z]+|\"[^\"\\\x00-\x1f]*\"))?)*)$")


def ref_message(data, pos):
    """One message starting at data[pos:].  Returns a dict:
       kind 'end' | 'incomplete' | 'reject' (reason, blame) | 'msg' (method, target, version, framing, body,
       complete, next, close_after)."""
    # RFC 9112 2.2: a server SHOULD ignore at least one empty line received prior to the request-line
    while True:
        if data[pos:pos + 2] == b'\r\n':
            pos += 2
        elif data[pos:pos + 1] == b'\n':
            pos += 1
        else:
            break
    if pos >= len(data):
        return {'kind': 'end'}
    lines = []
    p = pos
    while True:
        e = data.find(b'\n', p)          # RFC 9112 2.2: MAY recognize a single LF as a line terminator ...
        if e < 0:
            return {'kind': 'incomplete'}
        line = data[p:e]
        if line.endswith(b'\r'):         # ... and ignore any preceding CR
            line = line[:-1]
        p = e + 1
        if lines and line == b'':
            break
        lines.append(line)
    head_end = p
    # request-line: lenient whitespace-delimited words (RFC 9112 3)
    words = [w for w in re.split(b'[' + re.escape(RL_WS) + b']+', lines[0]) if w]
    if len(words) != 3 or not TOKEN_RE.match(words[0]) or not re.match(rb'^HTTP/1\.[01]$', words[2]):
        return {'kind': 'reject', 'reason': 'bad request-line %r' % lines[0][:60], 'blame': 'reqline'}
    if re.search(rb'[\x00-\x20\x7f]', words[1]):
        return {'kind': 'reject', 'reason': 'bad request-target', 'blame': 'reqline'}
    method, target, version = words
    fields = []       # [name_lower, value]
    for raw in lines[1:]:
        # RFC 9112 2.2 (bare CR) and RFC 9110 5.5 (CR, LF, NUL in field values): reject, or replace with SP
        ln = raw.replace(b'\r', b' ').replace(b'\0', b' ')
        if ln[:1] in (b' ', b'\t'):
            if not fields:
                continue          # RFC 9112 2.2: whitespace-preceded line after the start-line: reject or consume
            fields[-1][1] += b' ' + ln.strip(b' \t')       # RFC 9112 5.2: obs-fold -> SP (or reject)
            continue
        if b':' not in ln:
            return {'kind': 'reject', 'reason': 'header line without colon %r' % raw[:40], 'blame': 'line'}
        n, v = ln.split(b':', 1)
        if not TOKEN_RE.match(n):
            # includes whitespace between field name and colon: RFC 9112 5.1 MUST reject with 400
            return {'kind': 'reject', 'reason': 'bad field name %r' % n[:40], 'blame': 'name:' + n.strip().lower().decode('latin1')}
        fields.append([n.lower(), v])
    te = [v.strip(b' \t') for n, v in fields if n == b'transfer-encoding']
    cl = [v.strip(b' \t') for n, v in fields if n == b'content-length']
    m = {'kind': 'msg', 'method': method, 'target': target, 'version': version, 'close_after': False,
         'had_cl': bool(cl), 'had_te': bool(te)}
    rest = data[head_end:]
    if te:
        names = []
        for el in b','.join(te).split(b','):
            el = el.strip(b' \t')
            if not el:
                continue              # RFC 9110 5.6.1.2: recipients accept empty list elements
            mm = TCODING_RE.match(el)
            if not mm:
                return {'kind': 'reject', 'reason': 'Transfer-Encoding element %r is not a transfer-coding' % el[:30], 'blame': 'te'}
            names.append(mm.group(1).lower())
        # RFC 9112 6.3 rule 4: chunked must be the final coding of a request, else 400 + close;
        # RFC 9112 6.1: chunked MUST NOT be applied more than once
        if not names or names[-1] != b'chunked' or names.count(b'chunked') != 1:
            return {'kind': 'reject', 'reason': 'Transfer-Encoding %r does not end in exactly one chunked' % te, 'blame': 'te'}
        # RFC 9112 6.3 rule 3: Transfer-Encoding overrides Content-Length (whatever its value)
        dm = httpref.Msg()
        k = httpref._decode_chunked(rest, dm)
        m['framing'] = 'chunked'
        m['body'] = dm.body
        if dm.error:
            m['complete'] = False
            m['body_error'] = dm.error
            m['next'] = len(data)
        elif k is None:
            m['complete'] = False
            m['next'] = len(data)
        else:
            m['complete'] = True
            m['next'] = head_end + k
        # RFC 9112 6.1: an HTTP/1.0 message with Transfer-Encoding has faulty framing: close after processing it
        if version == b'HTTP/1.0':
            m['close_after'] = True
        return m
    if cl:
        vals = set()
        for v in cl:
            for item in v.split(b','):
                item = item.strip(b' \t')
                if not re.match(rb'^[0-9]+$', item):
                    # RFC 9112 6.3 rule 5: invalid Content-Length without TE is an unrecoverable error
                    return {'kind': 'reject', 'reason': 'invalid Content-Length %r' % v[:40], 'blame': 'cl'}
                vals.add(int(item))
        if len(vals) != 1:
            return {'kind': 'reject', 'reason': 'conflicting Content-Length values %r' % cl, 'blame': 'cl'}
        n = vals.pop()
        m['framing'] = 'cl'
        m['body'] = rest[:n]
        m['complete'] = len(rest) >= n
        m['next'] = head_end + min(n, len(rest))
        return m
    m['framing'] = 'none'
    m['body'] = b''
    m['complete'] = True
    m['next'] = head_end
    return m


def ref_delimit(stream):
    """The lenient RFC-sanctioned delimitation L of the whole stream: list of 'msg' dicts + a terminal dict."""
    out = []
    pos = 0
    while True:
        m = ref_message(stream, pos)
        if m['kind'] != 'msg':
            return out, m
        out.append(m)
        if not m['complete']:
            return out, {'kind': 'incomplete'}
        pos = m['next']


# ------------------------------------------------------------------ the input space

def cl_variants(N, K):
    v, k = b'%d' % N, b'%d' % K
    C = b'Content-Length'
    return [
        ('absent', []),
        ('plain', [C + b': ' + v]),
        ('dup-equal', [C + b': ' + v, C + b': ' + v]),
        ('dup-differ', [C + b': ' + v, C + b': ' + k]),
        ('dup-differ-rev', [C + b': ' + k, C + b': ' + v]),
        ('list-equal', [C + b': ' + v + b', ' + v]),
        ('list-differ', [C + b': ' + v + b',' + k]),
        ('list-differ-rev', [C + b': ' + k + b', ' + v]),
        # a harmless duplicate in front of the conflicting value (a scan that stops at the first duplicate misses it)
        ('list-dup-then-differ', [C + b': ' + v + b', ' + v + b', ' + k]),
        ('field-then-list-dup-differ', [C + b': ' + v, C + b': ' + v + b', ' + k]),
        ('list-differ-then-dup', [C + b': ' + v + b', ' + k + b', ' + v]),
        ('plus-sign', [C + b': +' + v]),
        ('leading-zero', [C + b': 0' + v]),
        ('ows-padded', [C + b': \t ' + v + b' \t ']),
        ('obs-fold', [C + b':\r\n ' + v]),
        ('sp-before-colon', [C + b' : ' + v]),
        ('cr-inside-digits', [C + b': ' + v[:1] + b'\r' + v[1:]]),
        ('cr-before-value', [C + b':\r' + v]),
        ('nul-inside-digits', [C + b': ' + v[:1] + b'\0' + v[1:]]),
        ('nul-after', [C + b': ' + v + b'\0']),
        ('hex', [C + b': 0x%x' % N]),
        ('two-pow-63', [C + b': 9223372036854775808']),
        ('two-pow-64-plus', [C + b': %d' % (2 ** 64 + N)]),
        ('minus-sign', [C + b': -' + v]),
        ('semicolon', [C + b': ' + v + b';']),
        ('vt-prefixed', [C + b': \x0b' + v]),
        ('ff-suffixed', [C + b': ' + v + b'\x0c']),
        ('empty', [C + b':']),
    ]


def te_variants():
    T = b'Transfer-Encoding'
    return [
        ('absent', []),
        ('chunked', [T + b': chunked']),
        ('mixed-case', [T + b': Chunked']),
        ('leading-ows', [T + b':  \t chunked']),
        ('chunked-twice', [T + b': chunked, chunked']),
        ('gzip-chunked', [T + b': gzip, chunked']),
        ('identity', [T + b': identity']),
        ('obs-fold', [T + b':\r\n chunked']),
        ('xchunked', [T + b': xchunked']),
        ('param', [T + b': chunked;q=1']),
        ('sp-before-colon', [T + b' : chunked']),
        ('tab-before-colon', [T + b'\t: chunked']),
        ('two-fields', [T + b': chunked', T + b': chunked']),
        ('vt-prefixed', [T + b': \x0bchunked']),
        ('ff-suffixed', [T + b': chunked\x0c']),
        ('chunked-identity', [T + b': chunked, identity']),
        ('empty-element', [T + b': , chunked']),
    ]


TERMS = ['crlf', 'lf', 'crcrlf', 'cr-line-before', 'cr-line-after']
LAYOUTS = ['A', 'B', 'C']
NORMAL_CL = ('absent', 'plain')
NORMAL_TE = ('absent', 'chunked')
CL_NAMES = [n for n, _ in cl_variants(1, 2)]
TE_NAMES = [n for n, _ in te_variants()]


def all_cases(quick, nshards):
    """Deterministic case list.  quick = single-anomaly subset: at most one of {CL, TE, terminator} is anomalous."""
    per = {'on': [], 'off': []}
    n = 1000
    for layout in LAYOUTS:
        for cl in CL_NAMES:
            for te in TE_NAMES:
                for term in TERMS:
                    anomalies = (cl not in NORMAL_CL) + (te not in NORMAL_TE) + (term != 'crlf')
                    for method in ('GET', 'POST'):
                        for ver in ('1.1', '1.0'):
                            for relaxed in ('on', 'off'):
                                n += 1
                                if quick and anomalies > 1:
                                    continue
                                per[relaxed].append({'n': n, 'layout': layout, 'cl': cl, 'te': te, 'term': term,
                                                     'method': method, 'ver': ver, 'relaxed': relaxed})
    # relaxed_header_parser is a configuration item: shards [0, nshards/2) run an "on" instance, the others "off".
    # run_cases deals item i to shard i % nshards, so lay the list out accordingly.
    half = nshards // 2
    out = []
    ion = ioff = 0
    while ion < len(per['on']) or ioff < len(per['off']):
        for s in range(nshards):
            src, idx = ('on', ion) if s < half else ('off', ioff)
            if idx < len(per[src]):
                out.append(per[src][idx])
            else:
                out.append(None)
            if s < half:
                ion += 1
            else:
                ioff += 1
    while out and out[-1] is None:
        out.pop()
    return out, len(per['on']) + len(per['off'])


def build_stream(case, host, url):
    """-> (stream bytes, dict of parts)."""
    n = case['n']
    H = host.encode()
    E = b'GET ' + url('/e-%d' % n).encode() + b' HTTP/1.1\r\nHost: ' + H + b'\r\n\r\n'
    M2 = b'GET ' + url('/m2-%d' % n).encode() + b' HTTP/1.1\r\nHost: ' + H + b'\r\n\r\n'
    if case['layout'] == 'A':
        body = b'0\r\n\r\n' + E        # chunked reading: empty body, then E is the next request; CL=N reading: all of it is body
        K = 5                         # a conflicting length that ends exactly after the last-chunk
    elif case['layout'] == 'B':
        body = E                      # no-body reading: E is the next request; CL=N reading: E is the body; not a chunked body
        K = 0
    else:
        body = b'%x\r\n' % len(E) + E + b'\r\n0\r\n\r\n'     # chunked reading: E is the (decoded) body; CL=N reading: all of it is body
        K = 0
    N = len(body)
    cl = dict(cl_variants(N, K))[case['cl']]
    te = dict(te_variants())[case['te']]
    term = case['term']
    eol = {'crlf': b'\r\n', 'lf': b'\n', 'crcrlf': b'\r\r\n'}.get(term, b'\r\n')
    lines = [('%s %s HTTP/%s' % (case['method'], url('/m1-%d' % n), case['ver'])).encode(), b'Host: ' + H]
    if case['ver'] == '1.0':
        lines.append(b'Connection: keep-alive')      # otherwise Squid closes after M1 and nothing after it can be observed
    if term == 'cr-line-before':
        lines.append(b'\r')
    lines += cl + te
    if term == 'cr-line-after':
        lines.append(b'\r')
    head = b''.join(l + eol for l in lines) + (b'\n' if term == 'lf' else b'\r\n')
    return head + body + M2, {'E': E, 'M2': M2, 'body': body, 'N': N, 'K': K}


# ------------------------------------------------------------------ one execution

_seen_keys = {}        # per process (= per shard): violation key -> n of the first case that showed it


def make_world_for(ctx, shard, relaxed):
    w = RetryWorld(ctx, 'w%d' % shard, ls.port_base_for_check(ctx.pid, shard),
                 conf='relaxed_header_parser %s\n' % relaxed)
    w.relaxed = relaxed
    return w


def drive(w, stream, max_steps=60):
    """Send the whole pipeline, run the world to quiescence.  Returns (client Conn, Exchange)."""
    ex = ls.Exchange()
    c = w.sq.client()
    c.send(stream)

    def responder(m):
        body = b'R:' + m.target
        return ('HTTP/1.1 200 OK\r\nDate: %s\r\nContent-Length: %d\r\nCache-Control: no-store\r\n\r\n' % (
            ls.http_date(w.sq.now_us), len(body))).encode('latin1') + body
    idle = 0
    for _ in range(max_steps):
        w.sq.settle()
        progressed = w._origin_step(responder, ex)
        if c.pump():
            progressed = True
        if progressed:
            idle = 0
        else:
            idle += 1
            if idle >= 2:
                break
    return c, ex


def head_problems(raw_head):
    """Framing hygiene of one upstream request head (raw bytes up to and including the blank line)."""
    probs = []
    names = []
    for ln in raw_head.split(b'\r\n')[1:]:
        if b':' in ln:
            nm, val = ln.split(b':', 1)
            names.append((nm.strip().lower(), val.strip()))
    cls = [v for n, v in names if n == b'content-length']
    tes = [v for n, v in names if n == b'transfer-encoding']
    if len(cls) > 1:
        probs.append('more than one Content-Length upstream: %r' % cls)
    if cls and tes:
        probs.append('both Content-Length and Transfer-Encoding upstream: %r %r' % (cls, tes))
    if cls and not re.match(rb'^[0-9]+$', cls[0]):
        probs.append('non-canonical Content-Length upstream: %r' % cls[0])
    if tes and [t.lower() for t in tes] != [b'chunked']:
        probs.append('upstream Transfer-Encoding is not exactly chunked: %r' % tes)
    if b'\0' in raw_head or re.search(rb'\r(?!\n)', raw_head) or re.search(rb'(?<!\r)\n', raw_head):
        probs.append('NUL / bare CR / bare LF in upstream head')
    return probs


def blame_key(case, term):
    """Which input dimension the reference blames for its verdict -> the part of the case that identifies the class
    (plus the parser mode, which selects different code paths in Squid)."""
    b = term.get('blame', '')
    if b == 'te' or b == 'name:transfer-encoding':
        return 'te=%s,relaxed=%s' % (case['te'], case['relaxed'])
    if b == 'cl' or b == 'name:content-length':
        return 'cl=%s,relaxed=%s' % (case['cl'], case['relaxed'])
    return 'cl=%s,te=%s,term=%s' % (case['cl'], case['te'], case['term'])


def judge(case, stream, parts, fwd, leftovers, client_bytes, client_eof, base):
    """-> (L, terminal, text of the reference verdict, [(kind, key-suffix, text)]).  base: the origin's URL prefix
    (the client uses absolute-form targets, Squid sends origin-form upstream: compared after stripping it)."""
    L, term = ref_delimit(stream)
    for m in L:
        if m['target'].startswith(base + b'/'):
            m['target'] = m['target'][len(base):]
    vio = []
    desc = lambda m: '%s %s body[%d]' % (m['method'].decode('latin1'), m['target'].decode('latin1')[-12:], len(m['body']))
    fdesc = lambda m: '%s %s body[%d]' % (m.method.decode('latin1'), m.target.decode('latin1')[-12:], len(m.body))
    refs = '[%s] then %s' % (', '.join(desc(m) + ('' if m['complete'] else ' (incomplete)') for m in L),
                             term['kind'] + (': ' + term['reason'] if term['kind'] == 'reject' else ''))
    for i, f in enumerate(fwd):
        if i >= len(L):
            key = blame_key(case, term) if term['kind'] == 'reject' else 'cl=%s,te=%s,term=%s' % (case['cl'], case['te'], case['term'])
            vio.append(('unsanctioned-request', key,
                        'upstream request #%d (%s) corresponds to no message of the strict delimitation: reference = %s' % (i + 1, fdesc(f), refs)))
            break
        m = L[i]
        if (f.method, f.target) != (m['method'], m['target']):
            vio.append(('wrong-request', 'cl=%s,te=%s,term=%s' % (case['cl'], case['te'], case['term']),
                        'upstream request #%d is %s but the strict delimitation has %s there: reference = %s' % (i + 1, fdesc(f), desc(m), refs)))
            break
        if not m['complete'] or f.body != m['body']:
            vio.append(('wrong-body', 'cl=%s,te=%s,term=%s' % (case['cl'], case['te'], case['term']),
                        'upstream request #%d (%s) has a complete body of %d bytes, the strict delimitation gives it %d bytes%s: reference = %s' % (
                            i + 1, fdesc(f), len(f.body), len(m['body']), '' if m['complete'] else ' and no end', refs)))
            break
        if m['close_after'] and len(fwd) > i + 1:
            vio.append(('http10-te-connection-reused', 'any-te-accepted-as-chunked',
                        'M1 is an HTTP/1.0 request with Transfer-Encoding (RFC 9112 6.1: framing faulty, MUST close the connection after '
                        'processing it), yet Squid went on reading the connection and forwarded %s' % fdesc(fwd[i + 1])))
            break
    # partially forwarded request (head complete, body not): must be the next message of L, body so far a prefix
    nfull = len(fwd)
    for raw in leftovers:
        pm = httpref.parse_request(raw)
        if not pm.head_complete or pm.error and pm.framing is None and not pm.method:
            vio.append(('unparsable-upstream', 'cl=%s,te=%s,term=%s' % (case['cl'], case['te'], case['term']),
                        'upstream bytes are not a request a strict parser understands: %r (%s)' % (raw[:120], pm.error)))
            continue
        if nfull >= len(L):
            key = blame_key(case, term) if term['kind'] == 'reject' else 'cl=%s,te=%s,term=%s' % (case['cl'], case['te'], case['term'])
            vio.append(('unsanctioned-request', key,
                        'partially forwarded upstream request (%s) corresponds to no message of the strict delimitation: reference = %s' % (fdesc(pm), refs)))
            continue
        m = L[nfull]
        if (pm.method, pm.target) != (m['method'], m['target']) or not m['body'].startswith(pm.body):
            vio.append(('wrong-request', 'cl=%s,te=%s,term=%s' % (case['cl'], case['te'], case['term']),
                        'partially forwarded upstream request (%s) does not match the strict delimitation (%s): reference = %s' % (fdesc(pm), desc(m), refs)))
    return L, term, refs, vio


def run_case(w, case):
    if case is None:
        return {'outcome': 'pad', 'violation': None, 'transcript': ''}
    if case['relaxed'] != w.relaxed:
        raise HarnessError('case %r dealt to a relaxed_header_parser %s instance' % (case, w.relaxed))
    stream, parts = build_stream(case, w.hostport(), w.url)
    c, ex = drive(w, stream)
    client_bytes, client_eof = c.inbuf, c.eof
    fwd = list(ex.origin_requests)
    leftovers = [oc.raw[oc.parsed_upto:] for oc in w.oconns if len(oc.raw) > oc.parsed_upto]
    raw_heads = []
    for oc in w.oconns:
        pos = 0
        for m in oc.requests:
            e = oc.raw.find(b'\r\n\r\n', pos)
            raw_heads.append(oc.raw[pos:e + 4])
            pos += m.consumed
        if len(oc.raw) > oc.parsed_upto and b'\r\n\r\n' in oc.raw[oc.parsed_upto:]:
            raw_heads.append(oc.raw[oc.parsed_upto:oc.raw.find(b'\r\n\r\n', oc.parsed_upto) + 4])
    # let the client go away and make sure nothing else is forwarded afterwards
    c.close()
    w.sq.settle(1)
    late = ls.Exchange()
    w._origin_step(None, late)
    late_raw = late.origin_raw
    w.close_origin_conns()

    L, term, refs, vio = judge(case, stream, parts, fwd, leftovers, client_bytes, client_eof, w.url('').encode())
    cls = 'cl=%s,te=%s,term=%s' % (case['cl'], case['te'], case['term'])
    for h in raw_heads:
        for p in head_problems(h):
            vio.append(('upstream-head', cls, p))
    if late_raw:
        vio.append(('forwarded-after-client-close', cls, 'bytes forwarded upstream after the client had gone: %r' % late_raw[:100]))
    resps, rest = httpref.parse_responses(client_bytes, ['GET'] * 8, eof=client_eof)
    statuses = [r.status for r in resps if r.status]
    oks = [r for r in resps if r.status == 200 and r.complete]
    # every 200 the client gets is the origin's answer to the forwarded request in the same position
    for i, r in enumerate(oks):
        if i >= len(fwd) or r.body != b'R:' + fwd[i].target:
            vio.append(('response-mismatch', cls, 'response #%d on the client connection (%r) is not the answer to forwarded request #%d' % (i + 1, r.body[:60], i + 1)))
            break
    ncomplete = len([m for m in L if m['complete']])
    stopped_early = len(fwd) < ncomplete
    if stopped_early and not client_eof and not leftovers:
        # Squid neither forwarded the next well-delimited message nor closed: it must not sit on an open connection
        # with bytes it will reinterpret later
        vio.append(('stalled-open', cls, 'Squid forwarded %d of %d delimited messages, did not close the client connection '
                    'and has unread pipeline bytes (statuses %r): reference = %s' % (len(fwd), ncomplete, statuses, refs)))
    # outcome class
    errs = [s for s in statuses if s >= 400]
    if len(fwd) == 0:
        oc = 'rejected-M1(%s)' % (errs[0] if errs else ('closed' if client_eof else 'no-answer'))
    elif stopped_early or leftovers:
        oc = 'forwarded-%d-then-stopped(%s)' % (len(fwd), errs[0] if errs else ('closed' if client_eof else 'open'))
    else:
        oc = 'forwarded-all-%d(ref:%s)' % (len(fwd), term['kind'])
    if L and L[0].get('had_cl') and L[0].get('had_te') and len(fwd) > 1:
        # RFC 9112 6.1 also wants the connection closed after a request that carried both CL and TE; boundaries agree
        # (TE overrides CL), so this is recorded as an observation, not as a violation of C03
        oc += '[CL+TE:connection-kept]'
    transcript = b'O:' + ex.origin_raw + b'\nC:' + client_bytes + (b'\nEOF' if client_eof else b'')
    violation = None
    if vio:
        kind, ksuf, text = vio[0]
        key = '%s:%s' % (kind, ksuf)
        oc = 'VIOLATION:' + key
        first = _seen_keys.setdefault(key, case['n'])
        if first == case['n']:
            violation = '%s [case layout=%s cl=%s te=%s term=%s %s HTTP/%s relaxed_header_parser=%s; client sent %r]' % (
                text, case['layout'], case['cl'], case['te'], case['term'], case['method'], case['ver'], case['relaxed'],
                stream[:stream.find(parts['body'])][:400] if parts['body'] in stream else stream[:300])
            case = dict(case)
            case['_key'] = key
    info = {'fwd': len(fwd), 'ref': len(L), 'refterm': term['kind'], 'statuses': statuses, 'eof': client_eof,
            'had_cl_te': bool(L and L[0].get('had_cl') and L[0].get('had_te'))}
    return {'outcome': oc, 'violation': violation, 'transcript': transcript, 'key': (vio[0][0] + ':' + vio[0][1]) if vio else None, 'info': info}


def key_of(case):
    # run_cases asks for the key after run_case returned: the violation's identity is the (kind, blamed class) pair
    return _last_key.get(case['n'] if case else -1, 'case:%r' % (case,))


_last_key = {}


def run_case_recording(w, case):
    r = run_case(w, case)
    if case is not None and r.get('key'):
        _last_key[case['n']] = r['key']
    return r


ASSUME = ['the real squid binary (ASan build of the current tree) runs under the lock-step/virtual-time shim; client and origin are played by the driver',
          'the reference delimiter (ref_delimit in checks/C03.py, ~150 lines, written from RFC 9112 sections 2.2, 3, 5, 6, 7 and RFC 9110 5.5/5.6.1/8.6) is trusted; '
          'rejecting is always permitted, so the permitted outcomes are the prefixes of its single most lenient delimitation',
          'the whole pipeline is written to the client socket at once; segmentation of the client stream is not varied here (C21/C02/C05 do that)',
          'header order is fixed (Host, [Connection], Content-Length field(s), Transfer-Encoding field(s)); pipeline_prefetch is at its default']
RULE = ('product of 25 Content-Length variants x 17 Transfer-Encoding variants x 5 line-terminator styles x {GET,POST} x {HTTP/1.1,1.0} x '
        'relaxed_header_parser {on,off} x 3 body layouts (body = "0 CRLF CRLF" + embedded request / the embedded request alone / the embedded request as one chunk + last-chunk), each followed by a '
        'pipelined marker request; quick = cases with at most one anomalous dimension; non-trivial = cases in which Squid took a framing decision that '
        'is visible to the oracle: at least one request forwarded upstream, or M1 refused with a 4xx/5xx answer')


def run(ctx):
    ls.build_squid(ctx)
    nshards = max(2, ctx.ncpu - ctx.ncpu % 2)
    cases, total = all_cases(ctx.quick, nshards)
    half = nshards // 2

    def make_world(c, shard):
        return make_world_for(c, shard, 'on' if shard < half else 'off')
    r = ls.run_cases(ctx, cases, run_case_recording, make_world, key_of=key_of, nshards=nshards, determinism_n=10)
    oc = dict(r['outcomes'])
    pads = oc.pop('pad', 0)
    evaluations = r['evaluations'] - pads
    forwarded_all = sum(v for k, v in oc.items() if k.startswith('forwarded-all'))
    fwd_some = sum(v for k, v in oc.items() if k.startswith('forwarded-'))
    rejected = sum(v for k, v in oc.items() if k.startswith('rejected-M1(') and k[12:15].isdigit())
    flagged = sum(v for k, v in oc.items() if k.startswith('VIOLATION:'))
    trivial = sum(v for k, v in oc.items() if k.startswith('rejected-M1(') and not k[12:15].isdigit())
    if not r['deadline_hit']:
        if forwarded_all < 100 or rejected < 100:
            raise HarnessError('vacuity guard: forwarded-all=%d rejected=%d of %d cases: %r' % (forwarded_all, rejected, evaluations, oc))
        if not any(k.startswith('forwarded-all-3') for k in oc) or not any(k.startswith('forwarded-all-2') for k in oc):
            raise HarnessError('vacuity guard: the embedded request never arrived legitimately (chunked) or never stayed body (CL): %r' % oc)
    vio = [Violation(k, what, {'case': c}) for k, what, c in r['violations']]
    obs = ['squid problem during %s: %s' % (k, what[:300]) for k, what, c in r['crashes']]
    vio += [Violation('crash:cl=%s,te=%s,term=%s' % (c['cl'], c['te'], c['term']), 'squid crashed/asserted during case %r: %s' % (c, what), {'case': c})
            for k, what, c in r['crashes'] if c]
    # written-out samples: a fixed handful of cases re-run on one more instance (the per-shard samples of
    # run_cases are all "first case of a shard" and look alike)
    want = [('plain', 'absent', 'crlf', '1.1'), ('plain', 'chunked', 'crlf', '1.1'), ('dup-differ', 'absent', 'crlf', '1.1'),
            ('list-equal', 'absent', 'crlf', '1.1'), ('absent', 'vt-prefixed', 'crlf', '1.1'), ('plain', 'absent', 'lf', '1.1'),
            ('absent', 'chunked', 'crlf', '1.0'), ('obs-fold', 'absent', 'crlf', '1.1')]
    picked = []
    for wcl, wte, wterm, wver in want:
        for c in cases:
            if c and (c['cl'], c['te'], c['term'], c['ver'], c['layout'], c['method'], c['relaxed']) == (wcl, wte, wterm, wver, 'A', 'POST', 'on'):
                picked.append(c)
                break
    samples = []
    if picked and ctx.remaining() > 30:
        w = make_world_for(ctx, 0, 'on')
        w.start()
        try:
            for c in picked:
                rr = run_case(w, c)
                stream, parts = build_stream(c, w.hostport(), w.url)
                L, term = ref_delimit(stream)
                samples.append({'case': {k: c[k] for k in ('layout', 'cl', 'te', 'term', 'method', 'ver', 'relaxed')},
                                'client_sent_M1_head': repr(stream[:stream.find(parts['body'])]),
                                'then': 'body %r + pipelined marker request' % (parts['body'][:24] + b'...'),
                                'reference': '%s then %s' % ([(m['method'].decode(), m['target'].decode()[-9:], m['framing'], len(m['body'])) for m in L],
                                                             term['kind'] + (': ' + term.get('reason', '') if term['kind'] == 'reject' else '')),
                                'squid': rr['outcome'], 'client_saw_statuses': rr['info']['statuses']})
        finally:
            w.stop()
    if not samples:
        samples = [{'case': smp['case'], 'squid': smp['outcome']} for smp in r['samples'] if smp.get('case')]
    cov = {'evaluations': evaluations, 'distinct_nontrivial': fwd_some + rejected + flagged, 'rule': RULE, 'samples': samples,
           'outcome_classes': oc, 'exhaustive': not r['deadline_hit'] and evaluations == total, 'kicks': r['kicks'],
           'determinism_replays': r['replays'], 'cases_total': total, 'trivial': trivial,
           'space': 'single-anomaly subset' if ctx.quick else 'full product'}
    return Result(LEVEL, cov, vio, ASSUME, obs)


def replay(ctx, data):
    ls.build_squid(ctx)
    case = {k: v for k, v in data['case'].items() if not k.startswith('_')}
    w = make_world_for(ctx, 0, case['relaxed'])
    w.start()
    try:
        r = run_case(w, case)
        print(r['transcript'].decode('latin1'))
        print('outcome:', r['outcome'], r['info'])
    finally:
        w.stop()
    v = [Violation(r['key'], r['violation'] or r['outcome'], data)] if r['key'] else []
    return Result(LEVEL, {}, v, ASSUME)
