"""C19 SMP workers share cache entries consistently — E3 (SMP lock-step), schedule exploration.

The real squid binary (ASan) runs as master + 2 workers + rock disker + coordinator (shared memory cache and a
shared rock cache_dir), every kid parked in its own slot of the lock-step driver; each worker has its own
http_port, so the driver decides which worker a client talks to.  An execution is a scenario script of driver
actions (client A on worker 1 / client B on worker 2 send a request, the origin sends a part of a response)
plus the kid steps: at every point the enabled set is {kids whose epoll set has ready descriptors (probed without
running them)} + {the next driver action}.  Default = keep running the same kid, then the other ready kids in a
fixed order, the next driver action only when all kids are quiescent; the explorer enumerates every choice list
with <= N deviations from that default (iterative preemption bounding).

Oracle: every client-side response with complete framing that carries the marker of version v has exactly v's
complete body (period-251 pattern seeded by version), consistent marker headers, and v was completely sent by
the origin; a response never mixes versions; after the PURGE response was delivered no response carries a
version that was fetched before the PURGE was sent.  Visibly cut transfers and Squid-generated errors are tolerated.
"""
import os
import re
import shutil
import time

from vverif import lockstep as ls
from vverif import lssmp
from vverif import lsexplore as ex
from vverif import httpref
from vverif.core import Result, Violation, HarnessError

LEVEL = 'model_checking'
CONF = 'acl VPurge method PURGE\nhttp_access allow VPurge\nretry_on_error off\n'
# (the default icon_directory of lockstep.Squid makes every kid log ~100 missing-icon errors at start-up)
SIZES = {'slot+1': 4000, '1page': 30000, '3pages': 90000}
MAX_STEPS = 600


# ------------------------------------------------------------------------------------------------ scenarios

# A driver action: (name, kind, args).  Kinds:
#   ('send', client, op)         client 'A' (worker 1) / 'B' (worker 2) / 'C' (probe, worker given by args) sends GET / RELOAD / PURGE
#   ('origin', n, part)          the origin sends part 'all' | 'head+half' | 'rest' of the response to the n-th fetch it has received
#   ('wait', client)             guard only: enabled once that client's response is complete
SCENARIOS = {
    # A stores, then B reads (B may be early when the explorer lets the driver act before the kids are quiescent)
    'store-read': [('A.get', 'send', ('A', 1, 'G')), ('O1.all', 'origin', (1, 'all')), ('B.get', 'send', ('B', 2, 'G')),
                   ('C.get', 'send', ('C', 1, 'G'))],
    # B reads while A is still receiving: the origin pauses in the middle of the body
    'read-during-write': [('A.get', 'send', ('A', 1, 'G')), ('O1.head+half', 'origin', (1, 'head+half')), ('B.get', 'send', ('B', 2, 'G')),
                          ('O1.rest', 'origin', (1, 'rest')), ('C.get', 'send', ('C', 2, 'G'))],
    # A refreshes to v2 while B reads v1 (v1 was primed through worker 1 before the schedule starts)
    'refresh': [('A.reload', 'send', ('A', 1, 'R')), ('O*.head+half', 'origin', (0, 'head+half')), ('B.get', 'send', ('B', 2, 'G')),
                ('O*.rest', 'origin', (0, 'rest')), ('C.get', 'send', ('C', 2, 'G'))],
    # A purges while B reads (v1 primed); then a probe through the other worker
    'purge': [('B.get', 'send', ('B', 2, 'G')), ('A.purge', 'send', ('A', 1, 'P')), ('A.purged', 'wait', ('A',)),
              ('C.get', 'send', ('C', 2, 'G')), ('D.get', 'send', ('D', 1, 'G'))],
    # two writers for the same URL: both workers miss at the same time
    'two-writers': [('A.get', 'send', ('A', 1, 'G')), ('B.get', 'send', ('B', 2, 'G')), ('O1.head+half', 'origin', (1, 'head+half')),
                    ('O2.all', 'origin', (2, 'all')), ('O1.rest', 'origin', (1, 'rest')), ('C.get', 'send', ('C', 2, 'G')), ('D.get', 'send', ('D', 1, 'G'))],
}
PRIMED = ('refresh', 'purge')


STORES = {'shm': 'cache_mem 8 MB\nmemory_cache_shared on\nmaximum_object_size_in_memory 1 MB\n',     # shared memory cache + rock
          'rock': 'cache_mem 0\n'}                                                                      # rock only: every hit goes through the disker


QUICK_BOUND2 = {('purge', 'off', 'shm')}
THOROUGH_BOUND2_1PAGE = {('purge', 'off', 'shm')}


THOROUGH_BOUND3 = set()        # (purge/off/shm at <= 3 deviations is ~3500 executions: affordable only on an idle machine)


def cases_for(tier):
    """Each case: scenario x size x origin framing x collapsed_forwarding x store, with its preemption bound."""
    quick = tier == 'quick'
    out = []
    for sc in ('store-read', 'read-during-write', 'refresh', 'purge', 'two-writers'):
        for sz in ('slot+1', '1page', '3pages'):
            for fr in ('cl', 'chunked'):
                for cf in ('off', 'on'):
                    for st in ('shm', 'rock'):
                        if fr == 'chunked' and sc not in ('read-during-write', 'two-writers'):
                            continue                      # framing only matters while the response is being received
                        if quick and fr == 'chunked' and (cf == 'off' or sz != 'slot+1'):
                            continue
                        if quick and sz == '3pages':
                            continue
                        if quick and sz == '1page' and (st == 'rock' or sc in ('store-read', 'two-writers')):
                            continue
                        if quick:
                            bound = 2 if (sz == 'slot+1' and fr == 'cl' and (sc, cf, st) in QUICK_BOUND2) else 1
                        else:
                            key = (sc, cf, st)
                            if sz == 'slot+1':
                                bound = 3 if (fr == 'cl' and key in THOROUGH_BOUND3) else 2
                            elif sz == '1page':
                                bound = 2 if (fr == 'cl' and key in THOROUGH_BOUND2_1PAGE) else 1
                            else:
                                bound = 1
                        out.append({'scenario': sc, 'size': sz, 'framing': fr, 'cf': cf, 'store': st, 'bound': bound})
    return out


def case_name(c):
    return '%s/%s/%s/cf-%s/%s' % (c['scenario'], c['size'], c['framing'], c['cf'], c.get('store', 'shm'))


# ------------------------------------------------------------------------------------------------ environment

class World:
    def __init__(self, ctx, name, port_base, cf, store='shm', step=True):
        self.step = step
        conf = CONF + STORES[store] + ('collapsed_forwarding on\n' if cf == 'on' else '')
        self.sq = lssmp.SmpSquid(ctx, name, port_base, workers=2, cache_dir='rock %s 16 slot-size=4096', memory_cache=True, conf=conf)
        # an empty mime table: five ASan processes that each load ~100 icons into their store dominate the start-up time
        empty = os.path.join(self.sq.dir, 'mime.empty')
        open(empty, 'w').close()
        self.sq.conf_extra += self.sq.per_worker_ports_conf() + 'icon_directory %s/icons\nmime_table %s\n' % (ctx.tree, empty)
        self.origin_port = port_base + 1
        self.origin = ls.Listener(self.origin_port)
        self.cf = cf

    def start(self):
        tmpl = os.path.join(self.sq.ctx.rundir, 'rock-template')
        if os.path.exists(os.path.join(tmpl, '.vinit')):
            # a rock db created once per run (make_template) saves one ASan process start per instance
            shutil.copytree(tmpl, self.sq.cache_path, dirs_exist_ok=True)
        self.sq.start()
        log = self.sq.cache_log()
        for n in (1, 2):
            if ':%d ' % self.sq.worker_port(n) not in log:
                raise HarnessError('worker %d does not listen on its own port: %s' % (n, log[-600:]))
        self.sq.step_mode(self.step)
        return self

    def stop(self):
        try:
            self.sq.cleanup()
        finally:
            self.origin.close()


def make_template(ctx):
    """Create an empty rock db (squid -N -z) once; every instance of this run starts from a copy of it."""
    tmpl = os.path.join(ctx.rundir, 'rock-template')
    shutil.rmtree(tmpl, ignore_errors=True)
    w = World(ctx, 'tmpl', ls.port_base_for_check(ctx.pid, 16, 1), 'off', 'shm')
    try:
        w.sq.write_conf()
        w.sq._chown()
        w.sq.init_cache()
        shutil.copytree(w.sq.cache_path, tmpl)
        open(os.path.join(tmpl, '.vinit'), 'w').close()
    finally:
        w.stop()


class Fetch:
    def __init__(self, conn, msg, v):
        self.c, self.msg, self.v = conn, msg, v
        self.sent = 0             # 0 nothing, 1 head+half, 2 everything
        self.wire = None
        self.cut = None
        self.reload = False


class Client:
    def __init__(self, name, worker, op):
        self.name, self.worker, self.op = name, worker, op
        self.c = None
        self.sent_step = None
        self.versions_started_at_send = 0
        self.done_step = None
        self.overlap = False


class Run:
    def __init__(self, w, case, uid):
        self.w, self.sq, self.case = w, w.sq, case
        self.path = '/c19/%s' % uid
        self.salt = sum(uid.encode()) % 97
        self.size = SIZES[case['size']]
        self.script = SCENARIOS[case['scenario']]
        self.pos = 0
        self.clients = {}
        self.oconns = []
        self.fetches = []
        self.complete = set()
        self.tr = []
        self.facts = set()
        self.bad = None
        self.step = 0
        self.purge_sent_versions = None    # versions whose fetch had started when the PURGE was sent
        self.purge_done_step = None
        self.fetch_worker = {}             # version -> worker whose client caused the fetch (best effort: last client sent before it arrived)
        self.last_sender = None

    # ---- origin content
    def body(self, v):
        return httpref.body_pattern(v, self.size, self.salt)

    def wire(self, v):
        h = ['HTTP/1.1 200 OK', 'X-Verif-First: f%d' % v, 'Date: ' + ls.http_date(self.sq.now_us), 'Content-Type: application/octet-stream',
             'Cache-Control: max-age=86400', 'Last-Modified: ' + ls.http_date(self.sq.now_us - 10 * 86400 * 1_000_000), 'ETag: "f%d"' % v]
        b = self.body(v)
        if self.case['framing'] == 'cl':
            h.append('Content-Length: %d' % len(b))
            wb = b
            cut = len(b) // 2
        else:
            h.append('Transfer-Encoding: chunked')
            half = len(b) // 2
            first = httpref.chunk_encode(b[:half], [half])[:-5]
            wb = first + httpref.chunk_encode(b[half:], [len(b) - half])
            cut = len(first)
        h.append('X-Verif-Last: f%d' % v)
        head = ('\r\n'.join(h) + '\r\n\r\n').encode('latin1')
        return head + wb, len(head) + cut

    def request_bytes(self, op, worker=0):
        method = 'PURGE' if op == 'P' else 'GET'
        r = '%s http://127.0.0.1:%d%s HTTP/1.1\r\nHost: 127.0.0.1:%d\r\n' % (method, self.w.origin_port, self.path, self.w.origin_port)
        if op == 'R':
            r += 'Cache-Control: no-cache\r\n'
        if worker:
            r += 'X-Verif-Worker: %d\r\n' % worker          # end-to-end header: tells the origin which worker forwarded the fetch
        return (r + '\r\n').encode()

    # ---- passive observation after every step
    def pump(self):
        for c in self.w.origin.accept_all():
            self.oconns.append(ls.OriginConn(c, len(self.oconns)))
        for oc in self.oconns:
            if oc.c.closed:
                continue
            if oc.c.pump():
                oc.raw += oc.c.inbuf
                oc.c.inbuf = b''
                while True:
                    m = httpref.parse_request(oc.raw[oc.parsed_upto:])
                    if m.error:
                        self.bad = ('origin-request-malformed', 'origin received a malformed request: %s' % m.error)
                        break
                    if not m.complete or m.consumed <= 0:
                        break
                    oc.parsed_upto += m.consumed
                    f = Fetch(oc.c, m, len(self.fetches) + 1)
                    f.reload = 'no-cache' in (m.get('cache-control') or '')
                    f.wire, f.cut = self.wire(f.v)
                    self.fetches.append(f)
                    via = m.get('x-verif-worker')
                    if via:
                        self.fetch_worker[f.v] = int(via)
            if oc.c.eof and not oc.c.closed:
                oc.c.close()
        for cl in self.clients.values():
            if cl.c is not None and not cl.c.closed:
                cl.c.pump()
                if cl.done_step is None:
                    if cl.op == 'G' and cl.c.inbuf and not cl.overlap:
                        mv = re.search(rb'X-Verif-First: f(\d+)', cl.c.inbuf[:600])
                        if mv and int(mv.group(1)) not in self.complete and int(mv.group(1)) <= len(self.fetches):
                            cl.overlap = True
                            if cl.worker != self.fetch_worker.get(int(mv.group(1)), cl.worker):
                                self.facts.add('reader-overlapped-writer')
                    m = httpref.parse_response(cl.c.inbuf, 'GET', eof=cl.c.eof)
                    if (m.complete and not m.error and m.framing != 'close') or cl.c.eof:
                        cl.done_step = self.step
                        if cl.op == 'P':
                            self.purge_done_step = self.step

    def scripted_fetch(self, n):
        """The fetch a scripted origin action refers to: n-th fetch, or (n == 0) the first fetch that is a reload."""
        if n == 0:
            for f in self.fetches:
                if f.reload:
                    return f
            return None
        return self.fetches[n - 1] if len(self.fetches) >= n else None

    def unscripted(self):
        """Fetches that no later scripted origin action will answer."""
        named = set()
        for name, kind, args in self.script[self.pos:]:       # entries already passed (done or skipped) no longer claim a fetch
            if kind == 'origin':
                f = self.scripted_fetch(args[0])
                if f is not None:
                    named.add(f.v)
        return [f for f in self.fetches if f.v not in named and f.sent < 2]

    # ---- driver actions
    def next_action(self):
        """(label, callable) of the next enabled driver action or None.  Unscripted fetches are answered first."""
        un = self.unscripted()
        if un:
            f = un[0]
            return 'O%d.auto' % f.v, lambda: self.origin_send(f, 'all')
        while self.pos < len(self.script):
            name, kind, args = self.script[self.pos]
            if kind == 'send':
                return name, lambda: self.client_send(*args)
            if kind == 'origin':
                f = self.scripted_fetch(args[0])
                if f is None:
                    # the fetch never came (e.g. B was served from the cache): skip when everything is quiescent
                    return None
                if (args[1] == 'rest' and f.sent != 1) or (args[1] != 'rest' and f.sent != 0):
                    self.pos += 1
                    continue
                return name, lambda: self.origin_send(f, args[1])
            if kind == 'wait':
                cl = self.clients.get(args[0])
                if cl is not None and cl.done_step is not None:
                    self.pos += 1
                    continue
                return None
        return None

    def skip_blocked(self):
        """All kids are quiescent and the next scripted action's guard does not hold: drop it (recorded in the transcript)."""
        if self.pos < len(self.script):
            self.tr.append('skip %s' % self.script[self.pos][0])
            self.facts.add('skipped:' + self.script[self.pos][0])
            self.pos += 1
            return True
        return False

    def client_send(self, name, worker, op):
        cl = Client(name, worker, op)
        import socket
        s = socket.socket(socket.AF_INET, socket.SOCK_STREAM)
        s.connect(('127.0.0.1', self.sq.worker_port(worker)))
        cl.c = ls.Conn(s)
        cl.sent_step = self.step
        cl.versions_started_at_send = len(self.fetches)
        if op == 'P':
            self.purge_sent_versions = len(self.fetches)
        if self.purge_done_step is not None:
            cl.after_purge = True
        if op == 'P' and any(c.op == 'G' and c.done_step is None for c in self.clients.values()):
            self.facts.add('purge-while-reading')
        cl.c.send(self.request_bytes(op, worker))
        self.clients[name] = cl
        self.pos += 1

    def origin_send(self, f, part):
        if part == 'all':
            data = f.wire[:] if f.sent == 0 else f.wire[f.cut:]
            f.sent = 2
        elif part == 'head+half':
            data = f.wire[:f.cut]
            f.sent = 1
        else:
            data = f.wire[f.cut:]
            f.sent = 2
        off = 0
        # loopback socket buffers take several hundred KB; our largest response is < 100 KB
        while off < len(data):
            if f.c.closed or f.c.reset:
                break
            n = f.c.send(data[off:])
            f.c.sent = b''
            if n == 0:
                raise HarnessError('origin could not deliver %d bytes to squid in one step' % len(data))
            off += n
        if f.sent == 2 and not (f.c.closed or f.c.reset):
            self.complete.add(f.v)
        if self.pos < len(self.script) and self.script[self.pos][1] == 'origin' and self.scripted_fetch(self.script[self.pos][2][0]) is f:
            self.pos += 1

    # ---- oracle
    def judge(self, cl):
        c = cl.c
        method = 'PURGE' if cl.op == 'P' else 'GET'
        m = httpref.parse_response(c.inbuf, method, eof=c.eof)
        if cl.op == 'P':
            return 'purge:%s' % (m.status if m.head_complete else 'none'), None
        if not m.head_complete and not m.error:
            return ('closed-without-response' if c.eof else 'no-response'), None
        if m.error:
            return 'malformed', ('malformed', 'client %s received a malformed response: %s: %r' % (cl.name, m.error, c.inbuf[:200]))
        cs = (m.get('cache-status') or '').lower()
        hit = bool(re.search(r';\s*hit\b', cs))
        first = m.get('x-verif-first')
        mv = re.match(r'^f(\d+)$', first or '')
        if mv is None:
            if m.status >= 400:
                return 'error-%d' % m.status, None
            return 'unmarked-%d' % m.status, ('unmarked', 'client %s received a %d response without the marker of any origin response: %r' % (cl.name, m.status, c.inbuf[:300]))
        v = int(mv.group(1))
        tag = ('hit:' if hit else 'miss:') + 'v%d' % v
        if v > len(self.fetches):
            return tag + ':unknown', ('unknown-version', 'client %s received marker f%d but the origin saw only %d fetches' % (cl.name, v, len(self.fetches)))
        want = self.body(v)
        if m.get('x-verif-last') != first or m.get('etag') != '"f%d"' % v:
            return tag + ':header-mix', ('header-mix', 'client %s: header fields of different versions mixed: %r %r %r' % (cl.name, first, m.get('x-verif-last'), m.get('etag')))
        if getattr(cl, 'after_purge', False) and self.purge_sent_versions is not None and v <= self.purge_sent_versions:
            return tag + ':PURGED', ('served-after-purge', 'client %s (worker %d) sent its request after the PURGE response had been delivered and was served version %d, '
                                     'which had been fetched before the PURGE was sent (%s)' % (cl.name, cl.worker, v, 'Cache-Status: ' + cs if cs else 'no Cache-Status'))
        presented_complete = m.complete and (m.framing != 'close' or c.eof)
        if not presented_complete:
            if not want.startswith(m.body):
                self.facts.add('cut-transfer-with-foreign-bytes')
            return tag + (':cut-visibly' if c.eof else ':pending'), None
        if m.body == want:
            if v not in self.complete:
                return tag + ':complete-before-origin', ('complete-before-origin', 'client %s has a complete copy of version %d, which the origin has not finished sending' % (cl.name, v))
            return tag + ':complete', None
        if want.startswith(m.body):
            return tag + ':SHORT-AS-COMPLETE', ('short-as-complete:%s' % m.framing, 'client %s (worker %d, %s) received a TRUNCATED body presented as complete: %d of %d bytes of version %d, framing %s' % (
                cl.name, cl.worker, 'hit' if hit else 'miss', len(m.body), len(want), v, m.framing))
        d = next((i for i in range(min(len(want), len(m.body))) if want[i] != m.body[i]), min(len(want), len(m.body)))
        others = [u for u in range(1, len(self.fetches) + 1) if u != v and self.body(u)[d:len(m.body)] == m.body[d:]]
        return tag + ':WRONG-BODY', ('wrong-body', 'client %s (worker %d, %s) received, with complete framing, %d bytes that differ from version %d (%d bytes) from offset %d on%s' % (
            cl.name, cl.worker, 'hit' if hit else 'miss', len(m.body), v, len(want), d, (' and continue as version %d (mix of two versions)' % others[0]) if others else ''))

    def check(self):
        if self.bad:
            return self.bad
        self.tags = {}
        for name in sorted(self.clients):
            tag, v = self.judge(self.clients[name])
            self.tags[name] = tag
            if v:
                return v
        return None

    def snap(self, label, ready):
        self.tr.append('%s | ready %s | clients %s | fetches %s' % (label, ','.join(ready) or '-', ' '.join(
            '%s:%d%s' % (n, len(cl.c.inbuf), 'e' if cl.c.eof else '') for n, cl in sorted(self.clients.items())),
            ' '.join('f%d:%d' % (f.v, f.sent) for f in self.fetches)))


def prime(w, run):
    """Store version 1 through worker 1 with the default schedule (not part of the explored execution)."""
    run.client_send('P0', 1, 'G')
    run.pos -= 1
    for _ in range(200):
        w.sq.settle_all()
        run.pump()
        if run.fetches and run.fetches[0].sent == 0:
            run.origin_send(run.fetches[0], 'all')
            continue
        if run.clients['P0'].done_step is not None:
            break
    cl = run.clients.pop('P0')
    tag, v = run.judge(cl)
    cl.c.close()
    w.sq.settle_all()
    run.pump()
    if tag != 'miss:v1:complete':
        raise HarnessError('priming transaction failed: %s %r' % (tag, cl.c.inbuf[:200]))


def execute(w, case, choices, uid):
    run = Run(w, case, uid)
    sq = w.sq
    ch = ex.Chooser(choices)
    states, nact, v = [], 0, None
    try:
        if case['scenario'] in PRIMED:
            prime(w, run)
        last = None
        while v is None:
            run.step += 1
            if run.step > MAX_STEPS:
                raise HarnessError('execution does not end: %s %r' % (case_name(case), run.tr[-6:]))
            ready = sq.ready()
            act = run.next_action()
            if not ready and act is None:
                if run.skip_blocked():
                    continue
                break
            opts = [r for r in ready if r == last] + [r for r in ready if r != last]
            if act is not None:
                opts.append('D:' + act[0])
            if len(opts) > 1:
                states.append(ex.h64(case_name(case), '\n'.join(run.tr)))
                pick = opts[ch.choose(len(opts), '/'.join(opts))]
            else:
                pick = opts[0]
            if pick.startswith('D:'):
                act[1]()
                last = None
            else:
                sq.run_kid(pick)
                last = pick
            nact += 1
            run.pump()
            run.snap(pick, ready)
            v = run.check()
        if v is None:
            run.snap('end', [])
            v = run.check()
    finally:
        for cl in run.clients.values():
            if cl.c is not None:
                cl.c.close()
        for oc in run.oconns:
            oc.c.close()
        sq.settle_all()
        for c in w.origin.accept_all():
            c.close()
    tags = getattr(run, 'tags', {})
    if len(run.fetches) >= 2 and case['scenario'] == 'two-writers':
        run.facts.add('two-fetches')
    stuck = sorted(n for n, t in tags.items() if t == 'no-response' or t.endswith(':pending'))
    for n, t in tags.items():
        run.facts.add('tag:' + re.sub(r'v\d+', 'v', t))
        if t.startswith('hit:') and run.clients[n].worker == 2:
            run.facts.add('worker2-hit')
        if t.startswith('hit:') and run.clients[n].worker == 1 and case['scenario'] == 'two-writers':
            run.facts.add('worker1-hit')
    return {'violation': v, 'transcript': run.tr, 'states': states, 'transitions': nact, 'chooser': ch, 'facts': sorted(run.facts),
            'fetches': len(run.fetches), 'tags': tags, 'stuck': stuck}


# ------------------------------------------------------------------------------------------------ run

KINDS = [('off', 'shm'), ('on', 'shm'), ('off', 'rock'), ('on', 'rock')]


def make_world(ctx, shard, cf, store):
    k = KINDS.index((cf, store))
    # one block of 20 ports per shard: 4 ports per world kind (squid's shared port, origin, worker 1, worker 2)
    return World(ctx, 's%dk%d' % (shard, k), ls.port_base_for_check(ctx.pid, shard) + 4 * k, cf, store)


ASSUME = ['the real squid binary (ASan build of the current tree) runs as master + 2 workers + disker + coordinator; every kid is parked in its own slot of the '
          'lock-step driver (lib/vshim/vshim_smp.c: vshim + PROBE + step mode) and shares the driver\'s virtual clock; clients and origin are played by the driver',
          'granularity: one kid step = one iteration of that kid\'s event loop (one batch of ready descriptors and the async calls they queue); interleavings inside '
          'one iteration are not explored here (the shared-memory primitives themselves are covered at atomic granularity by C53-C56)',
          'enabled set = kids whose epoll set has ready descriptors (probed with a zero-timeout epoll_wait, level-triggered, nothing consumed) + the next driver action; '
          'virtual time stands still during an execution, so no timer becomes due',
          'executions of one shard share a squid instance (fresh URL per execution, instance quiesced and health-checked between executions); the first executions '
          'of the first 8 shards are repeated (thorough: on a second, fresh instance; quick: on the same instance) and must give identical transcripts; violations '
          'are replayed twice (first on a fresh instance); the quick tier uses 8 shards (an SMP instance is 5 ASan processes)',
          'Squid\'s Cache-Status header is used only to count hits (vacuity guards); the oracle itself relies on version markers and the body pattern']


def build(ctx):
    t = time.time()
    ls.build_squid(ctx)
    lssmp.ensure_smp_shim(ctx)
    waited = time.time() - t
    if waited > 20:
        ctx.deadline_s += waited - 20
    make_template(ctx)
    return waited


def _wrap(one, case, ch):
    r = one(case, ch.prefix)
    ch.points = r['chooser'].points
    return r


def _taken(ch):
    return [p[1].split('/')[p[2]] for p in ch.points if p[2]]


def explore_part(run, on_exec, max_dev, part, nparts, t_end):
    """lsexplore.explore() for one part of a case: the subtrees below the first-level deviations are dealt
    round-robin to `nparts` parts (every part re-runs the default execution to learn the choice points; only part 0
    reports it).  Returns dict(executions, stopped, per_bound)."""
    n_exec, per_bound, stopped = 0, {}, None
    ch = ex.Chooser([])
    x = run(ch)
    if part == 0:
        n_exec += 1
        per_bound[0] = 1
        if on_exec(ch, x):
            return {'executions': n_exec, 'stopped': 'on_exec', 'per_bound': per_bound}
    cs = ch.choices()
    level = []
    for i in range(len(ch.points)):
        for alt in range(1, ch.points[i][0]):
            level.append(cs[:i] + [alt])
    level = level[part::nparts] if max_dev >= 1 else []
    k = 1
    while level and not stopped:
        nxt = []
        for prefix in level:
            if time.time() > t_end:
                stopped = 'deadline'
                break
            ch = ex.Chooser(prefix)
            x = run(ch)
            n_exec += 1
            per_bound[k] = per_bound.get(k, 0) + 1
            if len(ch.points) < len(prefix):
                raise HarnessError('replay divergence: execution ended after %d choice points, prefix has %d' % (len(ch.points), len(prefix)))
            if on_exec(ch, x):
                stopped = 'on_exec'
                break
            if k + 1 <= max_dev:
                cs = ch.choices()
                for i in range(len(prefix), len(ch.points)):
                    for alt in range(1, ch.points[i][0]):
                        nxt.append(cs[:i] + [alt])
        level = nxt
        k += 1
    return {'executions': n_exec, 'stopped': stopped, 'per_bound': per_bound}


def order_cases(cases, nshards):
    """Deal the cases so that (when nshards is a multiple of 4) every shard needs only one kind of instance."""
    by = {k: [] for k in KINDS}
    for c in cases:
        by[(c['cf'], c['store'])].append(c)
    weight = lambda c: -((3 if c['size'] == '3pages' else 2 if c['size'] == '1page' else 1) ** c['bound'] * (2 if c['store'] == 'rock' else 1))
    for k in by:
        by[k].sort(key=lambda c: (weight(c), case_name(c)))
    for k in by:
        units = []
        for c in by[k]:
            if c['bound'] <= 1:
                nparts = 3 if c['size'] == '3pages' else 1
            elif c['bound'] == 2:
                nparts = 4 if c['size'] == 'slot+1' else 12
            else:
                nparts = 16
            for part in range(nparts):
                u = dict(c)
                u['part'], u['nparts'] = part, nparts
                units.append(u)
        by[k] = units
    out = []
    while all(by.values()):                 # aligned rounds: shard i only sees instance kind i % 4
        for k in KINDS:
            out.append(by[k].pop(0))
    rest = []
    while any(by.values()):                 # the (lighter) remainder of the longer lists goes to whoever is next
        for k in KINDS:
            if by[k]:
                rest.append(by[k].pop(0))
    return out + rest


def run(ctx):
    build_s = build(ctx)
    cases = cases_for(ctx.tier)
    dealt = order_cases(cases, ctx.ncpu)
    t_end = ctx.t0 + ctx.deadline_s - (25 if ctx.quick else 60)

    def worker(shard, mine):
        mine = [c for c in mine if c is not None]
        out = {'cases_done': [], 'execs': 0, 'states': set(), 'transitions': 0, 'violations': [], 'facts': {}, 'kicks': 0, 'probes': 0, 'replays': 0,
               'samples': [], 'crashes': [], 'deadline': False, 'per_case': {}, 'bounds': {}, 'starts': 0, 'stuck': []}
        st = {'w': {}, 'n': 0}

        def fresh(kind):
            if st['w'].get(kind) is not None:
                out['kicks'] += st['w'][kind].sq.kicks
                out['probes'] += st['w'][kind].sq.probes
                st['w'][kind].stop()
                st['w'][kind] = None
            for attempt in range(2):
                w = make_world(ctx, shard, *kind)
                try:
                    w.start()
                    break
                except HarnessError:
                    w.stop()
                    if attempt:
                        raise
                except BaseException:
                    w.stop()
                    raise
            out['starts'] += 1
            st['w'][kind] = w

        def one(case, choices):
            kind = (case['cf'], case['store'])
            if st['w'].get(kind) is None:
                fresh(kind)
            st['n'] += 1
            r = execute(st['w'][kind], case, choices, 's%02dn%06d' % (shard, st['n']))
            hp = st['w'][kind].sq.health_problems()
            if hp:
                r['crash'] = hp
                fresh(kind)
            return r
        try:
            if mine and shard < 2 * len(KINDS):
                # determinism obligation: the first executions of this shard's first case twice -- thorough tier: on two
                # separate instances (two shards per instance kind; an SMP instance start is expensive); quick tier: on
                # the same instance with fresh URLs
                runs = []
                for rep in range(2):
                    got = []
                    ex.explore(lambda ch: _wrap(one, mine[0], ch), lambda ch, r: got.append((list(ch.choices()), r['transcript'], r['tags'])) and False,
                               max_exec=4, max_dev=1)
                    runs.append(got)
                    out['replays'] += len(got)
                    if rep == 0 and not ctx.quick:
                        fresh((mine[0]['cf'], mine[0]['store']))
                        st['n'] = 0
                if runs[0] != runs[1]:
                    bad = next((a, b) for a, b in zip(runs[0], runs[1]) if a != b)
                    raise HarnessError('nondeterminism: %s %r gave different transcripts on two instances:\n%r\n%r' % (case_name(mine[0]), bad[0][0], bad[0][1:], bad[1][1:]))
            for case in mine:
                if time.time() > t_end:
                    out['deadline'] = True
                    break
                cn = case_name(case)

                def on(ch, r):
                    out['execs'] += 1
                    out['states'].update(r['states'])
                    out['transitions'] += r['transitions']
                    for f in r['facts']:
                        kf = '%s:%s' % (case['scenario'], f)
                        out['facts'][kf] = out['facts'].get(kf, 0) + 1
                    key = tuple(ch.choices())
                    if r.get('crash'):
                        out['crashes'].append((cn, list(key), '; '.join(r['crash'])[:2000]))
                    if r.get('stuck') and len(out['stuck']) < 3:
                        out['stuck'].append('%s choices %r (deviations %s): client(s) %s still without a complete response when every kid was quiescent and no action was left: %r' % (
                            cn, list(key), _taken(ch), ','.join(r['stuck']), r['tags']))
                    if len(out['samples']) < 1 and out['execs'] % 23 == 3:
                        out['samples'].append({'case': cn, 'deviations': _taken(ch), 'clients': r['tags'], 'origin_requests': r['fetches'],
                                               'schedule': [l.split(' | ')[0] for l in r['transcript']]})
                    if r['violation']:
                        k0, what = r['violation']
                        k = '%s/%s/cf-%s/%s:%s' % (case['scenario'], case['framing'], case['cf'], case['store'], k0)
                        if not any(k == kk for kk, _, _ in out['violations']):
                            for attempt in range(2):
                                if attempt == 0:
                                    fresh((case['cf'], case['store']))
                                r2 = one(case, list(key))
                                out['replays'] += 1
                                if not r2['violation'] or r2['violation'][0] != k0:
                                    raise HarnessError('violation not reproducible: %s %r: %s / replay gave %r' % (cn, list(key), what, r2['violation']))
                            out['violations'].append((k, '%s, deviations from the default schedule %s: %s' % (cn, _taken(ch), what), {'case': case, 'choices': list(key)}))
                        if len(out['violations']) >= 6:
                            return True
                    return False
                res = explore_part(lambda ch: _wrap(one, case, ch), on, case['bound'], case['part'], case['nparts'], t_end)
                out['per_case']['%s#%d' % (cn, case['part'])] = res['executions']
                if res['stopped'] is None:
                    out['cases_done'].append('%s#%d' % (cn, case['part']))
                elif res['stopped'] == 'on_exec':
                    break
                else:
                    out['deadline'] = True
                    break
        finally:
            for w_ in st['w'].values():
                if w_ is not None:
                    out['kicks'] += w_.sq.kicks
                    out['probes'] += w_.sq.probes
                    w_.stop()
        out['states'] = list(out['states'])
        return out

    try:
        parts = ls.run_sharded(ctx, worker, dealt, nshards=min(ctx.ncpu, 8) if ctx.quick else None)
    finally:
        shutil.rmtree(os.path.join(ctx.rundir, 'rock-template'), ignore_errors=True)
    states = set()
    tot = {'transitions': 0, 'kicks': 0, 'probes': 0, 'replays': 0, 'execs': 0, 'starts': 0}
    facts, vio, crashes, samples, per_case, done, bounds, stuck = {}, {}, [], [], {}, [], {}, []
    deadline = False
    for p in parts:
        if p is None:
            continue
        states.update(p['states'])
        for k in tot:
            tot[k] += p[k]
        deadline = deadline or p['deadline']
        for k, n in p['facts'].items():
            facts[k] = facts.get(k, 0) + n
        for k, what, rp in p['violations']:
            vio.setdefault(k, (what, rp))
        crashes += p['crashes']
        stuck += p['stuck']
        samples += p['samples']
        for k, n in p['per_case'].items():
            per_case[k.split('#')[0]] = per_case.get(k.split('#')[0], 0) + n
        done += p['cases_done']
    nunits = len([u for u in dealt if u is not None])
    complete = len(done) == nunits
    violations = [Violation(k, what, rp) for k, (what, rp) in sorted(vio.items())]
    obs = ['stuck transaction (not a C19 violation; virtual time is frozen, so no timeout could resolve it): ' + x for x in stuck[:6]]
    seen_crash = set()
    for name, choices, what in crashes:
        ck = 'crash:' + '/'.join(name.split('/')[:1])
        if ck not in seen_crash:
            seen_crash.add(ck)
            obs.append('squid crashed/asserted during %s %r: %s' % (name, choices, what[:600]))
            violations.append(Violation(ck, 'squid crashed/asserted during %s %r (every transaction in flight is lost): %s' % (name, choices, what), {'case': None}))
    if complete and not violations:
        need = {'store-read:worker2-hit': 20, 'read-during-write:reader-overlapped-writer': 20, 'refresh:tag:hit:v:complete': 20,
                'purge:tag:miss:v:complete': 20, 'purge:purge-while-reading': 1, 'two-writers:two-fetches': 10}
        miss = {f: facts.get(f, 0) for f, n in need.items() if facts.get(f, 0) < n}
        if miss:
            raise HarnessError('vacuity guard: too few executions with %r (all: %r)' % (miss, facts))
    cov = {
        'states': len(states), 'transitions': tot['transitions'], 'traces_validated_against_impl': tot['execs'],
        'cases': len(cases), 'cases_completed': len(done), 'max_executions_in_one_case': max(per_case.values()) if per_case else 0,
        'bound_completed': ({'preemption_bound_per_case': {b: sum(1 for c in cases if c['bound'] == b) for b in sorted(set(c['bound'] for c in cases))}}
                            if complete else 'partial: %d of %d work units (parts of cases) completed their bound' % (len(done), nunits)),
        'exhaustive': complete and not deadline, 'kid_steps_and_kicks': tot['kicks'], 'probes': tot['probes'], 'instance_starts': tot['starts'],
        'determinism_replays': tot['replays'], 'facts': facts, 'build_step_s': round(build_s, 1),
        'rule': 'case = scenario {A stores then B reads; B reads while A receives; A reloads to v2 while B reads; A purges while B reads; two writers} x size {4000, 30000, 90000} '
                'x origin framing x collapsed_forwarding {off,on} x store {shared memory cache + rock, rock only}; per case every choice list with <= bound deviations from the '
                'default schedule over {run ready kid w1|w2|disk|coord for one event-loop iteration, next driver action}',
        'samples': samples[:5], 'executions_per_case_sample': dict(sorted(per_case.items())[:12]),
        'deterministic': True,
    }
    return Result(LEVEL, cov, violations, ASSUME, obs)


def replay(ctx, data):
    build(ctx)
    if not data.get('case'):
        raise HarnessError('this replay file records a crash; re-run the tier to reproduce')
    case = data['case']
    w = make_world(ctx, 0, case['cf'], case.get('store', 'shm'))
    try:
        w.start()
        r = execute(w, case, data['choices'], 's00n000001')
        print('\n'.join(r['transcript']))
        print('clients:', r['tags'], 'origin requests:', r['fetches'])
        hp = w.sq.health_problems()
        if hp:
            print('squid problems:', hp)
    finally:
        w.stop()
    v = []
    if r['violation']:
        k = '%s/%s/cf-%s/%s:%s' % (case['scenario'], case['framing'], case['cf'], case.get('store', 'shm'), r['violation'][0])
        v.append(Violation(k, r['violation'][1], data))
    return Result(LEVEL, {}, v, ASSUME)
