"""C02 Request bodies reach the origin byte-exactly with valid framing — E3, bounded input product.

The real (ASan) squid binary runs in lock-step between a driver-played client and a driver-played
origin.  Every case is one POST/PUT whose body (period-251 pattern) is sent with Content-Length or
chunked coding, cut into pieces at enumerated offsets, with or without Expect: 100-continue, complete
or abandoned by the client at an enumerated offset.  The oracle is a strict, independent HTTP/1.x
request parser run over the bytes the origin socket received.
"""
import time

from vverif import bodyrelay as br
from vverif import httpref
from vverif import lockstep as ls
from vverif.core import Result, Violation, HarnessError

LEVEL = 'exploration'

DATE0 = ls.http_date(ls.T0_US)
CONF = 'cache deny all\n'
FINAL = ('HTTP/1.1 200 OK\r\nDate: %s\r\nContent-Length: 2\r\nCache-Control: no-store\r\n\r\nok' % DATE0).encode('latin1')
CONTINUE = b'HTTP/1.1 100 Continue\r\n\r\n'
PORT_PLACEHOLDER = 10000
BAD_LINES = {'badhex': b'zz\r\n', 'huge': b'fffffffffffffffff\r\n', 'neg': b'-5\r\n', '0x': b'0x5\r\n', 'empty': b'\r\n'}


# ------------------------------------------------------------------ the client's message

def client_message(case, port=PORT_PLACEHOLDER, size=None, path=None):
    """-> (head, payload, body); all ports have 5 digits and the path a fixed width, so lengths do not depend on the shard."""
    size = case['size'] if size is None else size
    body = br.pattern(3, size)
    path = path or ('/p/%07d' % case['n'])
    L = ['%s http://127.0.0.1:%05d%s HTTP/%s' % (case['m'], port, path, case['ver']), 'Host: 127.0.0.1:%05d' % port]
    if case['fr'] == 'cl':
        L.append('Content-Length: %d' % len(body))
        payload = body
    else:
        L.append('Transfer-Encoding: chunked')
        payload = br.chunked(body, case['ck'])
    if case['exp'] != 'none':
        L.append('Expect: 100-continue')
    head = ('\r\n'.join(L) + '\r\n\r\n').encode('latin1')
    return head, payload, body


# ------------------------------------------------------------------ case space

def sizes_B(ctx):
    """Boundary set B: quick up to 64 KB+1; thorough up to 512 KB+1 plus 1 MiB+1 and 4 MiB+3."""
    if ctx.quick:
        return br.boundary_sizes(ctx.tree, 65536)
    return br.boundary_sizes(ctx.tree, 4 << 20, extra=((1 << 20) + 1, (4 << 20) + 3))


def all_cases(ctx):
    T = not ctx.quick
    k = br.tree_constants(ctx.tree)
    limit = (4 << 20) if T else 65536
    B = sizes_B(ctx)
    bnd = br.boundaries(ctx.tree, limit)
    cases = []

    def add(fam, **kw):
        c = {'fam': fam, 'm': 'POST', 'fr': 'cl', 'ck': 'one', 'ver': '1.1', 'exp': 'none', 'cut': None, 'seg': None, 'end': 'close'}
        c.update(kw)
        if c['fr'] != 'chunked':
            c['ck'] = '-'
        c['n'] = len(cases)
        cases.append(c)

    def total_of(base):
        c = dict(base, n=0)
        c.setdefault('ver', '1.1')
        c.setdefault('exp', 'none')
        c.setdefault('m', 'POST')
        h, p, _b = client_message(c)
        return len(h), len(h) + len(p)

    FR_SMALL = [('cl', '-'), ('chunked', 'one'), ('chunked', 'b1'), ('chunked', 'exttrailer')]
    # F1 split: small requests, every 2-piece (T: every 3-piece split of one message per framing) split of the client's stream
    for fr, ck in FR_SMALL:
        for size in ((0, 1, 7) if not T else (0, 1, 2, 7)):
            for exp in ('none', 'nowait'):
                if exp == 'nowait' and size != 7:
                    continue
                base = {'fr': fr, 'ck': ck, 'size': size, 'exp': exp, 'm': 'POST'}
                hl, total = total_of(base)
                for a in range(1, total):
                    add('split2', seg=[a], **base)
    if T:
        for fr, ck in (('cl', '-'), ('chunked', 'halves')):
            base = {'fr': fr, 'ck': ck, 'size': 3, 'm': 'PUT'}
            hl, total = total_of(base)
            for a in range(1, total):
                for b in range(a + 1, total):
                    add('split3', seg=[a, b], **base)
    # F2 prefix: small requests, the client goes away after every proper prefix of its stream
    for fr, ck in FR_SMALL:
        for size in ((1, 7) if not T else (1, 2, 7, 40)):
            for end in (('close', 'rst') if T or size == 7 else ('close',)):
                base = {'fr': fr, 'ck': ck, 'size': size, 'm': 'POST'}
                hl, total = total_of(base)
                for cut in range(0, total):
                    add('prefix', cut=cut, end=end, **base)
    # F3 sizes: method x framing/layout x size in B x Expect mode x completeness, body written in one piece
    FR_BIG = [('cl', '-'), ('chunked', 'one'), ('chunked', 'page'), ('chunked', 'odd')]
    if T:
        FR_BIG += [('chunked', 'exttrailer')]
    for m in ('POST', 'PUT'):
        for fr, ck in FR_BIG:
            for size in B:
                for exp in ('none', 'wait', 'nowait'):
                    for comp in ('full', 'm1', 'half', 'head'):
                        for ver in ('1.1', '1.0'):
                            if ver == '1.0' and (fr != 'cl' or exp != 'none' or m != 'POST'):
                                continue      # HTTP/1.0 has neither chunked nor Expect
                            if comp != 'full' and size == 0 and fr == 'cl':
                                continue      # nothing to cut off
                            if comp == 'head' and exp == 'wait' and size > 2:
                                continue      # == client never answers the 100: one size is enough
                            if not T and m == 'PUT' and (comp in ('m1', 'head') or ck in ('page', 'odd') or exp == 'nowait'):
                                continue      # quick: the full product for POST only
                            if size > (1 << 20) and (m != 'POST' or comp == 'head' or exp == 'nowait'):
                                continue
                            add('sizes', m=m, fr=fr, ck=ck, size=size, exp=exp, cut=comp, ver=ver)
    # F4 bigsplit: large bodies, one cut at every boundary +-1 (stream offsets and body offsets), byte-at-a-time ends
    big_sizes = [k['CLIENT_REQ_BUF_SZ'] + 1, k['read_ahead_gap'] + 1, 65537] + ([2 * 65536 + 1, k['client_request_buffer_max_size'] + 1] if T else [])
    for fr, ck in FR_BIG:
        for size in big_sizes:
            for exp in (('none', 'wait') if T else ('none',)):
                base = {'fr': fr, 'ck': ck, 'size': size, 'm': 'POST', 'exp': exp}
                hl, total = total_of(base)
                pts = set(br.cuts_around(total, [hl] + bnd + [hl + x for x in bnd] + [total - 5, total - 2]))
                for a in sorted(pts):
                    add('bigsplit', seg=[a], **base)
                for seg in ('bytes-first', 'bytes-body-first', 'bytes-last'):
                    add('bigsplit', seg=seg, **base)
                add('bigsplit', seg=sorted(set(br.cuts_around(total, bnd + [hl + x for x in bnd], 0))), **base)
    # F6 corrupt: a chunked body that is well-formed up to the end of its first chunk and malformed after it; Squid must
    # stop relaying there and may not complete the upstream message
    for size in ((2, 8, 2 * k['CLIENT_REQ_BUF_SZ'] + 2, 65538) if not T else (2, 3, 8, 2 * k['CLIENT_REQ_BUF_SZ'] + 2, 65538, 2 * 65536 + 2)):
        for bad in ('badhex', 'huge', 'neg', '0x', 'empty', 'nocrlf'):
            for seg in ('after-first', None):
                for exp in ('none', 'nowait'):
                    add('corrupt', fr='chunked', ck='halves', size=size, bad=bad, seg=seg, exp=exp)
    # F5 sloworigin: Squid's own socket buffers are small (tcp_recv_bufsize), so is the origin's receive buffer, and the
    # origin does not read until everything has come to a standstill: the body has to wait in Squid's BodyPipe / input buffer
    # (BodyPipe capacity is 64 KB: 128 KB+1 is the smallest size in B that overflows pipe + socket buffers)
    slow_sizes = [k['read_ahead_gap'] + 1, 2 * k['read_ahead_gap'] + 1, 65537, 2 * 65536 + 1] + ([k['client_request_buffer_max_size'] + 1, (1 << 20) + 1] if T else [])
    for m in ('POST', 'PUT'):
        for fr, ck in FR_BIG:
            for size in slow_sizes:
                for exp in ('none', 'nowait'):
                    for comp in ('full', 'half'):
                        for drain in ('stall', 'sip'):
                            if drain == 'sip' and size > 2 * 65536 + 1:
                                continue
                            if m == 'PUT' and (exp != 'none' or not T):
                                continue
                            add('sloworigin', m=m, fr=fr, ck=ck, size=size, exp=exp, cut=comp, drain=drain)
    return cases


def describe(c):
    return '%s %s %s/%s size=%d ver=%s expect=%s cut=%s end=%s seg=%s' % (
        c['fam'], c['m'], c['fr'], c['ck'], c['size'], c['ver'], c['exp'], c['cut'], c['end'], c['seg']) + (
        (' drain=' + c['drain']) if c.get('drain') else '') + ((' bad=' + c['bad']) if c.get('bad') else '')


def key_of(c):
    return '%s:%s:%s:expect-%s:%s' % (c['fam'], c['fr'], c['ck'], c['exp'],
                                      ('malformed-' + c['bad']) if c.get('bad') else
                                      'complete' if c['cut'] is None or c['cut'] == 'full' else 'aborted-' + c['end'])


# ------------------------------------------------------------------ one transaction through Squid

class Tx:
    pass


def upstream_state(raw, cache):
    """Cheap incremental view of what the origin has: (head_complete, complete?) with a full strict parse only when
    the message can be complete."""
    if 'hl' not in cache:
        e = raw.find(b'\r\n\r\n')
        if e < 0:
            return None
        m = httpref.parse_request(raw[:e + 4])
        cache['hl'] = e + 4
        cache['headmsg'] = m
    m = cache['headmsg']
    if m.error:
        return m
    if m.framing == 'cl':
        if len(raw) < cache['hl'] + (m.declared_length or 0):
            return m
    elif m.framing == 'chunked':
        if not raw.endswith(b'\r\n\r\n') and not raw.endswith(b'0\r\n\r\n'):
            return m
    return httpref.parse_request(raw)


def transact(w, case, pieces, head_len, then, max_rounds=3000):
    """Client sends `pieces` (one per driver round; in Expect-wait mode the body pieces only after a 100 arrived), then
    performs `then` (None | 'close' | 'rst').  The origin sends 100 Continue when it has a request head that asks for it
    and the final response when it has a complete request.  case['drain'] = 'stall': the origin (small receive buffer)
    reads nothing until everything else has come to a standstill, then drains; 'sip': ... then reads 1 KB per round."""
    sq = w.sq
    t = Tx()
    slow = case.get('drain')
    draining = not slow
    grace = 0
    t.unread_at_standstill = None
    c = sq.client()
    wait100 = case['exp'] == 'wait'
    head_pieces, body_pieces, acc = [], [], 0
    for p in pieces:
        (head_pieces if acc < head_len else body_pieces).append(p)
        acc += len(p)
    feeder = br.Feeder(c, head_pieces if wait100 else pieces, None if wait100 and body_pieces else then)
    phase2 = br.Feeder(c, body_pieces, then) if wait100 and body_pieces else None
    oconns = []
    t.got100 = False
    t.rounds = 0
    t.stalled = False
    t.sent100 = False
    idle = 0
    final_sent = False
    while t.rounds < max_rounds:
        t.rounds += 1
        sq.settle()
        progressed = False
        for oc in w.origin.accept_all():
            oconns.append({'c': oc, 'raw': b'', 'cache': {}, 'eof': False})
            progressed = True
        for o in oconns:
            oc = o['c']
            if oc.closed:
                continue
            if draining and (br.sip(oc, 1024) if slow == 'sip' else oc.pump()):
                progressed = True
                o['raw'] += oc.take()
            if oc.eof:
                if not o['eof']:
                    o['eof'] = True
                    progressed = True
                continue
            if o is oconns[0] and not final_sent:
                m = upstream_state(o['raw'], o['cache'])
                if m is not None and not m.error and m.head_complete:
                    if not t.sent100 and not m.complete and (m.get('expect') or '').lower() == '100-continue':
                        oc.send(CONTINUE)
                        t.sent100 = True
                        progressed = True
                    elif m.complete:
                        oc.send(FINAL)
                        final_sent = True
                        progressed = True
        if c.pump():
            progressed = True
        if not t.got100 and c.inbuf.startswith(b'HTTP/1.1 100 '):
            t.got100 = True
        active = feeder if not feeder.finished else phase2
        if active is feeder or (active is phase2 and phase2 is not None and t.got100):
            if active is not None and not active.finished and not c.closed:
                if active.step():
                    progressed = True
        feeding = (not feeder.finished) or (phase2 is not None and not phase2.finished and t.got100)
        if not feeding and not c.closed:
            r = httpref.parse_response(c.inbuf, case['m'], eof=c.eof)
            if (r.complete and not r.error and r.framing != 'close') or c.eof:
                if not progressed:
                    break
        if c.closed and oconns and all(o['eof'] for o in oconns) and not progressed:
            break                    # client gone and Squid has closed every upstream connection
        if not draining and not progressed:
            draining = True          # standstill: the client is done or blocked and Squid is idle -> origin starts reading
            t.unread_at_standstill = sum(br.unread_bytes(o['c']) for o in oconns if not o['c'].closed)
            progressed = True
        if progressed:
            idle = 0
        else:
            idle += 1
            if idle >= 3:
                if grace < 2 and (slow or then is None):
                    # kernel TCP timers (delayed ACK / window update, ~40 ms) run in real time: before declaring a
                    # standstill in a transaction that is expected to complete, give them a chance to fire
                    grace += 1
                    idle = 0
                    time.sleep(0.06)
                    continue
                t.stalled = feeding
                break
    t.client_bytes = c.inbuf
    t.client_eof = c.eof
    t.client_closed_by_driver = c.closed
    t.body_withheld = phase2 is not None and not t.got100
    t.oconns = oconns
    # what the origin has after the dust settles; then tear down
    t.origin_open = [not o['eof'] for o in oconns]
    c.close()
    sq.settle(1)
    for o in oconns:
        if not o['c'].closed:
            if o['c'].pump():
                o['raw'] += o['c'].take()
            if o['c'].eof:
                o['eof'] = True
    t.origin_open_after_client_close = [not o['eof'] for o in oconns]
    for o in oconns:
        o['c'].close()
    sq.settle(1)
    for oc in w.origin.accept_all():
        oc.close()
    return t


# ------------------------------------------------------------------ oracle

def check_upstream(t, case, path, body, client_complete, sent_body_len):
    """The origin's view.  Returns (class, violation-or-None)."""
    conns = [o for o in t.oconns if o['raw']]
    if not conns:
        if client_complete and not t.body_withheld:
            r = httpref.parse_response(t.client_bytes, case['m'], eof=t.client_eof)
            return 'not-forwarded(status %s)' % (r.status or '-'), ('complete request was never forwarded; client got status %s: %r' % (r.status, t.client_bytes[:120]))
        return 'never-started', None
    if len(conns) > 1:
        return 'several-upstream-connections', 'request bytes on %d origin connections: %r' % (len(conns), [o['raw'][:60] for o in conns])
    o = conns[0]
    raw = o['raw']
    m = httpref.parse_request(raw)
    if m.error:
        return 'malformed', 'upstream bytes are not a well-formed request: %s; %r' % (m.error, raw[:160])
    if not m.head_complete:
        if client_complete and not t.body_withheld:
            return 'partial-head', 'origin received an incomplete request head for a complete client request: %r' % raw[:120]
        return 'partial-head', None if o['eof'] else 'incomplete upstream head and the connection is still open'
    if m.method.decode() != case['m'] or not m.target.endswith(path.encode()):
        return 'wrong-request', 'upstream request line %r' % m.start
    if m.framing == 'none' and len(body) > 0:
        return 'no-framing', 'upstream request has neither Content-Length nor chunked coding but the client sent a %d-byte body: %r' % (len(body), raw[:200])
    cls = '%s>%s' % (case['fr'], m.framing)
    if m.complete:
        if m.consumed != len(raw):
            return cls + ':trailing-bytes', '%d bytes after the end of the framed upstream request: %r' % (len(raw) - m.consumed, raw[m.consumed:m.consumed + 60])
        if m.body == body:
            return cls + ':complete', None
        if client_complete:
            return cls + ':wrong-body', 'origin received a complete request with a wrong body: ' + br.describe_diff(m.body, body)
        return cls + ':short-as-complete', ('client went away after %d of %d body bytes, but the origin received a complete-looking %s request '
                                            'with %d body bytes: %s' % (sent_body_len, len(body), m.framing, len(m.body), br.describe_diff(m.body, body)))
    # incomplete upstream message
    if body[:len(m.body)] != m.body:
        return cls + ':altered-prefix', 'partial upstream body is not a prefix of the client body: ' + br.describe_diff(m.body, body[:len(m.body)])
    if len(m.body) > sent_body_len:
        return cls + ':more-than-sent', 'origin has %d body bytes, client sent only %d' % (len(m.body), sent_body_len)
    if client_complete and not t.body_withheld:
        return cls + ':incomplete', ('client request was complete (%d body bytes) but the upstream message is incomplete: framing %s, %d body bytes, '
                                     'upstream connection %s' % (len(body), m.framing, len(m.body), 'closed' if o['eof'] else 'open'))
    if not o['eof']:
        return cls + ':hang', ('client went away early; the origin has an incomplete %s request (%d body bytes) and Squid left the upstream connection open'
                               % (m.framing, len(m.body)))
    return cls + ':truncated+close', None


def cut_offset(case, head, payload):
    cut = case['cut']
    total = len(head) + len(payload)
    if cut is None or cut == 'full':
        return None
    if cut == 'm1':
        return total - 1
    if cut == 'half':
        return len(head) + len(payload) // 2
    if cut == 'head':
        return len(head)
    return int(cut)


def run_case(w, case):
    runs = w.__dict__.setdefault('vruns', {})
    rep = runs.get(case['n'], 0)
    runs[case['n']] = rep + 1
    path = '/p/%07d' % case['n'] if not rep else '/q/%d%06d' % (rep % 10, case['n'] % 1000000)
    head, payload, body = client_message(case, w.origin_port, path=path)
    stream = head + payload
    cut = cut_offset(case, head, payload)
    sent = stream if cut is None else stream[:cut]
    cuts = br.expand_cuts(None if case.get('bad') else case['seg'], len(sent), len(head))
    if case.get('bad'):
        # chunked body whose first chunk is fine and whose continuation is malformed: Squid has to stop relaying there
        n1 = len(body) - len(body) // 2
        good = head + b'%x\r\n' % n1 + body[:n1]
        if case['bad'] == 'nocrlf':
            sent = good + b'XX' + b'%x\r\n' % (len(body) - n1) + body[n1:] + b'\r\n0\r\n\r\n'
        else:
            good += b'\r\n'
            sent = good + BAD_LINES[case['bad']] + body[n1:] + b'\r\n0\r\n\r\n'
        cuts = [len(good)] if case['seg'] == 'after-first' else []
    if case['exp'] == 'wait' and len(sent) > len(head):
        cuts = sorted(set(cuts + [len(head)]))
    pieces = br.pieces_of(sent, cuts)
    then = None if cut is None else case['end']
    cm = httpref.parse_request(sent)
    client_complete = (cut is None and not case.get('bad')) or (cm.complete and not cm.error and cm.body == body)
    sent_body_len = len(cm.body) if cm.head_complete else 0
    if case.get('bad'):
        if client_complete or sent_body_len > n1:
            raise HarnessError('corrupt case is not corrupt: %s' % describe(case))
        sent_body_len = n1
    t = transact(w, case, pieces, len(head), then)
    if t.stalled:
        raise HarnessError('case %s: client could not send its request (back-pressure never released)' % describe(case))
    cls, violation = check_upstream(t, case, path, body, client_complete, sent_body_len)
    r = httpref.parse_response(t.client_bytes, case['m'], eof=t.client_eof)
    if cut is None and violation is None and not t.body_withheld and not case.get('bad'):
        if not (r.complete and not r.error and r.status == 200 and r.body == b'ok'):
            violation = 'the origin answered 200 "ok" to the complete request but the client got %r' % t.client_bytes[:200]
    if case.get('drain'):
        got = sum(len(o['raw']) for o in t.oconns)
        cls += ' [held-in-squid]' if t.unread_at_standstill is not None and t.unread_at_standstill < got else ' [not-held]'
    outcome = cls + ('' if case['exp'] == 'none' else (' 100=%s' % ('relayed' if t.got100 else ('sent-not-relayed' if t.sent100 else 'not-sent'))))
    if case.get('drain') and not client_complete:
        # how much of an abandoned body made it upstream before the teardown depends on kernel socket-buffer timing
        tr = 'O:%s partial\nC:%s' % (
            ' || '.join(br.mask_head(o['raw'][:o['raw'].find(b'\r\n\r\n') + 4 if b'\r\n\r\n' in o['raw'] else 0]) for o in t.oconns),
            br.mask_head(t.client_bytes[:400]))
        return {'outcome': outcome, 'violation': ('%s -- %s' % (describe(case), violation)) if violation else None, 'transcript': tr}
    tr = 'O:%s body=%d:%s\nC:%s' % (
        ' || '.join(br.mask_head(o['raw'][:o['raw'].find(b'\r\n\r\n') + 4 if b'\r\n\r\n' in o['raw'] else len(o['raw'])]) for o in t.oconns),
        sum(len(o['raw']) for o in t.oconns), br.sha(b''.join(o['raw'] for o in t.oconns)) if case['fr'] == 'cl' else br.sha(httpref.parse_request(b''.join(o['raw'] for o in t.oconns)).body),
        br.mask_head(t.client_bytes[:400]))
    return {'outcome': outcome, 'violation': ('%s -- %s' % (describe(case), violation)) if violation else None, 'transcript': tr}


def make_world(ctx, shard):
    return br.patient_world(ctx, 'w%d' % shard, ls.port_base_for_check(ctx.pid, shard), conf=CONF)


def make_world_small(ctx, shard):
    """Same, but Squid's TCP socket buffers are 4 KB (tcp_recv_bufsize sets both directions) and so is the origin's
    receive buffer: an origin that does not read blocks Squid's upstream writes after a few KB."""
    w = br.patient_world(ctx, 's%d' % shard, ls.port_base_for_check(ctx.pid, shard), conf=CONF + br.SMALLBUF_CONF)
    br.shrink_listener(w.origin)
    return w


def world_maker(case):
    return make_world_small if case['fam'] == 'sloworigin' else make_world


ASSUME = ['the real squid binary (ASan build of the current tree) runs under the lock-step/virtual-time shim; client and origin are played by the driver',
          'one Squid instance per shard is reused for all cases of the shard (unique URL per case, cache deny all); origin connections are closed between cases',
          'oracle = strict RFC 9112 request parser (lib/vverif/httpref.py) over the origin socket bytes',
          'an abandoned request whose body bytes all arrived upstream may be delivered as complete; the origin plays a well-behaved HTTP/1.1 server '
          '(100 Continue when asked, one 200 response after the complete request)']
RULE = ('families: split2/split3 = every 2-/3-piece split of a small client request; prefix = the client closes (FIN or RST) after every proper prefix of a small request; '
        'sizes = method {POST,PUT} x framing/chunk layout x body size in B (0,1,2, buffer boundaries +-1) x Expect {absent, waits for 100, sends at once} x '
        'client version x completeness {full, 1 byte early, halfway, right after the head}; bigsplit = large bodies cut at every boundary +-1 / byte-at-a-time ends. '
        'non-trivial = cases in which Squid forwarded a request head upstream')


def build(ctx):
    # time spent waiting in the shared build lock (other agents' builds) is not exploration time
    import time
    t = time.time()
    ls.build_squid(ctx)
    ctx.deadline_s += max(0.0, time.time() - t - 20)


def run(ctx):
    build(ctx)
    cases = all_cases(ctx)
    r = ls.run_cases(ctx, [c for c in cases if c['fam'] != 'sloworigin'], run_case, make_world, key_of=key_of, determinism_n=10)
    r2 = ls.run_cases(ctx, [c for c in cases if c['fam'] == 'sloworigin'], run_case, make_world_small, key_of=key_of, determinism_n=3, nshards=4)
    r = br.merge_results(r, r2)
    oc = r['outcomes']
    complete = sum(v for k, v in oc.items() if ':complete' in k)
    truncated = sum(v for k, v in oc.items() if ':truncated+close' in k)
    relayed100 = sum(v for k, v in oc.items() if '100=relayed' in k)
    forwarded = sum(v for k, v in oc.items() if '>' in k.split(':')[0])
    held = sum(v for k, v in oc.items() if '[held-in-squid]' in k)
    done = r['evaluations'] == len(cases) and not r['deadline_hit']
    if not r['violations'] and done and held < 20:
        raise HarnessError('vacuity guard: only %d slow-origin cases made the body wait inside Squid: %r' % (held, oc))
    if not r['violations'] and done:
        if complete < len(cases) // 3 or truncated < 20 or relayed100 < 20:
            raise HarnessError('vacuity guard: complete=%d truncated+close=%d 100-relayed=%d of %d cases: %r' % (complete, truncated, relayed100, len(cases), oc))
    vio = [Violation(k, what, {'case': c}) for k, what, c in r['violations']]
    vio += [Violation('crash:' + k, 'squid crashed/asserted during case %s: %s' % (describe(c), what), {'case': c}) for k, what, c in r['crashes']]
    fams = {}
    for c in cases:
        fams[c['fam']] = fams.get(c['fam'], 0) + 1
    samples = [{'case': describe(s['case']), 'outcome': s['outcome']} for s in r['samples']]
    cov = {'evaluations': r['evaluations'], 'distinct_nontrivial': forwarded, 'rule': RULE, 'samples': samples,
           'outcome_classes': oc, 'exhaustive': done, 'kicks': r['kicks'], 'determinism_replays': r['replays'],
           'cases_total': len(cases), 'cases_per_family': fams, 'complete_relays': complete, 'visible_truncations': truncated,
           'continue_relayed': relayed100, 'slow_origin_bodies_held_in_squid': held, 'sizes_B': sizes_B(ctx)}
    return Result(LEVEL, cov, vio, ASSUME)


def replay(ctx, data):
    build(ctx)
    w = world_maker(data['case'])(ctx, 0)
    w.start()
    try:
        r = run_case(w, data['case'])
        print(r['transcript'])
        print('outcome:', r['outcome'])
        hp = w.sq.health_problems()
    finally:
        w.stop()
    v = [Violation(key_of(data['case']), r['violation'], data)] if r['violation'] else []
    if hp:
        v.append(Violation('crash:' + key_of(data['case']), '; '.join(hp)[:2000], data))
    return Result(LEVEL, {}, v, ASSUME)
