"""C20 Successful unsafe requests invalidate cached responses — E3, bounded input product.

Per case (unique URLs, one reused instance with a memory cache per shard):
  prime GET u and GET u2 (cacheable v1 bodies), confirm both are answered from the cache,
  send an unsafe request to u which the origin answers with a chosen status and Location /
  Content-Location, then GET u and GET u2 again while the origin now serves v2 bodies.
Oracle (from the statement): after a non-error (< 400) answer Squid must not serve the v1 body of u
without contacting the origin; the same for u2 when a link header named it (relative reference or
absolute URL with the same host:port).
"""
from vverif import lockstep as ls
from vverif import lsx
from vverif.core import Result, Violation, HarnessError

LEVEL = 'exploration'

METHODS_Q = ['POST', 'PUT', 'DELETE', 'PATCH', 'FOO']
METHODS_T = METHODS_Q + ['MKCOL', 'MOVE', 'PROPPATCH', 'post']
STATUS_Q = [200, 201, 204, 302, 404, 500]
STATUS_T = STATUS_Q + [202, 205, 301, 303, 307, 399, 400, 403, 410, 503]
# link = list of (header, form); forms: abs-path '/cN/b', rel 'b', abs-same 'http://<same host:port>/cN/b',
# other-host 'http://localhost:<port>/cN/b' (different host name, nothing asserted for u2)
LINKS_CORE = [[], [('Location', 'abs-path')], [('Location', 'abs-same')], [('Location', 'other-host')],
              [('Content-Location', 'abs-path')], [('Content-Location', 'abs-same')], [('Content-Location', 'other-host')]]
LINKS_REL = [[('Location', 'rel')], [('Content-Location', 'rel')],
             # a relative reference whose query contains ':' (and '/'): still relative, the first path segment has no colon
             [('Location', 'rel-query-colon')], [('Content-Location', 'rel-query-colon')]]
# further forms, swept (thorough) over a reduced method/status set
LINKS_SWEEP = [[('Location', 'other-host'), ('Content-Location', 'abs-same')],
               [('Location', 'abs-path'), ('Content-Location', 'other-host')],
               [('Location', 'abs-same-lc-name')], [('Content-Location', 'abs-same-ows')],
               [('Location', 'rel-query')], [('Content-Location', 'rel-query')]]
SWEEP_METHODS = ['POST', 'PUT', 'DELETE', 'FOO']
SWEEP_STATUS = [200, 204, 302, 404]
SAME_HOST_FORMS = ('abs-path', 'rel', 'abs-same', 'abs-same-lc-name', 'abs-same-ows', 'rel-query', 'rel-query-colon')
QUERY_OF_FORM = {'rel-query': '?z=1', 'rel-query-colon': '?at=12:30&back=http://elsewhere.example/x'}
PRIME_T = ['plain', 'vary', 'etag']
QUERY_T = ['', '?q=1']

REASON = {200: 'OK', 201: 'Created', 202: 'Accepted', 204: 'No Content', 205: 'Reset Content', 301: 'Moved Permanently',
          302: 'Found', 303: 'See Other', 307: 'Temporary Redirect', 399: 'Odd', 400: 'Bad Request', 403: 'Forbidden',
          404: 'Not Found', 410: 'Gone', 500: 'Internal Server Error', 503: 'Service Unavailable'}


def all_cases(quick):
    cases = []
    n = [1000]

    def add(prime, q, m, st, ln):
        n[0] += 1
        cases.append({'n': n[0], 'method': m, 'status': st, 'link': [list(x) for x in ln], 'prime': prime, 'query': q})
    methods, statuses = (METHODS_Q, STATUS_Q) if quick else (METHODS_T, STATUS_T)
    primes, queries = (['plain'], ['']) if quick else (PRIME_T, QUERY_T)
    for prime in primes:
        for q in queries:
            for m in methods:
                for st in statuses:
                    for ln in LINKS_CORE + LINKS_REL:
                        add(prime, q, m, st, ln)
    if not quick:
        for q in queries:
            for m in SWEEP_METHODS:
                for st in SWEEP_STATUS:
                    for ln in LINKS_SWEEP:
                        add('plain', q, m, st, ln)
    return cases


def make_world(ctx, shard):
    return lsx.RetryWorld(ctx, 'w%d' % shard, ls.port_base_for_check(ctx.pid, shard), memory_cache=True)


def _link_value(w, form, n):
    if form == 'abs-path':
        return '/c%d/b' % n
    if form == 'rel':
        return 'b'
    if form in QUERY_OF_FORM:
        return 'b' + QUERY_OF_FORM[form]
    if form in ('abs-same', 'abs-same-lc-name', 'abs-same-ows'):
        return 'http://%s/c%d/b' % (w.hostport(), n)
    if form == 'other-host':
        return 'http://localhost:%d/c%d/b' % (w.origin_port, n)
    raise HarnessError('form ' + form)


def run_case(w, case):
    n = case['n']
    pu = '/c%d/a%s' % (n, case['query'])
    pu2 = '/c%d/b' % n
    for _, f in case['link']:
        if f in QUERY_OF_FORM:
            pu2 += QUERY_OF_FORM[f]
            break
    tr = []
    version = {'v': 1}
    extra_req = 'X-V: k\r\n' if case['prime'] == 'vary' else ''

    def body_of(path, v):
        return ('v%d:%s' % (v, path)).encode()

    cur = {'path': None}

    def get_responder(m):
        b = body_of(cur['path'], version['v'])
        h = 'HTTP/1.1 200 OK\r\nDate: %s\r\nContent-Length: %d\r\nCache-Control: max-age=3600\r\n' % (ls.http_date(w.sq.now_us), len(b))
        if case['prime'] == 'vary':
            h += 'Vary: X-V\r\n'
        if case['prime'] == 'etag':
            h += 'ETag: "e%d"\r\nLast-Modified: %s\r\n' % (version['v'], ls.http_date(w.sq.now_us - 86400_000_000))
        return (h + '\r\n').encode('latin1') + b

    def get(path, tag):
        cur['path'] = path
        req = 'GET %s HTTP/1.1\r\nHost: %s\r\n%s\r\n' % (w.url(path), w.hostport(), extra_req)
        ex = w.fetch(req.encode('latin1'), get_responder)
        st = ex.response.status if ex.response and ex.response.complete and not ex.response.error else 0
        contacted = len(ex.origin_requests)
        body = ex.response.body if st else b''
        tr.append('%s GET %s -> %s origin=%d body=%r' % (tag, path, st, contacted, body))
        return st, contacted, body

    def result(outcome, violation=None):
        w.close_origin_conns()
        return {'outcome': outcome, 'violation': violation, 'transcript': '\n'.join(tr)}

    # 1. prime and confirm that both URLs are served from the cache
    for p in (pu, pu2):
        st, contacted, body = get(p, 'prime')
        if st != 200 or contacted != 1 or body != body_of(p, 1):
            return result('prime-failed')
    for p in (pu, pu2):
        st, contacted, body = get(p, 'confirm')
        if st != 200 or contacted != 0 or body != body_of(p, 1):
            return result('not-cached')
    version['v'] = 2

    # 2. the unsafe request
    lines = []
    for hdr, form in case['link']:
        v = _link_value(w, form, n)
        if form == 'abs-same-lc-name':
            hdr = hdr.lower()
        if form == 'abs-same-ows':
            lines.append('%s:  \t%s  ' % (hdr, v))
        else:
            lines.append('%s: %s' % (hdr, v))
    rstatus = case['status']

    def unsafe_responder(m):
        b = b'' if rstatus in (204, 205) else ('r:%d' % n).encode()
        h = 'HTTP/1.1 %d %s\r\nDate: %s\r\n' % (rstatus, REASON[rstatus], ls.http_date(w.sq.now_us))
        if rstatus != 204:
            h += 'Content-Length: %d\r\n' % len(b)
        h += ''.join(l + '\r\n' for l in lines)
        return (h + '\r\n').encode('latin1') + b
    req = '%s %s HTTP/1.1\r\nHost: %s\r\nContent-Length: 4\r\n\r\ndata' % (case['method'], w.url(pu), w.hostport())
    ex = w.fetch(req.encode('latin1'), unsafe_responder)
    st = ex.response.status if ex.response and ex.response.complete and not ex.response.error else 0
    fwd = [m for m in ex.origin_requests if m.method.decode('latin1').upper() == case['method'].upper()]
    tr.append('unsafe %s %s -> client status %s, origin saw %d request(s); response fields %r' % (case['method'], pu, st, len(ex.origin_requests), lines))
    if len(fwd) != 1 or st != rstatus:
        # the unsafe exchange did not happen as specified: nothing to assert
        get(pu, 'after')
        return result('unsafe-not-relayed(client status %s)' % st)

    # 3. follow-up GETs
    st1, c1, b1 = get(pu, 'after')
    st2, c2, b2 = get(pu2, 'after')
    named = any(f in SAME_HOST_FORMS for _, f in case['link'])
    stale_u = (c1 == 0 and b1 == body_of(pu, 1))
    stale_u2 = (c2 == 0 and b2 == body_of(pu2, 1))
    violation = None
    if rstatus < 400:
        if stale_u:
            violation = '[target] after %s %s answered %d, GET %s was answered with the body cached before it (%r) without contacting the origin' % (
                case['method'], pu, rstatus, pu, b1)
        elif named and stale_u2:
            violation = '[link] after %s %s answered %d with %r, GET %s (same host) was answered with the body cached before it (%r) without contacting the origin' % (
                case['method'], pu, rstatus, lines, pu2, b2)
    oc = '%s:u-%s:u2-%s%s' % ('nonerror' if rstatus < 400 else 'error', 'stale-hit' if stale_u else 'refetched' if c1 else 'other',
                              'stale-hit' if stale_u2 else 'refetched' if c2 else 'other', ':u2-named' if named else '')
    return result(oc, violation)


def key_of(case):
    return 'n%d:%s:%d:%s:%s%s' % (case['n'], case['method'], case['status'], '+'.join('%s=%s' % (h, f) for h, f in case['link']) or 'nolink',
                                  case['prime'], case['query'])


def vkey(what, case):
    """Stable identity of a violation: which obligation failed and for which input class."""
    if what.startswith('[target]'):
        return 'target:%s:%d:%s' % (case['method'], case['status'], case['prime'])
    return 'link:%s' % '+'.join('%s=%s' % (h, f) for h, f in case['link'])


ASSUME = ['the real squid binary (ASan build of the current tree, memory cache only) runs under the lock-step/virtual-time shim; client and origin are played by the driver',
          'URLs are unique per case and bodies carry version+path, so a v1 body after the unsafe request can only come from the entry cached before it',
          '"non-error" is read as status < 400; "same-host" as a relative reference or an absolute URL with the same host:port text as the request URL',
          'other-host link targets and link forms outside the enumerated ones (dot segments, userinfo, host case variants) are not asserted']
RULE = ('product of unsafe method x origin status x Location/Content-Location form (absent, relative, absolute same-host, other-host, per header) '
        '[thorough: more methods/statuses/forms, x primed entry kind {plain, Vary, ETag+Last-Modified} x query string]; non-trivial = cases in which both URLs were '
        'confirmed cached, the unsafe request was relayed and answered with the chosen status, and both follow-up GETs completed')


def run(ctx):
    ls.build_squid(ctx)
    cases = all_cases(ctx.quick)
    r = ls.run_cases(ctx, cases, run_case, make_world, key_of=key_of)
    oc = r['outcomes']
    nontrivial = sum(v for k, v in oc.items() if k.startswith('nonerror:') or k.startswith('error:'))
    inval = sum(v for k, v in oc.items() if k.startswith('nonerror:u-refetched'))
    kept = sum(v for k, v in oc.items() if ':u-stale-hit' in k)
    link_inval = sum(v for k, v in oc.items() if k.startswith('nonerror:') and 'u2-refetched:u2-named' in k)
    link_kept = sum(v for k, v in oc.items() if ':u2-stale-hit' in k)
    if not r['violations'] and not r['deadline_hit']:
        if nontrivial < len(cases) * 3 // 4:
            raise HarnessError('vacuity guard: only %d of %d cases completed the specified history: %r' % (nontrivial, len(cases), oc))
        if inval < 10 or kept < 10 or link_inval < 10 or link_kept < 10:
            raise HarnessError('vacuity guard: invalidated=%d kept=%d link-invalidated=%d link-kept=%d (each must be >= 10): %r' % (
                inval, kept, link_inval, link_kept, oc))
    vio, seen = [], set()
    for k, what, c in r['violations']:
        vio.append(Violation(vkey(what, c), what, {'case': c}))
    obs = ['squid problem during %s: %s' % (k, what[:300]) for k, what, c in r['crashes']]
    vio += [Violation('crash:' + k, 'squid crashed/asserted during case %s: %s' % (k, what), {'case': c}) for k, what, c in r['crashes']]
    cov = {'evaluations': r['evaluations'], 'distinct_nontrivial': nontrivial, 'rule': RULE, 'samples': r['samples'],
           'outcome_classes': oc, 'exhaustive': not r['deadline_hit'] and r['evaluations'] == len(cases), 'kicks': r['kicks'],
           'determinism_replays': r['replays'], 'cases_total': len(cases),
           'target_invalidated': inval, 'entries_kept_after_error_status': kept, 'link_target_invalidated': link_inval, 'link_target_kept': link_kept}
    return Result(LEVEL, cov, vio, ASSUME, obs)


def replay(ctx, data):
    ls.build_squid(ctx)
    w = make_world(ctx, 0)
    w.start()
    try:
        r = run_case(w, data['case'])
        print(r['transcript'])
        print('outcome:', r['outcome'])
    finally:
        w.stop()
    v = [Violation(vkey(r['violation'], data['case']), r['violation'], data)] if r['violation'] else []
    return Result(LEVEL, {}, v, ASSUME)
