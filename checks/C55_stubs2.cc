// `StatCounters statCounter` is referenced by StoreMap::validateHit() only (never reached: the harness sets
// paranoid_hit_validation to 0).  Zeroed storage under the same (unmangled) symbol name avoids dragging in
// StatCounters' constructors and everything behind them.  No Squid header is included here on purpose.
alignas(64) char statCounter[1 << 20];
