"""C28 Range canonicalisation preserves the requested byte set — E1, exhaustive spec lists + strings vs a byte-set model."""
from vverif import seq
from vverif.core import Result, HarnessError

LEVEL = 'exploration'
RULE = ('(a) every list of 1..L specs (L=3 quick, 4 thorough) over a 29-spec alphabet (ranges, open ranges, suffixes, '
        'last<first, non-numeric, trailing garbage, sign, inner white space, numbers at 2^63-2..2^64) joined by 3 separator '
        'styles; (b) every string of length <= N (N=6 quick, 8 thorough) over the characters "019-, a+" as the byte-range-set; '
        '(c) 9 range-unit spellings x 4 sets. Each header goes through HttpHdrRange::ParseCreate; each accepted header is '
        'canonised for every content length in {0,1,2,3,4,10,2^63-2,2^63-1} (thorough: 13 lengths) and compared with an '
        '__int128 interval model of RFC 7233 section 2.1. non-trivial = headers accepted and canonised + headers ignored '
        'because of a last<first spec, an unrepresentable number, or an invalid spec next to well-formed ones')
ASSUME = ['HttpHdrRange.cc (with the Range<> template it instantiates) is recompiled from the scratch copy of the current tree '
          'with -fsanitize=address,undefined; UBSan runs in recover mode and each report becomes a failure keyed by file, '
          'kind and message (UBSan reports one source location once per process; later inputs of the same class are then '
          'caught by the functional oracle)',
          'white space next to the "-" inside a spec ("1 - 2") may be accepted or cause the header to be ignored; if accepted the '
          'numbers must be exact',
          'a well-formed header containing a number above 2^63-1 may be ignored as a whole',
          'negative / unknown content lengths are not canonised (callers establish a known length first)']
NONTRIVIAL = ['accepted', 'accepted:lenient-white-space', 'accepted:huge-number', 'ignored:last-lt-first',
              'ignored:unrepresentable-number', 'ignored:mixed-valid-invalid', 'ub-reported']


def _build(ctx):
    return seq.build(ctx, 'tests/testHttpRange', ['C28_range.cc'], drop_objects=[r'^HttpHdrRange\.o$'],
                     tree_sources=['HttpHdrRange.cc'], tree_flags=['-fsanitize=undefined'])


def run(ctx):
    exe = _build(ctx)
    m = seq.run(ctx, exe)
    cov = seq.coverage_from(m, RULE, nontrivial_classes=NONTRIVIAL, min_classes=5)
    c = m['counters']
    oc = m['outcomes']
    if not m['deadline_hit']:
        # vacuity guards: the parser must both accept and ignore, canonisation must see all three verdicts
        for k in ('accepted', 'ignored:malformed', 'ignored:last-lt-first', 'ignored:mixed-valid-invalid'):
            if oc.get(k, 0) < 10:
                raise HarnessError('vacuity guard: outcome class %s seen %d times' % (k, oc.get(k, 0)))
        for k in ('canonize_satisfiable', 'canonize_unsatisfiable', 'canonize_partly_satisfiable', 'canonize_clamped_to_end'):
            if c.get(k, 0) < 10:
                raise HarnessError('vacuity guard: counter %s = %d' % (k, c.get(k, 0)))
    for k in ('headers_parsed', 'canonize_calls'):
        cov[k] = c.get(k, 0)
    return Result(LEVEL, cov, seq.violations_from(m), ASSUME)


def replay(ctx, data):
    exe = _build(ctx)
    m = seq.replay_case(ctx, exe, data['case'])
    m.setdefault('deadline_hit', False)
    return Result(LEVEL, {}, seq.violations_from(m), ASSUME)
