"""C29 Cache-Control directives parse and re-serialise faithfully — E1, exhaustive directive lists + argument strings."""
from vverif import seq
from vverif.core import Result, HarnessError

LEVEL = 'exploration'
RULE = ('(a) every list of 1..L directive spellings (L=3 quick over 33 spellings, L=4 thorough over 46: flags, case variants, '
        'numeric directives with valid / negative / too large / quoted / empty / trailing-garbage arguments, max-stale with and '
        'without value, private / no-cache with and without quoted lists, escaped quotes, unterminated quotes, unknown extensions, '
        'empty elements) joined by 3 separator styles; (b) every string of length <= N (N=4 quick, 6 thorough) over the characters '
        '0129-+x SP DQUOTE, and 504 numerals around 2^31/2^32/2^63/2^64 with prefixes and suffixes, as the argument of each of '
        'the 5 numeric directives (alone and between two flags); (c) every string of length <= M (M=5 quick, 7 thorough) over '
        'a , DQUOTE backslash SP = as the argument of private= and no-cache=. Each header is parsed by HttpHdrCc::parse and '
        'compared per known directive with a reference RFC 9111 directive parser, then packed by packInto and parsed again. '
        'non-trivial = cases in which at least one header carried a known directive with a valid or an invalid value')
ASSUME = ['HttpHdrCc.cc, HttpHeader.cc (httpHeaderParseQuotedString), HttpHeaderTools.cc (httpHeaderParseInt) and StrList.cc are '
          'recompiled from the scratch copy of the current tree with -fsanitize=address,undefined and linked instead of the objects '
          'of the testHttpReply link set',
          'lenient syntax is not judged: a quoted number (max-age="5"), a sign or white space before the number, an argument on a '
          'flag directive, an unquoted argument of private/no-cache, white space around "="; for those only "never negative" and '
          'accessor/mask consistency are asserted',
          'duplicated directives: the result must be one of the valid occurrences (for field lists: one of them or their '
          'concatenation); which one is not prescribed',
          'the unknown-extension string (HttpHdrCc::other) is compared only in the pack -> parse round trip',
          'a header with an unterminated quoted-string is only subjected to the round trip and the memory oracle']
NONTRIVIAL = ['valid-known-directives', 'valid+invalid-values', 'only-invalid-values']


def _build(ctx):
    # all four files the property is about are recompiled from the current source on every run (their
    # objects in the scratch tree were once found stale after a fix commit: rsync kept the commit's mtime)
    return seq.build(ctx, 'tests/testHttpReply', ['C29_cc.cc'],
                     drop_objects=[r'^HttpHdrCc\.o$', r'^HttpHeader\.o$', r'^HttpHeaderTools\.o$', r'^StrList\.o$'],
                     tree_sources=['HttpHdrCc.cc', 'HttpHeader.cc', 'HttpHeaderTools.cc', 'StrList.cc'],
                     tree_flags=['-fsanitize=undefined', '-fno-sanitize-recover=undefined'])


def run(ctx):
    exe = _build(ctx)
    m = seq.run(ctx, exe)
    cov = seq.coverage_from(m, RULE, nontrivial_classes=NONTRIVIAL, min_classes=4)
    c = m['counters']
    if not m['deadline_hit']:
        for k in ('valid_numeric_checked', 'invalid_value_checked', 'valid_list_checked', 'pack_parse_fixpoints',
                  'duplicate_valid_directives', 'lenient_syntax_skipped'):
            if c.get(k, 0) < 20:
                raise HarnessError('vacuity guard: counter %s = %d' % (k, c.get(k, 0)))
        for k in NONTRIVIAL:
            if m['outcomes'].get(k, 0) < 20:
                raise HarnessError('vacuity guard: outcome class %s seen %d times' % (k, m['outcomes'].get(k, 0)))
    for k in ('headers_parsed', 'pack_parse_fixpoints', 'directive_verdicts'):
        cov[k] = c.get(k, 0)
    return Result(LEVEL, cov, seq.violations_from(m), ASSUME)


def replay(ctx, data):
    exe = _build(ctx)
    m = seq.replay_case(ctx, exe, data['case'])
    m.setdefault('deadline_hit', False)
    return Result(LEVEL, {}, seq.violations_from(m), ASSUME)
