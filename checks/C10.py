"""C10 Cache hits reproduce exactly one complete stored response — E3, history / schedule exploration.

The real squid binary (ASan, lock-step shim) with one of the stores {local memory, shared memory cache (MemStore),
rock with 4 KB slots, ufs; thorough: aufs, diskd} and the driver as clients + origin.  Four families of
executions, all enumerated completely inside their bounds:

  sweep    body sizes swept byte by byte across the memory-page / rock-slot / disk-buffer boundaries, history
           GET(miss) GET(hit) RELOAD GET(hit) on a fresh URL per size
  hist     every operation sequence of length L over {GET, forced reload (origin serves the next version), PURGE}
           on one URL, for a few sizes
  sched    reader-during-replacement: a reader that stops reading after n bytes and later resumes, against a
           writer whose forced reload (or PURGE + refetch) is delivered by the origin in three (two) pieces and
           who then fetches another URL of the same size (re-using freed space); ALL interleavings of the
           reader's and the writer's steps
  evict    caches sized for two objects, every sequence of length L over {GET a, GET b, GET c, RELOAD a}

Oracle (C10 statement): every response that Squid marks as a hit (Cache-Status ...;hit) or that it produced
without contacting the origin has status 200, marker headers (first and last header field, ETag) of ONE version
the origin completely sent for that URL before, exactly that version's body (period-251 pattern seeded by
version and URL, so any mix / shift / loss is visible) and complete framing.  A transfer that Squid aborts
visibly (short of its Content-Length) is not "served as complete" and is only counted.
"""
import hashlib
import itertools
import os
import re
import socket
import subprocess
import time

from vverif import lockstep as ls
from vverif import httpref
from vverif.core import Result, Violation, HarnessError, HOME

LEVEL = 'model_checking'

PURGE_ACL = 'acl VPurge method PURGE\nhttp_access allow VPurge\n'
BIG_MEM = 'cache_mem 96 MB\nmaximum_object_size_in_memory 4 MB\n'
STORES = {
    # name: (Squid kwargs for the roomy cache, Squid kwargs for the two-object cache)
    'mem': (dict(memory_cache=True, conf=BIG_MEM), dict(memory_cache=True, conf='cache_mem 1 MB\nmaximum_object_size_in_memory 4 MB\n')),
    'shm': (dict(memory_cache=True, conf=BIG_MEM + 'memory_cache_shared on\n'),
            dict(memory_cache=True, conf='cache_mem 1 MB\nmaximum_object_size_in_memory 4 MB\nmemory_cache_shared on\n')),
    'rock': (dict(cache_dir='rock %s 64 slot-size=4096'), dict(cache_dir='rock %s 1 slot-size=4096')),
    'ufs': (dict(cache_dir='ufs %s 64 4 4'), dict(cache_dir='ufs %s 1 4 4')),
    'aufs': (dict(cache_dir='aufs %s 64 4 4'), dict(cache_dir='aufs %s 1 4 4')),
    'diskd': (dict(cache_dir='diskd %s 64 4 4'), dict(cache_dir='diskd %s 1 4 4')),
}
ASYNC_STORES = ('aufs', 'diskd')      # I/O completes outside the event loop: driver waits in real time, deterministic:false
EVICT_SIZE = 400_000
CLAMP = 8192                          # SO_SNDBUF of Squid's client sockets / SO_RCVBUF of the stalling reader (sched part)


# ------------------------------------------------------------------------------------------------ model of one URL

class Key:
    def __init__(self, path, size, salt, framing='cl'):
        self.path, self.size, self.salt, self.framing = path, size, salt, framing
        self.started = 0          # versions whose transmission the origin has started
        self.complete = set()     # versions the origin has sent completely

    def body(self, v):
        return httpref.body_pattern(v, self.size, self.salt)

    def etag(self, v):
        return '"k%d-v%d"' % (self.salt, v)

    def head(self, v, now_us):
        h = ['HTTP/1.1 200 OK', 'X-Verif-First: k%d-v%d' % (self.salt, v), 'Date: ' + ls.http_date(now_us),
             'Content-Type: application/octet-stream', 'Cache-Control: max-age=86400',
             'Last-Modified: ' + ls.http_date(now_us - 10 * 86400 * 1_000_000), 'ETag: ' + self.etag(v)]
        if self.framing == 'cl':
            h.append('Content-Length: %d' % self.size)
        else:
            h.append('Transfer-Encoding: chunked')
        h.append('X-Verif-Last: k%d-v%d' % (self.salt, v))
        return ('\r\n'.join(h) + '\r\n\r\n').encode('latin1')

    def wire_body(self, v):
        b = self.body(v)
        if self.framing == 'cl':
            return b
        third = max(1, self.size // 3)
        return httpref.chunk_encode(b, [third, third] if self.size > 2 else None)


def judge(key, m, contacted, eof):
    """Classify one client-side response for `key`.  Returns (tag, violation or None)."""
    if m is None or not m.head_complete:
        return 'no-response', None
    cs = (m.get('cache-status') or '').lower()
    marked_hit = bool(re.search(r';\s*hit\b', cs))
    from_cache = marked_hit or (not contacted and m.status == 200)
    first = m.get('x-verif-first')
    mv = re.match(r'^k(\d+)-v(\d+)$', first or '')
    ver = int(mv.group(2)) if mv and int(mv.group(1)) == key.salt else None
    if not from_cache:
        if m.status != 200:
            return 'status-%d' % m.status, None
        return 'miss:v%s%s' % (ver, '' if m.complete and not m.error else ':incomplete'), None
    why = 'Cache-Status: %s' % cs if marked_hit else 'origin not contacted'
    if m.status != 200:
        return 'hit:status-%d' % m.status, 'response served from cache (%s) has status %d; the origin only ever sent 200' % (why, m.status)
    if ver is None:
        return 'hit:unknown-version', 'hit (%s) without the marker header of any version of this URL (X-Verif-First: %r)' % (why, first)
    hdrs_ok = (m.get('x-verif-last') == first and m.get('etag') == key.etag(ver))
    if not hdrs_ok:
        return 'hit:v%d:header-mix' % ver, ('hit (%s) mixes header fields of different responses: X-Verif-First %r, X-Verif-Last %r, ETag %r'
                                              % (why, first, m.get('x-verif-last'), m.get('etag')))
    want = key.body(ver)
    if m.error:
        return 'hit:v%d:bad-framing' % ver, 'hit (%s) of version %d is not a well-formed message: %s' % (why, ver, m.error)
    if not m.complete:
        # the client can see that the transfer was cut (bytes missing w.r.t. the framing): not "served as complete"
        if want.startswith(m.body):
            return 'hit:v%d:aborted' % ver, None
        return 'hit:v%d:aborted-corrupt' % ver, ('hit (%s) of version %d was cut short AND the %d bytes delivered are not a prefix of that '
                                                    'version (first difference at offset %d)' % (why, ver, len(m.body), _first_diff(m.body, want)))
    if m.framing == 'close' and not eof:
        return 'hit:v%d:unterminated' % ver, None
    if m.body == want:
        if ver not in key.complete:
            return 'hit:v%d:before-complete' % ver, ('hit (%s) reproduces version %d, which the origin had not finished sending' % (why, ver))
        if m.declared_length is not None and m.declared_length != key.size:
            return 'hit:v%d:bad-length' % ver, 'hit declares Content-Length %d, version has %d bytes' % (m.declared_length, key.size)
        return 'hit:v%d' % ver, None
    # wrong bytes: say what they are
    others = [v for v in range(1, key.started + 1) if v != ver and key.body(v)[:len(m.body)] == m.body and m.body]
    if want.startswith(m.body):
        what = 'a truncated body served as complete: %d of %d bytes, framing %s' % (len(m.body), key.size, m.framing)
    elif others and len(m.body) == key.size:
        what = 'headers of version %d with the complete body of version %d' % (ver, others[0])
    else:
        d = _first_diff(m.body, want)
        tail_of = [v for v in range(1, key.started + 1) if v != ver and key.body(v)[d:len(m.body)] == m.body[d:]]
        what = ('a body of %d bytes (version has %d) that differs from version %d from offset %d on%s'
                % (len(m.body), key.size, ver, d, (' and continues as version %d (mix of two versions)' % tail_of[0]) if tail_of else ''))
    return 'hit:v%d:WRONG-BODY' % ver, 'hit (%s) for %s (size %d) delivered %s' % (why, key.path, key.size, what)


def _first_diff(a, b):
    n = min(len(a), len(b))
    for i in range(n):
        if a[i] != b[i]:
            return i
    return n


# ------------------------------------------------------------------------------------------------ environment

def sockbuf_lib(ctx):
    out = os.path.join(ctx.work, 'lib', 'libvsockbuf.so')
    src = os.path.join(HOME, 'lib', 'vshim', 'vsockbuf.c')
    if not os.path.exists(out) or os.path.getmtime(out) < os.path.getmtime(src):
        tmp = out + '.tmp%d' % os.getpid()
        r = subprocess.run(['gcc', '-O2', '-fPIC', '-shared', '-o', tmp, src, '-ldl'], capture_output=True, text=True)
        if r.returncode:
            raise HarnessError('vsockbuf build failed: ' + r.stderr)
        os.replace(tmp, out)
    return out


def _start_with_retries(sq, attempts=4):
    """Instance start-up is bounded by a 60 s real-time limit in lockstep.wait_ready; on an overloaded machine
    (ASan start-up + squid -z) that limit is occasionally exceeded.  A failed start is machinery, so retry it."""
    for i in range(attempts):
        try:
            return sq.start()
        except HarnessError as e:
            if i == attempts - 1 or not re.search(r'not ready after|exited during start-up|squid -z failed|watchdog', str(e)):
                raise
            sq.kill()
            time.sleep(2 + 3 * i)


class Env:
    """One squid instance + the origin listener; the origin answers every request at once with the next version
    of the requested URL, except requests of actor W (X-Verif-Actor: W), which the schedule answers piecewise."""

    def __init__(self, ctx, name, port_base, store, small=False, clamp=False):
        kw = dict(STORES[store][1 if small else 0])
        kw['conf'] = kw.get('conf', '') + PURGE_ACL
        if store == 'diskd':
            kw['conf'] += 'diskd_program %s/src/DiskIO/DiskDaemon/diskd\n' % ctx.tree
        if clamp:
            kw['extra_env'] = {'LD_PRELOAD': ls.shim_path(ctx) + ':' + sockbuf_lib(ctx), 'VSOCK_SNDBUF': str(CLAMP)}
        self.store = store
        self.async_io = store in ASYNC_STORES
        self.sq = ls.Squid(ctx, name, port_base, **kw)
        self.origin_port = port_base + 1
        self.origin = ls.Listener(self.origin_port)
        self.oconns = []
        self.keys = {}
        self.nkeys = 0
        self.pending_w = []          # (OriginConn, Msg, Key) requests of actor W waiting for the schedule
        self.actions = 0
        self.arrivals = 0

    def start(self):
        _start_with_retries(self.sq)
        return self

    def stop(self):
        try:
            self.sq.cleanup()
        finally:
            for oc in self.oconns:
                oc.c.close()
            self.origin.close()

    def new_key(self, size, framing='cl', tag='k'):
        self.nkeys += 1
        k = Key('/c10/%s%d' % (tag, self.nkeys), size, self.nkeys, framing)
        self.keys[k.path] = k
        return k

    def url(self, key):
        return 'http://127.0.0.1:%d%s' % (self.origin_port, key.path)

    def request(self, key, op, actor):
        method = 'PURGE' if op == 'P' else 'GET'
        r = '%s %s HTTP/1.1\r\nHost: 127.0.0.1:%d\r\nX-Verif-Actor: %s\r\n' % (method, self.url(key), self.origin_port, actor)
        if op == 'R':
            r += 'Cache-Control: no-cache\r\n'
        if op == 'V':
            r += 'Cache-Control: max-age=0\r\n'      # the cached copy must be revalidated with the origin
        return (r + '\r\n').encode('latin1')

    def service_origin(self):
        """Accept, read and parse; answer everything except actor W's requests.  Returns #new requests."""
        new = 0
        for c in self.origin.accept_all():
            self.oconns.append(ls.OriginConn(c, len(self.oconns)))
        for oc in self.oconns:
            if oc.c.closed:
                continue
            if oc.c.pump():
                oc.raw += oc.c.inbuf
                oc.c.inbuf = b''
                while True:
                    m = httpref.parse_request(oc.raw[oc.parsed_upto:])
                    if m.error or not m.complete or m.consumed <= 0:
                        break
                    oc.parsed_upto += m.consumed
                    new += 1
                    self.arrivals += 1
                    path = re.sub(rb'^http://[^/]*', b'', m.target).decode('latin1')
                    key = self.keys.get(path)
                    if key is None:
                        oc.c.send(b'HTTP/1.1 404 Not Found\r\nContent-Length: 0\r\n\r\n')
                        continue
                    if (m.get('x-verif-actor') or '') == 'W':
                        self.pending_w.append((oc, m, key))
                        continue
                    inm = (m.get('if-none-match') or '').strip()
                    if inm and key.started >= 1 and key.started in key.complete and inm == key.etag(key.started):
                        # revalidation of the current version: 304 whose header block has another length than the
                        # stored one (the stored headers get rewritten in place; the body must stay what it was)
                        key.n304 = getattr(key, 'n304', 0) + 1
                        h = ['HTTP/1.1 304 Not Modified', 'Date: ' + ls.http_date(self.sq.now_us), 'ETag: ' + key.etag(key.started),
                             'Cache-Control: max-age=86400, x-pad=%s' % ('p' * (11 * key.n304)), 'X-Verif-Reval: %d' % key.n304]
                        self.send_all(oc.c, ('\r\n'.join(h) + '\r\n\r\n').encode('latin1'))
                        continue
                    key.started += 1
                    v = key.started
                    self.send_all(oc.c, key.head(v, self.sq.now_us) + key.wire_body(v))
                    key.complete.add(v)
            if oc.c.eof and not oc.c.closed:
                oc.c.close()
        self.oconns = [oc for oc in self.oconns if not oc.c.closed]
        return new

    def send_all(self, conn, data):
        """Origin-side send that copes with back-pressure (Squid reads it during the settles)."""
        off = 0
        for _ in range(4000):
            if conn.closed or conn.reset:
                return False
            off += conn.send(data[off:])
            conn.sent = b''          # Conn keeps a copy of everything sent; not needed here (and quadratic on persistent connections)
            if off >= len(data):
                return True
            self.sq.settle(1)
            if self.async_io:
                time.sleep(0.001)
        raise HarnessError('origin could not deliver %d bytes to squid (stuck at %d)' % (len(data), off))

    def wait_a_bit(self):
        # real-time patience: needed for aufs/diskd completions; for the synchronous stores it only bridges the rare
        # moment in which loopback delivery lags behind squid's idle report on an overloaded machine
        time.sleep(0.003 if self.async_io else 0.002)

    def client(self, rcvbuf=None):
        s = socket.socket(socket.AF_INET, socket.SOCK_STREAM)
        if rcvbuf:
            s.setsockopt(socket.SOL_SOCKET, socket.SO_RCVBUF, rcvbuf)
        s.connect(('127.0.0.1', self.sq.http_port))
        return ls.Conn(s)

    def drain(self, c, method='GET', limit=6000):
        """Run the world until the client's response is complete / the connection ended / nothing moves."""
        idle = 0
        patience = 400 if self.async_io else 30
        for _ in range(limit):
            self.sq.settle(1)
            moved = self.service_origin() > 0
            if c.pump():
                moved = True
            m = httpref.parse_response(c.inbuf, method, eof=c.eof)
            if (m.complete and not m.error and m.framing != 'close') or c.eof:
                self.sq.settle(1)
                c.pump()
                break
            if moved:
                idle = 0
            else:
                idle += 1
                if idle > patience:
                    break
                self.wait_a_bit()
        return httpref.parse_response(c.inbuf, method, eof=c.eof)

    def drain_all(self, conns, limit=8000):
        """Let several clients read to the end together (a stalled client can hold back the others)."""
        idle = 0
        patience = 400 if self.async_io else 30
        live = [c for c in conns if c is not None]
        for _ in range(limit):
            self.sq.settle(1)
            moved = self.service_origin() > 0
            done = 0
            for c in live:
                if c.pump():
                    moved = True
                m = httpref.parse_response(c.inbuf, 'GET', eof=c.eof)
                if (m.complete and not m.error and m.framing != 'close') or c.eof:
                    done += 1
            if done == len(live):
                break
            if moved:
                idle = 0
            else:
                idle += 1
                if idle > patience:
                    break
                self.wait_a_bit()

    def simple(self, key, op, actor='C'):
        """One whole transaction of a well-behaved client.  Returns (Msg, contacted, eof)."""
        self.actions += 1
        before = self.arrivals
        c = self.client()
        c.send(self.request(key, op, actor))
        method = 'PURGE' if op == 'P' else 'GET'
        m = self.drain(c, method)
        eof = c.eof
        c.close()
        self.sq.settle(1)
        self.service_origin()
        return m, self.arrivals > before, eof


# ------------------------------------------------------------------------------------------------ the four families

def run_ops(env, x):
    """sweep / hist: x = {'size', 'ops': 'GGRG', 'framing'}"""
    key = env.new_key(x['size'], x.get('framing', 'cl'))
    sig, vio = [], None
    for i, op in enumerate(x['ops']):
        m, contacted, eof = env.simple(key, op)
        if op == 'P':
            sig.append('P:%s' % (m.status if m.head_complete else 'none'))
            continue
        tag, v = judge(key, m, contacted, eof)
        sig.append('%s:%s' % (op, tag))
        if v and not vio:
            vio = 'step %d (%s) of history %s, %d-byte object, store %s: %s' % (i + 1, {'G': 'GET', 'R': 'forced reload', 'V': 'revalidation (max-age=0, origin answers 304)'}[op], x['ops'], x['size'], env.store, v)
    return sig, vio, len(x['ops'])


def run_evict(env, x):
    """x = {'ops': ['Ga','Gb','Ra',...]} on three fresh URLs in a cache that holds two objects."""
    keys = {n: env.new_key(EVICT_SIZE, tag=n) for n in 'abc'}
    sig, vio = [], None
    for i, o in enumerate(x['ops']):
        key = keys[o[1]]
        m, contacted, eof = env.simple(key, o[0])
        tag, v = judge(key, m, contacted, eof)
        sig.append('%s:%s' % (o, tag))
        if v and not vio:
            vio = 'step %d (%s) of eviction history %s, store %s: %s' % (i + 1, o, ','.join(x['ops']), env.store, v)
        env.sq.advance(1000, rounds=1)      # lets the periodic store maintenance (ufs replacement) run
    return sig, vio, len(x['ops'])


class Reader:
    """GET by a client with a small receive buffer that reads n bytes, stalls, and later reads to the end."""

    def __init__(self, env, key, n, nsteps):
        self.env, self.key, self.n, self.nsteps = env, key, n, nsteps
        self.c = None
        self.i = 0
        self.before = None

    def step(self):
        env = self.env
        env.actions += 1
        if self.i == 0:
            self.before = env.arrivals
            self.c = env.client(rcvbuf=CLAMP)
            self.c.send(env.request(self.key, 'G', 'R'))
            env.sq.settle(2)
            self.read_upto(self.n)
        elif self.i < self.nsteps - 1:
            self.read_upto(len(self.c.inbuf) + max(1, self.n))
        else:
            self.read_upto(1 << 40)          # resume: read whatever Squid can deliver now (to the end, if it can)
        self.i += 1

    def read_upto(self, total):
        env, c = self.env, self.c
        idle = 0
        while idle < (50 if env.async_io else 3):
            env.sq.settle(1)
            moved = env.service_origin() > 0
            want = total - len(c.inbuf)
            if want > 0 and not c.eof:
                try:
                    d = c.s.recv(min(want, 1 << 20))
                    if d:
                        c.inbuf += d
                        moved = True
                    else:
                        c.eof = True
                except BlockingIOError:
                    pass
                except OSError:
                    c.eof = True
            if len(c.inbuf) >= total or c.eof:
                env.sq.settle(1)
                break
            idle = 0 if moved else idle + 1
            if not moved:
                env.wait_a_bit()

    def finish(self):
        if self.c is None:
            return
        self.msg = self.env.drain(self.c)
        self.eof = self.c.eof
        self.c.close()
        self.env.sq.settle(1)


class Writer:
    """Replaces the object: forced reload (or PURGE, then a refetch) whose response the origin sends in pieces,
    followed by the fetch of another, equally large URL (which re-uses whatever space the replacement freed)."""

    PLANS = {'reload': ['send', 'piece', 'piece', 'piece', 'filler'],
             'purge': ['purge', 'send', 'piece', 'piece', 'filler']}

    def __init__(self, env, key, mode):
        self.env, self.key, self.mode = env, key, mode
        self.plan = self.PLANS[mode]
        self.npieces = self.plan.count('piece')
        self.i = 0
        self.piece = 0
        self.c = None
        self.oc = None
        self.v = None
        self.purge_status = None
        self.filler = None

    def step(self):
        env, key = self.env, self.key
        what = self.plan[self.i]
        self.i += 1
        if what == 'purge':
            m, _, _ = env.simple(key, 'P', actor='F')
            self.purge_status = m.status if m.head_complete else None
            return
        if what == 'filler':
            fk = env.new_key(key.size, tag='f')
            m, contacted, eof = env.simple(fk, 'G', actor='F')
            self.filler = judge(fk, m, contacted, eof)
            return
        env.actions += 1
        if what == 'send':
            self.c = env.client()
            self.c.send(env.request(key, 'R' if self.mode == 'reload' else 'G', 'W'))
            for _ in range(400 if env.async_io else 6):
                env.sq.settle(1)
                env.service_origin()
                self.c.pump()
                if env.pending_w:
                    break
                env.wait_a_bit()
            if env.pending_w:
                self.oc, _, _ = env.pending_w.pop(0)
            return
        # a piece of the origin's response
        self.piece += 1
        if self.oc is None:
            return                       # the request never reached the origin (answered from cache); nothing to send
        if self.piece == 1:
            key.started += 1
            self.v = key.started
            head = key.head(self.v, env.sq.now_us)
            self.wire = head + key.wire_body(self.v)
            hl = len(head)
            self.cuts = [0] + [hl + key.size * k // self.npieces for k in range(1, self.npieces)] + [len(self.wire)]
        env.send_all(self.oc.c, self.wire[self.cuts[self.piece - 1]:self.cuts[self.piece]])
        if self.piece == self.npieces:
            key.complete.add(self.v)
        for _ in range(2):
            env.sq.settle(1)
            env.service_origin()
            self.c.pump()

    def finish(self):
        if self.c is None:
            self.msg, self.eof = None, False
            return
        self.msg = self.env.drain(self.c)
        self.eof = self.c.eof
        self.c.close()
        self.env.sq.settle(1)


def run_sched(env, x):
    """x = {'size', 'n', 'order': 'RWWRWWW', 'w': 'reload'|'purge', 'rsteps': 2|3}"""
    key = env.new_key(x['size'])
    m0, c0, e0 = env.simple(key, 'G')
    tag0, _ = judge(key, m0, c0, e0)
    R = Reader(env, key, x['n'], x.get('rsteps', 2))
    W = Writer(env, key, x['w'])
    for a in x['order']:
        (R if a == 'R' else W).step()
    env.drain_all([R.c, W.c])                 # once the schedule is over both clients read to the end, together
    W.finish()
    R.finish()
    sig, vio = ['setup:' + tag0], None
    # the reader: whether the origin was contacted on its behalf is not attributable while W is active, so only
    # Squid's own hit marker classifies it (contacted=True switches the "not contacted" inference off)
    tagR, vR = judge(key, R.msg, True, R.eof)
    sig.append('R:' + tagR)
    tagW, vW = ('none', None) if W.msg is None else judge(key, W.msg, True, W.eof)
    sig.append('W:' + tagW)
    mp, cp, ep = env.simple(key, 'G')
    tagP, vP = judge(key, mp, cp, ep)
    sig.append('probe:' + tagP)
    vF = W.filler[1] if W.filler else None
    for who, v in (('stalled reader', vR), ('writer client', vW), ('probe after the schedule', vP), ('filler URL', vF)):
        if v and not vio:
            vio = '%s in schedule %s (reader stops after %d bytes, writer = %s, %d-byte object, store %s): %s' % (
                who, x['order'], x['n'], x['w'], x['size'], env.store, v)
    return sig, vio, len(x['order']) + 2


RUNNERS = {'sweep': run_ops, 'hist': run_ops, 'evict': run_evict, 'sched': run_sched}


# ------------------------------------------------------------------------------------------------ the bounded space

def interleavings(na, nb):
    out = []
    for pos in itertools.combinations(range(na + nb), na):
        out.append(''.join('R' if i in pos else 'W' for i in range(na + nb)))
    return out


def space(tier, store):
    """All executions of one store, as {'part': [exec, ...]}; every exec is a JSON-able dict."""
    quick = tier == 'quick'
    shared_pages = store == 'shm'
    parts = {}
    # -- sweep: byte-by-byte across the first 4 KB boundary (headers + swap metadata are a few hundred bytes, so
    # the window certainly contains "object ends exactly at the page/slot end"); shm pages are 32 KB
    if quick:
        sizes = list(range(3300, 4300)) if not shared_pages else list(range(3500, 4100)) + list(range(32000, 32800, 2))
        sizes += [0, 1, 2]
    else:
        sizes = list(range(0, 8400))                                  # two full 4 KB periods: every alignment
        sizes += list(range(32000, 33000)) + list(range(65000, 65700)) + [131072, 262144, 1048576]
    parts['sweep'] = [{'size': s, 'ops': 'GGRG'} for s in sizes]
    # -- hist
    L = 5 if quick else 6
    hsizes = [1, 5000, 70000] if quick else [0, 1, 3800, 5000, 33000, 70000, 300000]
    parts['hist'] = [{'size': s, 'ops': ''.join(o)} for s in hsizes for o in itertools.product('GRP', repeat=L)]
    if not quick:
        parts['hist'] += [{'size': s, 'ops': ''.join(o), 'framing': 'chunked'} for s in (1, 5000, 70000)
                          for o in itertools.product('GRP', repeat=5)]
    # histories with revalidations answered by 304 (the stored header block is updated and changes its length;
    # 3000 bytes: the body shares the last header slice/page; 100000: it spans several)
    Lv = 4 if quick else 5
    parts['hist'] += [{'size': s, 'ops': ''.join(o)} for s in ((3000, 100000) if quick else (1, 3000, 5000, 70000, 100000))
                      for o in itertools.product('GVR', repeat=Lv) if 'V' in o]
    # -- sched
    sch = []
    for size in ((60000, 200000) if quick else (60000, 200000, 500000)):
        for n in ((0, 2000, size // 2) if quick else (0, 300, 2000, size // 2, size - 1000)):
            for order in interleavings(2, 5):
                sch.append({'size': size, 'n': n, 'order': order, 'w': 'reload', 'rsteps': 2})
            if not quick:
                for order in interleavings(2, 5):
                    sch.append({'size': size, 'n': n, 'order': order, 'w': 'purge', 'rsteps': 2})
                if n:
                    for order in interleavings(3, 5):
                        sch.append({'size': size, 'n': n, 'order': order, 'w': 'reload', 'rsteps': 3})
    parts['sched'] = sch
    # -- evict
    if quick:
        parts['evict'] = [{'ops': list(o)} for o in itertools.product(['Ga', 'Gb', 'Gc', 'Ra'], repeat=4)]
    else:
        parts['evict'] = [{'ops': list(o)} for o in itertools.product(['Ga', 'Gb', 'Gc', 'Ra', 'Rb'], repeat=5)]
    if store in ASYNC_STORES:
        # uncontrolled completion timing: histories and a thin sweep only
        parts = {'sweep': parts['sweep'][::7], 'hist': [x for x in parts['hist'] if x['size'] in (1, 5000, 70000) and 'framing' not in x and len(x['ops']) == 6][::3]}
    return parts


UNIT_TARGET = {'sweep': 260, 'hist': 190, 'sched': 45, 'evict': 64}     # executions per unit (~8-12 s each)


def units_for(tier):
    stores = ['mem', 'shm', 'rock', 'ufs'] if tier == 'quick' else ['mem', 'shm', 'rock', 'ufs', 'aufs', 'diskd']
    units = []
    for st in stores:
        for part, execs in space(tier, st).items():
            per = UNIT_TARGET[part] * (1 if tier == 'quick' else 4)
            nchunks = max(1, (len(execs) + per - 1) // per)
            for ci in range(nchunks):
                units.append({'store': st, 'part': part, 'chunk': ci, 'execs': execs[ci::nchunks]})
    # heavy units first, dealt round-robin over the shards
    weight = {'sweep': 4 * 12, 'hist': 5 * 12, 'sched': 300, 'evict': 200}
    units.sort(key=lambda u: -len(u['execs']) * weight[u['part']])
    return units


# ------------------------------------------------------------------------------------------------ running

def make_env(ctx, shard, unit_or_store, part):
    store = unit_or_store
    return Env(ctx, 's%d' % shard, ls.port_base_for_check(ctx.pid, shard), store, small=(part == 'evict'), clamp=(part == 'sched'))


def run_execs(ctx, shard, store, part, execs, t_end=None, on_each=None):
    """Fresh instance; run the executions in order.  Returns list of (sig, vio, transitions) and health problems."""
    env = make_env(ctx, shard, store, part).start()
    out = []
    try:
        for x in execs:
            if t_end and time.time() > t_end:
                break
            try:
                r = RUNNERS[part](env, x)
            except (OSError, HarnessError) as e:
                # squid died or hung in the middle of an execution: attribute it to this execution and stop the unit
                hp = env.sq.health_problems()
                if not hp and isinstance(e, OSError):
                    raise
                out.append((['squid-failed'], None, 0, hp or ['%s' % e]))
                break
            hp = env.sq.health_problems()
            out.append(r + (hp,))
            if hp:
                break
        kicks = env.sq.kicks
        log = env.sq.access_log()
    finally:
        env.stop()
    return out, kicks, log


def confirm(ctx, shard, unit, idx, vio):
    """Replay-before-report: alone on a fresh instance (must fail twice); failing that, with the unit's exact
    predecessor list.  Returns the replay descriptor, or None if the violation could not be reproduced (the
    stall schedules depend on how many bytes the kernel moved per step, which an overloaded machine can perturb:
    such an observation is never reported as a violation)."""
    store, part = unit['store'], unit['part']
    x = unit['execs'][idx]
    alone = 0
    for _ in range(3):
        r, _, _ = run_execs(ctx, shard, store, part, [x])
        if r and r[0][1]:
            alone += 1
            if alone == 2:
                return {'store': store, 'part': part, 'execs': [x]}
    r, _, _ = run_execs(ctx, shard, store, part, unit['execs'][:idx + 1])
    if len(r) == idx + 1 and r[idx][1]:
        return {'store': store, 'part': part, 'execs': unit['execs'][:idx + 1]}
    return None


def key_of(store, part, x, sig):
    bad = [s for s in sig if re.search(r'WRONG-BODY|header-mix|unknown-version|before-complete|bad-|corrupt|hit:status', s)]
    cls = re.sub(r'v\d+', 'v', bad[0]) if bad else 'violation'
    if part in ('sweep', 'hist'):
        return '%s:%s:%s:%s' % (store, part, x['ops'] if part == 'hist' else 'size-class-%d' % (x['size'] // 4096), cls)
    if part == 'sched':
        return '%s:sched:%s:%s:%s' % (store, x['w'], x['order'], cls)
    return '%s:evict:%s' % (store, cls)


def worker_factory(ctx, tier, t_end):
    def worker(shard, units):
        res = {'executions': 0, 'transitions': 0, 'states': set(), 'violations': [], 'crashes': [], 'outcomes': {}, 'samples': [],
               'kicks': 0, 'determinism_replays': 0, 'deadline_hit': False, 'units_done': [], 'units_cut': [], 'logtags': {},
               'unreproducible': []}
        for unit in units:
            store, part = unit['store'], unit['part']
            if time.time() > t_end:
                res['deadline_hit'] = True
                res['units_cut'].append('%s/%s/%d' % (store, part, unit['chunk']))
                continue
            rs, kicks, log = run_execs(ctx, shard, store, part, unit['execs'], t_end)
            res['kicks'] += kicks
            for tag in re.findall(r' (TCP_[A-Z_]+|NONE_NONE)/\d+ ', log):
                k = '%s:%s' % (store, tag)
                res['logtags'][k] = res['logtags'].get(k, 0) + 1
            for idx, (sig, vio, trans, hp) in enumerate(rs):
                x = unit['execs'][idx]
                res['executions'] += 1
                res['transitions'] += trans
                for i in range(1, len(sig) + 1):
                    res['states'].add(hashlib.sha1(repr((store, part, x.get('size'), sig[:i])).encode()).hexdigest()[:16])
                for s in sig:
                    cls = '%s:%s' % (part, re.sub(r'v\d+', 'v', s.split(':', 1)[1]) if ':' in s else s)
                    res['outcomes'][cls] = res['outcomes'].get(cls, 0) + 1
                if idx == 5 and not any(q['part'] == part for q in res['samples']):
                    res['samples'].append({'store': store, 'part': part, 'exec': x, 'observed': sig})
                if hp:
                    res['crashes'].append(('%s:%s' % (store, part), '; '.join(hp)[:2500], {'store': store, 'part': part, 'execs': unit['execs'][:idx + 1]}))
                if vio:
                    rep = confirm(ctx, shard, unit, idx, vio)
                    res['determinism_replays'] += 1
                    if rep is None:
                        res['unreproducible'].append('%s %s %r: %s' % (store, part, x, vio[:300]))
                    else:
                        res['violations'].append((key_of(store, part, x, sig), vio, rep))
                    if len(res['violations']) >= 6:
                        break
            if len(rs) < len(unit['execs']):
                if rs and rs[-1][3]:
                    pass          # stopped at a crash (reported above)
                res['deadline_hit'] = res['deadline_hit'] or time.time() > t_end
                res['units_cut'].append('%s/%s/%d (%d of %d)' % (store, part, unit['chunk'], len(rs), len(unit['execs'])))
            else:
                res['units_done'].append('%s/%s/%d' % (store, part, unit['chunk']))
            # determinism obligation: chunk 0 of every (store, part) re-runs its first executions on a second fresh instance
            if unit['chunk'] == 0 and store not in ASYNC_STORES and rs and time.time() < t_end:
                nrep = {'sweep': 12, 'hist': 12, 'sched': 6, 'evict': 4}[part]
                r2, k2, _ = run_execs(ctx, shard, store, part, unit['execs'][:nrep])
                res['kicks'] += k2
                res['determinism_replays'] += len(r2)
                for i, (sig2, vio2, _, _) in enumerate(r2):
                    if i < len(rs) and (sig2 != rs[i][0] or bool(vio2) != bool(rs[i][1])):
                        raise HarnessError('nondeterminism: %s/%s execution %r gave %r, then %r' % (store, part, unit['execs'][i], rs[i][0], sig2))
        res['states'] = sorted(res['states'])
        return res
    return worker


ASSUME = ['the real squid binary (ASan build of the current tree, -N) runs under the lock-step/virtual-time shim; clients and origin are played by the driver',
          'Squid\'s Cache-Status header (or the absence of any origin contact during the transaction) identifies responses served from cache',
          'body pattern with period 251 seeded by (URL, version): any mix / shift / truncation of versions changes the bytes; first and last header field '
          'and ETag carry the version too',
          'sched part only: a second preload library (lib/vshim/vsockbuf.c) sets SO_SNDBUF=8192 on Squid\'s accepted client sockets so that a client that '
          'stops reading really stalls the transfer inside Squid',
          'executions of one unit share a squid instance (fresh URL per execution); a violation is re-run alone on a fresh instance, or else with its '
          'exact predecessor list, before it is reported',
          'aufs/diskd (thorough only): I/O completion is outside the lock-step scheduler (deterministic:false); those runs assert the same oracle on histories only']


def build(ctx):
    t = time.time()
    ls.build_squid(ctx)
    sockbuf_lib(ctx)
    waited = time.time() - t
    if waited > 20:
        ctx.deadline_s += waited - 20
    return waited


def pick_samples(samples):
    out, seen = [], set()
    for want in ('sched', 'hist', 'evict', 'sweep'):
        for q in samples:
            if q['part'] == want and (q['store'], want) not in seen and len([o for o in out if o['part'] == want]) < 2:
                seen.add((q['store'], want))
                out.append(q)
    return out[:8]


def run(ctx):
    build_s = build(ctx)
    units = units_for(ctx.tier)
    t_end = ctx.t0 + ctx.deadline_s - (25 if ctx.quick else 60)
    parts = ls.run_sharded(ctx, worker_factory(ctx, ctx.tier, t_end), units)
    tot = {'executions': 0, 'transitions': 0, 'kicks': 0, 'determinism_replays': 0}
    states, outcomes, logtags, samples, vios, crashes, cut, done, unrep = set(), {}, {}, [], [], [], [], [], []
    deadline_hit = False
    for p in parts:
        if p is None:
            continue
        for k in tot:
            tot[k] += p[k]
        states.update(p['states'])
        for k, v in p['outcomes'].items():
            outcomes[k] = outcomes.get(k, 0) + v
        for k, v in p['logtags'].items():
            logtags[k] = logtags.get(k, 0) + v
        samples += p['samples']
        vios += p['violations']
        crashes += p['crashes']
        cut += p['units_cut']
        done += p['units_done']
        unrep += p['unreproducible']
        deadline_hit = deadline_hit or p['deadline_hit']
    planned = sum(len(u['execs']) for u in units)
    complete = not cut and not deadline_hit and tot['executions'] == planned
    hits = sum(v for k, v in outcomes.items() if re.search(r':hit:v$', k))
    misses = sum(v for k, v in outcomes.items() if ':miss:' in k)
    if complete and not vios:
        if hits < 500 or misses < 500:
            raise HarnessError('vacuity guard: %d clean hits / %d misses: %r' % (hits, misses, outcomes))
        for st in sorted(set(u['store'] for u in units)):
            disk = st in ('rock', 'ufs', 'aufs', 'diskd')
            tag = 'TCP_HIT' if disk else 'TCP_MEM_HIT'
            if logtags.get('%s:%s' % (st, tag), 0) < 100:
                raise HarnessError('vacuity guard: store %s produced only %d %s transactions: %r' % (st, logtags.get('%s:%s' % (st, tag), 0), tag, logtags))
        if outcomes.get('sched:hit:v', 0) < 20:
            raise HarnessError('vacuity guard: stalled readers were rarely served from cache: %r' % outcomes)
        ev_miss = sum(v for k, v in outcomes.items() if k.startswith('evict:miss'))
        ev_hit = outcomes.get('evict:hit:v', 0)
        if ev_miss < 50 or ev_hit < 50:
            raise HarnessError('vacuity guard: eviction part saw %d hits / %d misses' % (ev_hit, ev_miss))
    unrep_det = [u for u in unrep if not u.startswith(ASYNC_STORES)]
    if unrep_det and not vios:
        raise HarnessError('%d violation(s) seen once but not reproducible on replay (nondeterminism), e.g. %s' % (len(unrep_det), unrep_det[0][:600]))
    vio = [Violation(k, what, rep) for k, what, rep in vios]
    obs = ['squid problem during %s: %s' % (k, what[:400]) for k, what, rep in crashes]
    obs += ['seen once, not reproducible on replay: ' + u for u in unrep]
    # a crash while serving a hit is not "serving a wrong hit"; C10 reports it as an observation
    bound = {'history_length': 5 if ctx.quick else 6, 'eviction_history_length': 4 if ctx.quick else 5,
             'reader_writer_interleavings': 'all 21 orders of 2 reader x 5 writer steps' + ('' if ctx.quick else ' and all 56 of 3 x 5'),
             'stores': sorted(set(u['store'] for u in units))}
    cov = {'states': len(states), 'transitions': tot['transitions'], 'traces_validated_against_impl': tot['executions'],
           'executions_planned': planned, 'bound_completed': bound if complete else 'cut by the deadline, see units_cut',
           'exhaustive': complete, 'samples': pick_samples(samples), 'outcome_classes': outcomes, 'access_log_tags': logtags, 'kicks': tot['kicks'],
           'determinism_replays': tot['determinism_replays'], 'units': len(units), 'units_cut': cut[:40], 'clean_hits_checked': hits,
           'build_step_s': round(build_s, 1), 'deterministic': {'mem/shm/rock/ufs': True, 'aufs/diskd': False}}
    return Result(LEVEL, cov, vio, ASSUME, obs)


def replay(ctx, data):
    build(ctx)
    rs, _, log = run_execs(ctx, 0, data['store'], data['part'], data['execs'])
    v = []
    for i, (sig, vio, _, hp) in enumerate(rs):
        print(data['execs'][i], '->', sig, ('VIOLATION: ' + vio) if vio else '', hp or '')
        if vio and i == len(data['execs']) - 1:
            v.append(Violation(key_of(data['store'], data['part'], data['execs'][i], sig), vio, data))
    return Result(LEVEL, {}, v, ASSUME)
