"""C48 Byte-string values behave as independent values — E1, explicit-state BFS over SBuf operation sequences."""
from vverif import seq
from vverif.core import Result, HarnessError

LEVEL = 'model_checking'
RULE = ('three real SBufs vs three std::string models; every sequence of <= D operations of the core alphabet '
        '(assign, append incl. self, literals, push_back, slices of each other, consume, chop, trim, toUpper, clear, '
        'reserveSpace, rawAppendStart/Finish, c_str, setAt) followed by one operation of the full alphabet (all of the above '
        'with positions/lengths from {0,1,2,len-1,len,len+1,npos,npos-1}, self-aliasing append/assign, consume-into, toLower, '
        'reserveCapacity/reserve incl. maxSize+1, appendf/Printf, ...); D = 4 quick, 5 thorough (quick: reduced observer battery on leaf-level states); states deduplicated on the '
        'complete canonical state modulo permutation of the three SBufs; the const observer battery runs on every distinct state')
ASSUME = ['libsbuf of the scratch copy of the current tree (ASan) linked with the testSBuf link set: the stub allocator gives '
          'MemBlobs exactly the requested capacity, so reallocation boundaries are reached with tiny strings and every '
          'out-of-capacity access is an ASan report',
          'canonical state drops SBuf/MemBlob statistics counters, InstanceId numbers and heap addresses (they cannot influence '
          'contents or sharing decisions; Locker only compares an address with the own blob range, which aliasing ops cover)',
          'contents are ASCII plus NUL; case-insensitive results are compared as signs against an ASCII lower-casing model',
          'leaf-level states are deduplicated per shard with a 64-bit hash (interior states: 64-bit hash + 64-bit check value)']


def _build(ctx):
    # src/Makefile does not rebuild sub-directory libraries: make the libraries holding the code under test first
    ctx.vbuild('src/sbuf:libsbuf.la', 'src/base:libbase.la')
    return seq.build(ctx, 'tests/testSBuf', ['C48_sbuf.cc'], drop_objects=[r'^tests/SBufFindTest\.o$'])


def _result(ctx, m):
    c = m['counters']
    viol = seq.violations_from(m)
    harness = [v for v in viol if v.key.startswith('HARNESS:')]
    if harness:
        raise HarnessError('%s: %s' % (harness[0].key, harness[0].what[:500]))
    nsh = ctx.ncpu
    depth = 0
    while c.get('shards_done_depth_%d' % (depth + 1), 0) == nsh:
        depth += 1
    if not viol:
        for k, least in (('states_sharing_a_blob', 100), ('states_with_distinct_slices_of_a_blob', 50), ('cow_realloc_copy', 100),
                         ('cow_shift', 1), ('cow_avoided', 100), ('expected_throws', 20), ('states_observed', 100)):
            if c.get(k, 0) < least:
                raise HarnessError('vacuity guard: %s=%s < %s' % (k, c.get(k, 0), least))
        if m['outcomes'].get('limits:ok', 0) != 1:
            raise HarnessError('the size-limit scenario did not run')
        if depth < 2 and not m['deadline_hit']:
            raise HarnessError('no depth completed')
    states = c.get('states_interior', 0) + c.get('states_leaf', 0)
    trans = c.get('transitions_interior', 0) + c.get('transitions_partitioned', 0)
    cov = {
        'states': states, 'transitions': trans, 'traces_validated_against_impl': trans,
        'states_interior_distinct': c.get('states_interior', 0),
        'states_leaf_distinct_per_shard_sum': c.get('states_leaf', 0),
        'states_observed_with_full_battery': c.get('states_observed', 0),
        'observer_calls': c.get('observer_calls', 0),
        'real_ops_executed_incl_replays': c.get('real_ops_executed', 0),
        'bound_completed': 'all sequences of <= %d operations (first %d from the core alphabet of %d ops, last from the full alphabet of %d ops)' % (
            depth, max(depth - 1, 0), c.get('ops_in_core_alphabet', 0), c.get('ops_in_alphabet', 0)),
        'depth_completed': depth,
        'rule': RULE, 'samples': [s for s in m['samples'] if s not in ('bfs', 'limits')][:8] or m['samples'],
        'exhaustive': not m['deadline_hit'], 'deadline_hit': m['deadline_hit'],
        'counters': c, 'outcome_classes': m['outcomes'],
    }
    return Result(LEVEL, cov, viol, ASSUME)


def run(ctx):
    exe = _build(ctx)
    m = seq.run(ctx, exe)
    return _result(ctx, m)


def replay(ctx, data):
    exe = _build(ctx)
    m = seq.replay_case(ctx, exe, data['case'])
    m.setdefault('deadline_hit', False)
    viol = seq.violations_from(m)
    if not viol and not m['outcomes']:
        raise HarnessError('replay descriptor did not run: %r' % data['case'])
    return Result(LEVEL, {}, viol, ASSUME)
