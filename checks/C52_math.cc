// C52 — SquidMath.h overflow-safe helpers vs __int128 (E1): Less(), IncreaseSum(), NaturalSum(),
// SetToNaturalSumOrMax() for all ordered pairs/triples of the eight fixed-width integer types.
// Header-only code of the current tree, instantiated in this translation unit with ASan+UBSan.
#ifndef C52_PART
#define C52_PART 1     // this file is compiled three times (C52_part2.cc / C52_part3.cc include it) to keep compile time down
#endif
#include "squid.h"
#include "SquidMath.h"

#include "vharness.h"

#include <type_traits>

namespace {

typedef __int128 i128;

template <class T> const char *tname()
{
    if (std::is_same<T, int8_t>::value) return "int8";
    if (std::is_same<T, uint8_t>::value) return "uint8";
    if (std::is_same<T, int16_t>::value) return "int16";
    if (std::is_same<T, uint16_t>::value) return "uint16";
    if (std::is_same<T, int32_t>::value) return "int32";
    if (std::is_same<T, uint32_t>::value) return "uint32";
    if (std::is_same<T, int64_t>::value) return "int64";
    if (std::is_same<T, uint64_t>::value) return "uint64";
    return "?";
}

template <class T> struct Tag { typedef T type; };

template <class F> void forTypes(F f)
{
    f(Tag<int8_t>()); f(Tag<uint8_t>()); f(Tag<int16_t>()); f(Tag<uint16_t>());
    f(Tag<int32_t>()); f(Tag<uint32_t>()); f(Tag<int64_t>()); f(Tag<uint64_t>());
}

template <class T> i128 tmin() { return (i128)std::numeric_limits<T>::min(); }
template <class T> i128 tmax() { return (i128)std::numeric_limits<T>::max(); }

std::string show(i128 v)
{
    if (v == 0) return "0";
    const bool n = v < 0;
    if (n) v = -v;
    std::string s;
    while (v > 0) { s.insert(s.begin(), char('0' + (int)(v % 10))); v /= 10; }
    return (n ? "-" : "") + s;
}

// boundary-dense value set of a type
template <class T> std::vector<T> boundary(bool small)
{
    std::vector<i128> c = {0, 1, 2, 3, -1, -2, -3, tmin<T>(), tmin<T>() + 1, tmin<T>() + 2, tmax<T>(), tmax<T>() - 1, tmax<T>() - 2,
                           tmax<T>() / 2, tmax<T>() / 2 + 1, tmax<T>() / 2 - 1, tmin<T>() / 2
                          };
    if (!small)
        for (int k : {7, 8, 15, 16, 31, 32, 62, 63})
            for (int d = -1; d <= 1; ++d) { c.push_back(((i128)1 << k) + d); c.push_back(-((i128)1 << k) + d); }
    std::vector<T> out;
    for (i128 v : c) {
        if (v < tmin<T>() || v > tmax<T>()) continue;
        const T t = (T)v;
        bool dup = false;
        for (T o : out) if (o == t) dup = true;
        if (!dup) out.push_back(t);
    }
    return out;
}

struct Tally {
    uint64_t lessMixed = 0, lessSame = 0, sumExact = 0, sumOverflow = 0, sumNegative = 0, clampMax = 0, clampExact = 0, evals = 0;
    void flush()
    {
        auto &o = V::S().outcomes;
        if (lessMixed) o["less:operands-of-different-sign"] += lessMixed;
        if (lessSame) o["less:operands-of-same-sign"] += lessSame;
        if (sumExact) o["sum:exact"] += sumExact;
        if (sumOverflow) o["sum:overflow-nothing"] += sumOverflow;
        if (sumNegative) o["sum:negative-argument-nothing"] += sumNegative;
        if (clampMax) o["clamp:max"] += clampMax;
        if (clampExact) o["clamp:exact"] += clampExact;
        V::count("evaluations_of_the_helpers", evals);
        *this = Tally();
    }
};
Tally T_;

// ---- failure reporting and sampling are kept out of line (non-template) so that the ~3000 template
// instantiations below stay tiny
__attribute__((noinline)) void reportLess(const char *ta, const char *tb, i128 a, i128 b, bool ref)
{
    V::failKey(std::string("Less<") + ta + "," + tb + ">", "Less(" + show(a) + ", " + show(b) + ") returned " + (ref ? "false" : "true"));
}
__attribute__((noinline)) void sampleLess(const char *ta, const char *tb, i128 a, i128 b, bool ref)
{
    V::sample(std::string("Less<") + ta + "," + tb + ">(" + show(a) + ", " + show(b) + ") = " + (ref ? "true" : "false"));
}
__attribute__((noinline)) void reportSum(const char *fn, const char *sig, int nargs, i128 a, i128 b, i128 c, bool has, i128 got, bool fits, i128 want, bool clamp)
{
    std::string args = show(a) + ", " + show(b);
    if (nargs == 3) args += ", " + show(c);
    if (clamp)
        V::failKey(std::string(fn) + sig, std::string(fn) + "(" + args + ") stored " + show(got) + ", expected " + show(want));
    else
        V::failKey(std::string(fn) + sig, std::string(fn) + "(" + args + ") returned " + (has ? show(got) : std::string("nothing")) + ", expected " + (fits ? show(want) : std::string("nothing")));
}
__attribute__((noinline)) void sampleSum(const char *sig, i128 s, i128 t, i128 sum, i128 max)
{
    V::sample(std::string("IncreaseSum") + sig + "(" + show(s) + ", " + show(t) + ") = nothing (exact sum " + show(sum) + " > " + show(max) + ")");
}

template <class... Ts> struct Sig;
template <class T> struct Sig<T> { static std::string str() { return tname<T>(); } };
template <class T, class... Ts> struct Sig<T, Ts...> { static std::string str() { return std::string(tname<T>()) + "," + Sig<Ts...>::str(); } };
template <class S, class... Ts> const char *sigOf()
{
    static const std::string s = std::string("<") + tname<S>() + ">(" + Sig<Ts...>::str() + ")";
    return s.c_str();
}

// ---- one evaluation of each helper against the reference
template <class A, class B> inline bool checkLess(const A a, const B b)
{
    const bool ref = (i128)a < (i128)b;
    ++T_.evals;
    const bool mixed = ((i128)a < 0) != ((i128)b < 0);
    if (mixed) ++T_.lessMixed; else ++T_.lessSame;
    if (mixed && (T_.evals & 0xfffff) == 5) sampleLess(tname<A>(), tname<B>(), a, b, ref);
    if (Less(a, b) != ref) { reportLess(tname<A>(), tname<B>(), a, b, ref); return false; }
    return true;
}

template <class S, class T> inline bool checkIncrease(const S s, const T t)
{
    const i128 sum = (i128)s + (i128)t;
    const bool neg = (i128)s < 0 || (i128)t < 0;
    const bool fits = !neg && sum <= tmax<S>();
    ++T_.evals;
    if (neg) ++T_.sumNegative; else if (fits) ++T_.sumExact; else ++T_.sumOverflow;
    const std::optional<S> r = IncreaseSum(s, t);
    if (!fits && !neg && (T_.evals & 0xfffff) == 11) sampleSum(sigOf<S, S, T>(), s, t, sum, tmax<S>());
    if (r.has_value() != fits || (fits && (i128)r.value() != sum)) {
        reportSum("IncreaseSum", sigOf<S, S, T>(), 2, s, t, 0, r.has_value(), r.has_value() ? (i128)r.value() : 0, fits, sum, false);
        return false;
    }
    return true;
}

template <class S, class A, class B> bool checkNatural2(const A a, const B b)
{
    const i128 sum = (i128)a + (i128)b;
    const bool neg = (i128)a < 0 || (i128)b < 0;
    const bool fits = !neg && sum <= tmax<S>();
    T_.evals += 2;
    if (neg) ++T_.sumNegative; else if (fits) ++T_.sumExact; else ++T_.sumOverflow;
    const std::optional<S> r = NaturalSum<S>(a, b);
    if (r.has_value() != fits || (fits && (i128)r.value() != sum)) {
        reportSum("NaturalSum", sigOf<S, A, B>(), 2, a, b, 0, r.has_value(), r.has_value() ? (i128)r.value() : 0, fits, sum, false);
        return false;
    }
    S var = 42;
    const S ret = SetToNaturalSumOrMax(var, a, b);
    const i128 want = fits ? sum : tmax<S>();
    if (fits) ++T_.clampExact; else ++T_.clampMax;
    if ((i128)var != want || (i128)ret != want) {
        reportSum("SetToNaturalSumOrMax", sigOf<S, A, B>(), 2, a, b, 0, true, var, fits, want, true);
        return false;
    }
    return true;
}

template <class S, class A, class B, class C> bool checkNatural3(const A a, const B b, const C c)
{
    const i128 sum = (i128)a + (i128)b + (i128)c;
    const bool neg = (i128)a < 0 || (i128)b < 0 || (i128)c < 0;
    const bool fits = !neg && sum <= tmax<S>();
    T_.evals += 2;
    if (neg) ++T_.sumNegative; else if (fits) ++T_.sumExact; else ++T_.sumOverflow;
    const std::optional<S> r = NaturalSum<S>(a, b, c);
    if (r.has_value() != fits || (fits && (i128)r.value() != sum)) {
        reportSum("NaturalSum", sigOf<S, A, B, C>(), 3, a, b, c, r.has_value(), r.has_value() ? (i128)r.value() : 0, fits, sum, false);
        return false;
    }
    S var = 7;
    SetToNaturalSumOrMax(var, a, b, c);
    const i128 want = fits ? sum : tmax<S>();
    if (fits) ++T_.clampExact; else ++T_.clampMax;
    if ((i128)var != want) {
        reportSum("SetToNaturalSumOrMax", sigOf<S, A, B, C>(), 3, a, b, c, true, var, fits, want, true);
        return false;
    }
    return true;
}

#if C52_PART == 1
// ---- exhaustive over [alo,ahi] x all of B
template <class A, class B> void exhaustivePair(int64_t alo, int64_t ahi)
{
    for (int64_t i = alo; i <= ahi; ++i) {
        const A a = (A)i;
        for (int64_t j = (int64_t)tmin<B>(); j <= (int64_t)tmax<B>(); ++j) {
            const B b = (B)j;
            if (!checkLess(a, b)) return;
            if (!checkIncrease(a, b)) return;
        }
    }
}

template <class A, class B> void boundaryPair()
{
    const std::vector<A> va = boundary<A>(false);
    const std::vector<B> vb = boundary<B>(false);
    for (A a : va)
        for (B b : vb) {
            if (!checkLess(a, b)) return;
            if (!checkIncrease(a, b)) return;
        }
}

template <class T> constexpr bool small() { return sizeof(T) <= 2; }
#endif

#if C52_PART == 2
// NaturalSum<S>(a,b) / SetToNaturalSumOrMax<S>(a,b): every ordered pair of argument types, result types {uint8,int16,int32,uint32,int64,uint64}
template <class A, class B> void boundaryPairNatural()
{
    const std::vector<A> va = boundary<A>(false);
    const std::vector<B> vb = boundary<B>(false);
    for (A a : va)
        for (B b : vb) {
            if (!checkNatural2<uint8_t>(a, b)) return;
            if (!checkNatural2<int16_t>(a, b)) return;
            if (!checkNatural2<int32_t>(a, b)) return;
            if (!checkNatural2<uint32_t>(a, b)) return;
            if (!checkNatural2<int64_t>(a, b)) return;
            if (!checkNatural2<uint64_t>(a, b)) return;
        }
}
#endif

#if C52_PART == 3
template <class F> void forTripleTypes(F f)
{
    f(Tag<int8_t>()); f(Tag<uint16_t>()); f(Tag<int32_t>()); f(Tag<int64_t>()); f(Tag<uint64_t>());
}
// three-argument sums: every ordered triple over {int8,uint16,int32,int64,uint64}, result types {third argument's, uint64, int32}
template <class A, class B, class C> void boundaryTriple()
{
    const std::vector<A> va = boundary<A>(true);
    const std::vector<B> vb = boundary<B>(true);
    const std::vector<C> vc = boundary<C>(true);
    for (A a : va)
        for (B b : vb)
            for (C c : vc) {
                if (!checkNatural3<C>(a, b, c)) return;
                if (!checkNatural3<uint64_t>(a, b, c)) return;
                if (!checkNatural3<int32_t>(a, b, c)) return;
            }
}
#endif

} // namespace

void c52_part2(V::Ctx &);
void c52_part3(V::Ctx &);

#if C52_PART == 2
void c52_part2(V::Ctx &)
{
    forTypes([&](auto ta) {
        typedef typename decltype(ta)::type A;
        forTypes([&](auto tb) {
            typedef typename decltype(tb)::type B;
            if (V::begin_case(std::string("natural2:") + tname<A>() + ":" + tname<B>())) {
                boundaryPairNatural<A, B>();
                T_.flush();
                V::end_case();
            }
        });
    });
}
#endif

#if C52_PART == 3
void c52_part3(V::Ctx &)
{
    forTripleTypes([&](auto ta) {
        typedef typename decltype(ta)::type A;
        forTripleTypes([&](auto tb) {
            typedef typename decltype(tb)::type B;
            forTripleTypes([&](auto tc) {
                typedef typename decltype(tc)::type C;
                if (V::begin_case(std::string("natural3:") + tname<A>() + ":" + tname<B>() + ":" + tname<C>())) {
                    boundaryTriple<A, B, C>();
                    T_.flush();
                    V::end_case();
                }
            });
        });
    });
}
#endif

#if C52_PART == 1
static void body(V::Ctx &ctx)
{
    const bool thorough = ctx.thorough();
    // (1) exhaustive pairs: both types <= 16 bits; 16x16-bit pairs only in the thorough tier (4 x 2^32 evaluations of each helper)
    forTypes([&](auto ta) {
        typedef typename decltype(ta)::type A;
        forTypes([&](auto tb) {
            typedef typename decltype(tb)::type B;
            if (!small<A>() || !small<B>()) return;
            const bool both16 = sizeof(A) == 2 && sizeof(B) == 2;
            if (both16 && !thorough) return;
            const int chunks = sizeof(A) == 1 ? 1 : (both16 ? 256 : 16);
            const int64_t lo = (int64_t)tmin<A>(), n = (int64_t)(tmax<A>() - tmin<A>()) + 1;
            for (int c = 0; c < chunks; ++c) {
                const int64_t alo = lo + n * c / chunks, ahi = lo + n * (c + 1) / chunks - 1;
                if (V::begin_case(std::string("exhaustive:") + tname<A>() + ":" + tname<B>() + ":" + std::to_string(c) + "/" + std::to_string(chunks))) {
                    exhaustivePair<A, B>(alo, ahi);
                    T_.flush();
                    V::end_case();
                }
            }
        });
    });
    // (2) boundary-dense value sets: Less and IncreaseSum for every ordered pair of the 8 types
    forTypes([&](auto ta) {
        typedef typename decltype(ta)::type A;
        forTypes([&](auto tb) {
            typedef typename decltype(tb)::type B;
            if (V::begin_case(std::string("boundary2:") + tname<A>() + ":" + tname<B>())) {
                boundaryPair<A, B>();
                T_.flush();
                V::end_case();
            }
        });
    });
    c52_part2(ctx);     // (3) NaturalSum / SetToNaturalSumOrMax with two arguments
    c52_part3(ctx);     // (4) ... with three arguments
}

VHARNESS_MAIN(body)
#endif
