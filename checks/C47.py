"""C47 Helper replies reach the request that asked — E3 (lock-step), reply order x segmentation x injected replies.

The real ASan squid binary runs under the lock-step shim; the driver plays the clients, the origin AND
the helpers (url_rewrite_program / external_acl_type helper = vhelper, which hands its socket to the
driver).  One execution: R client requests are put in flight, the helper's reply stream (legitimate
replies in a chosen order, optionally one injected extra reply) is written in one piece or cut into
two writes at a chosen byte, Squid runs to quiescence after every write, the origin answers whatever
arrives.  Oracle (independent of Squid): a helper is a function of the request line it was given, so
the reply the driver writes for channel N is computed from line N only; every client request carries a
unique tag, and must reach the origin exactly once, rewritten / annotated / denied exactly as the reply
computed from ITS OWN helper line says; injected replies (duplicate, unknown, non-numeric channel) carry
poison payloads that must never show up anywhere.

Families: U3 url_rewrite concurrency=3, E3 external_acl concurrency=3, U12 url_rewrite concurrency=12
with 12 requests in flight on a fresh helper session (channels 1..12: a cut inside "12" leaves "1", a
live channel), U0 / E0 the same helpers with concurrency=0 (no channel IDs: replies in request order).
"""
import hashlib
import itertools
import os
import re
import signal
import socket
import time

from vverif import lockstep as ls
from vverif import httpref
from vverif.core import Result, Violation, HarnessError

LEVEL = 'model_checking'
MAXIDLEN = 5


class Stuck(Exception):
    """The helper session did not hand out the expected request lines (requests of an earlier execution still occupy it)."""


class Fam:
    def __init__(self, name, itype, kind, conc, nreq, tag, prefix):
        self.name, self.itype, self.kind, self.conc, self.nreq, self.tag, self.prefix = name, itype, kind, conc, nreq, tag, prefix
        self.label = '%s:%s' % ({'rw': 'rewrite', 'ext': 'extacl'}[kind], 'concurrent' if conc else 'serial')


FAMS = {f.name: f for f in [
    Fam('U3', 'A', 'rw', 3, 3, 'rw', '/o/'),
    Fam('E3', 'A', 'ext', 3, 3, 'ext', '/e/'),
    Fam('U12', 'B', 'rw', 12, 12, 'rw', '/o/'),
    Fam('U0', 'C', 'rw', 0, 3, 'rw', '/o/'),
    Fam('E0', 'C', 'ext', 0, 3, 'ext', '/e/'),
]}
RW_CONC = {'A': 3, 'B': 12, 'C': 0}
EXT_CONC = {'A': 3, 'B': 3, 'C': 0}
EXT_DENIED_RANK = 1          # the helper answers ERR for rank 1, "OK tag=..." for every other rank


def conf_for(ctx, itype, hubpath):
    hp = ls.helper_path(ctx)
    return '\n'.join([
        'url_rewrite_program %s %s rw' % (hp, hubpath),
        'url_rewrite_children 1 startup=1 idle=1 concurrency=%d queue-size=64' % RW_CONC[itype],
        'url_rewrite_extras "-"',
        'acl rwpath urlpath_regex ^/o/',
        'url_rewrite_access allow rwpath',
        'url_rewrite_access deny all',
        'external_acl_type vext ttl=0 negative_ttl=0 cache=0 children-max=1 children-startup=1 children-idle=1 '
        'concurrency=%d queue-size=64 %%URI %s %s ext' % (EXT_CONC[itype], hp, hubpath),
        'acl epath urlpath_regex ^/e/',
        'acl ext external vext',
        'http_access deny epath !ext',
        'request_header_add X-Ext-Tag "%note{tag}" all',
        'cache deny all',
    ]) + '\n'


class HW(ls.World):
    """World + the helper sessions played by the driver."""

    def __init__(self, ctx, name, port_base, itype):
        self.hubpath = os.path.join(ctx.rundir, name + '.hub')
        self.hub = ls.HelperHub(self.hubpath)
        super().__init__(ctx, name, port_base, conf=conf_for(ctx, itype, self.hubpath))
        self.itype = itype
        self.sess = {}
        self.pids = {}
        self.allpids = []
        self.nhelpers = 0
        self.next_id = {'rw': 0, 'ext': 0}     # channel IDs handed out so far by the current session (driver's count)
        self.resets = 0
        self.transitions = 0

    def start(self):
        try:
            self.sq.start(wait_ready=False)
            for attempt in range(5):        # an overloaded machine can exceed lockstep's 60 s start-up allowance
                try:
                    self.sq.wait_ready()
                    break
                except HarnessError as e:
                    if 'not ready after' not in str(e) or attempt == 4:
                        raise
            self._collect(2)
        except BaseException:
            self.stop()
            raise
        return self

    def _collect(self, want):
        hs = self.hub.wait_helpers(want, timeout=30)
        new = []
        for tag, conn in hs[self.nhelpers:]:
            t, pid = tag.split()
            self.sess[t] = conn
            self.pids[t] = int(pid)
            self.allpids.append(int(pid))
            self.next_id[t] = 0
            new.append(t)
        self.nhelpers = len(hs)
        return new

    def reset_session(self, tag):
        """Close the helper's socket: Squid sees EOF, drops the session and starts a new helper (channel IDs restart at 1)."""
        old, oldpid = self.sess[tag], self.pids[tag]
        # Squid calls a helper that exits within 30 s of its start without having answered anything "crashing too
        # rapidly" (fatal); virtual time stands still otherwise, so let that much time pass first
        self.sq.now_us += 31 * 1000000
        self.sq.kick()
        try:
            old.s.shutdown(socket.SHUT_RDWR)
        except OSError:
            pass
        self.sq.kick()
        new = self._collect(self.nhelpers + 1)
        if new != [tag]:
            raise HarnessError('session reset of %s started %r' % (tag, new))
        old.close()
        try:
            os.kill(oldpid, signal.SIGKILL)
        except OSError:
            pass
        self.sq.kick()
        self.drain(tag)
        self.resets += 1

    def adopt_new_session(self, tag):
        """Squid has closed the helper session itself and started a new helper."""
        old, oldpid = self.sess[tag], self.pids[tag]
        self.sq.kick()
        new = self._collect(self.nhelpers + 1)
        if new != [tag]:
            raise HarnessError('after Squid dropped helper %s, %r started' % (tag, new))
        old.close()
        try:
            os.kill(oldpid, signal.SIGKILL)
        except OSError:
            pass
        self.sq.kick()
        self.drain(tag)
        self.resets += 1

    def drain(self, tag):
        """Answer (ERR) helper requests that do not belong to any running execution: requests of closed clients that
        were still queued inside Squid are dispatched as soon as channels (or a new helper) become available."""
        sess = self.sess[tag]
        for _ in range(4):
            stale = sess.take()
            if sess.eof or not stale:
                break
            out = b''
            for ln in stale.split(b'\n')[:-1]:
                f = ln.split(b' ')
                if f[0].isdigit():
                    out += f[0] + b' ERR\n'
                    self.next_id[tag] = max(self.next_id[tag], int(f[0]))
                else:
                    out += b'ERR\n'
            if out:
                sess.send(out)
            self.sq.kick()
            self._origin_step(None, ls.Exchange())

    def kick(self):
        self.transitions += 1
        self.sq.kick()

    def stop(self):
        try:
            for tag, conn in self.hub.accept_all()[self.nhelpers:]:      # stubs that connected but were never used
                self.allpids.append(int(tag.split()[1]))
        except Exception:
            pass
        for p in self.allpids:
            try:
                os.kill(p, signal.SIGKILL)
            except OSError:
                pass
        try:
            if self.sq.alive():
                self.sq.kick()       # lets Squid reap the stubs
        except Exception:
            pass
        try:
            super().stop()
        finally:
            self.hub.close()
            try:
                os.unlink(self.hubpath)
            except OSError:
                pass


# ------------------------------------------------------------------ the helper function (what a correct helper answers)

URL_RE = re.compile(rb'^http://127\.0\.0\.1:(\d+)/([oe])/(\d{6})/(\d+)$')


def helper_answer(F, url):
    """The reply body a correct helper gives for the request line carrying `url` (depends on that line only)."""
    m = URL_RE.match(url)
    if not m:
        raise HarnessError('helper got an unexpected URL %r' % url)
    port, kind, n, r = m.group(1), m.group(2), m.group(3), int(m.group(4))
    if F.kind == 'rw':
        return b'OK rewrite-url=http://127.0.0.1:%s/r/%s/%d' % (port, n, r), r
    if r == EXT_DENIED_RANK:
        return b'ERR', r
    return b'OK tag=t-%s-%d' % (n, r), r


UNK_TAIL_LEN = len(' 00 kv=1')


def poison_body(F, w, kind, live=None):
    if F.kind == 'rw':
        b = ('OK rewrite-url=%s' % w.url('/poison/%s' % kind)).encode()
    else:
        b = ('OK tag=poison-%s' % kind).encode()
    if kind == 'unk' and F.conc:
        # the ignored line of an unknown channel ends with text that looks like a reply of its own for a channel that
        # IS pending ("<live id> kv=1"): a cut right in front of it must not make Squid take the tail for a new reply
        b += (' %-2d kv=1' % (live if live is not None else 0)).encode()
    return b


def client_request(F, w, n, r):
    return ('GET %s HTTP/1.1\r\nHost: %s\r\nX-Req: %06d.%d\r\n\r\n' % (w.url('%s%06d/%d' % (F.prefix, n, r)), w.hostport(), n, r)).encode()


def make_responder(w):
    def responder(m):
        b = b'P=' + m.target + b';T=' + (m.get('x-req') or '-').encode('latin1') + b';E=' + (m.get('x-ext-tag') or '-').encode('latin1')
        return (b'HTTP/1.1 200 OK\r\nDate: ' + ls.http_date(w.sq.now_us).encode() + b'\r\nContent-Length: %d\r\n\r\n' % len(b)) + b
    return responder


# ------------------------------------------------------------------ reply stream construction

class Item:
    def __init__(self, kind, rank, idb, body):
        self.kind, self.rank, self.idb, self.body = kind, rank, idb, body     # kind: legit|dup|unk|nonnum
        self.data = (idb + b' ' if idb is not None else b'') + body + b'\n'
        self.idlen = len(idb) if idb is not None else 0


def build_items(F, w, order, inj, ids, urls):
    """ids/urls: per rank, as read from Squid's helper lines.  Returns the list of Items in stream order."""
    items = []
    for pos, r in enumerate(order):
        if inj and inj['pos'] == pos:
            k = inj['kind']
            if k == 'dup':
                idb = b'%d' % ids[order[pos - 1]]
            elif k == 'unk':
                idb = b'%d' % (max(ids.values()) + 4)
            else:
                idb = b'abc'
            items.append(Item(k, None, idb, poison_body(F, w, k, live=ids[r] if F.conc else None)))
        body, rr = helper_answer(F, urls[r])
        if rr != r:
            raise HarnessError('rank mismatch')
        items.append(Item('legit', r, (b'%d' % ids[r]) if F.conc else None, body))
    return items


def positions_for(F, order, inj, cutsel):
    """Structural cut positions, independent of the actual channel-ID lengths: (item index, 'id', k) = after k ID
    digits, (item index, 'b', j) = after the ID, the space and j body bytes (j = len(body)+1: after the newline)."""
    kinds = []
    for pos, r in enumerate(order):
        if inj and inj['pos'] == pos:
            kinds.append(inj['kind'])
        kinds.append('legit')
    out_inj, out = [], []
    for i, k in enumerate(kinds):
        last = i == len(kinds) - 1
        blen = body_len(F, k)
        tgt = out_inj if k != 'legit' else out
        if F.conc:
            for d in range(1, MAXIDLEN + 1):
                tgt.append((i, 'id', d))
        if cutsel == 'all' or (k != 'legit' and cutsel == 'struct'):
            js = range(0, blen + 2)
        elif cutsel == 'struct':
            js = [0, blen, blen + 1]
        else:
            js = [0, blen + 1]
        for j in js:
            if j == blen + 1 and last:
                continue        # that is the end of the stream
            if not F.conc and j == 0:
                continue        # serial: offset 0 of an item is the line boundary already enumerated with the previous item
            tgt.append((i, 'b', j))
    return [None] + out_inj + out


def body_len(F, kind):
    """Body lengths are fixed by construction (zero-padded case numbers, 5-digit ports)."""
    if kind == 'legit':
        return {'rw': len(b'OK rewrite-url=http://127.0.0.1:12345/r/000000/0'), 'ext': len(b'OK tag=t-000000-0')}[F.kind]
    return {'rw': len('OK rewrite-url=http://127.0.0.1:12345/poison/' + kind), 'ext': len('OK tag=poison-' + kind)}[F.kind] + (
        UNK_TAIL_LEN if kind == 'unk' and F.conc else 0)


def resolve_cut(F, items, pos):
    """-> (byte offset in the stream or None when the position does not exist for these IDs, cut class, item kind)."""
    if pos is None:
        return None, 'uncut', '-'
    i, part, k = pos
    it = items[i]
    start = sum(len(x.data) for x in items[:i])
    if part == 'id':
        if not F.conc or it.idb is None or k > it.idlen:
            return -1, None, None
        off = k
        if k < it.idlen:
            cls = 'in-id'
            live_ids = {int(x.idb) for x in items[i + 1:] if x.kind == 'legit'}     # channels still unanswered at the cut
            if it.idb[:k].isdigit() and int(it.idb[:k]) in live_ids:
                cls = 'in-id-live-prefix'
        else:
            cls = 'after-id'
    else:
        blen = len(it.body)
        if k > blen + 1:
            return -1, None, None
        off = (it.idlen + 1 if it.idb is not None else 0) + k
        if k == 0:
            cls = 'after-sp'
        elif k == blen + 1:
            cls = 'line-boundary'
        elif k == blen:
            cls = 'before-eol'
        else:
            cls = 'in-body'
    if off >= len(it.data) and i == len(items) - 1:
        return -1, None, None
    return start + off, cls, it.kind


def position_exists(w, F, case):
    """Channel IDs are handed out sequentially, so their lengths can be predicted: skip ('id', k) positions beyond them."""
    base = 0 if F.name == 'U12' else w.next_id[F.tag]
    ids = {r: base + 1 + r for r in range(F.nreq)}
    urls = {r: w.url('%s%06d/%d' % (F.prefix, 0, r)).encode() for r in range(F.nreq)}
    items = build_items(F, w, case['order'], case.get('inj'), ids, urls)
    return resolve_cut(F, items, tuple(case['pos']))[0] != -1


# ------------------------------------------------------------------ one execution

def read_lines(w, sess, want, tries=4):
    buf = b''
    for _ in range(tries):
        buf += sess.take()
        if buf.count(b'\n') >= want:
            break
        w.kick()
    return buf


def serve(w, clients, ex, maxsteps=14):
    """Origin answers whatever has arrived; Squid runs; until every client has its response or nothing moves any more
    (Squid is quiescent after every kick and virtual time stands still, so "nothing moved" is final)."""
    responder = make_responder(w)
    idle = 0
    done = [False] * len(clients)
    for _ in range(maxsteps):
        p = w._origin_step(responder, ex)
        if p or idle:
            w.kick()
        for i, c in enumerate(clients):
            if c.pump():
                p = True
            if not done[i]:
                m = httpref.parse_response(c.inbuf, 'GET', eof=c.eof)
                done[i] = bool(m.complete and not m.error)
        if all(done):
            break
        if not p:
            idle += 1
            if idle >= 2:
                break
        else:
            idle = 0


def judge(F, w, n, clients, ex, denied_expected=True):
    """Independent oracle.  Returns (symptoms per rank dict, list of global symptoms)."""
    sym = {}
    glob = []
    by_tag = {}
    for m in ex.origin_requests:
        tag = m.get('x-req') or '-'
        by_tag.setdefault(tag, []).append(m)
    mine = {'%06d.%d' % (n, r): r for r in range(F.nreq)}
    for tag, ms in by_tag.items():
        if tag not in mine:
            glob.append('origin got a request with foreign tag %s: %r' % (tag, ms[0].start[:80]))
    for r in range(F.nreq):
        tag = '%06d.%d' % (n, r)
        ms = by_tag.get(tag, [])
        resp = httpref.parse_response(clients[r].inbuf, 'GET', eof=clients[r].eof)
        status = resp.status if resp.head_complete and not resp.error else 0
        s = []
        if F.kind == 'rw':
            want = ('/r/%06d/%d' % (n, r)).encode()
            if not ms:
                s.append('lost(client status %d)' % status)
            for m in ms:
                if m.target == want:
                    continue
                if m.target.startswith(b'/poison/'):
                    s.append('poison:' + m.target.decode('latin1'))
                elif m.target == ('/o/%06d/%d' % (n, r)).encode():
                    s.append('unrewritten')
                elif m.target.startswith(b'/r/'):
                    s.append('foreign-rewrite:' + m.target.decode('latin1'))
                else:
                    s.append('garbled:' + m.target.decode('latin1')[:40])
            if len(ms) > 1:
                s.append('forwarded %d times' % len(ms))
            if ms and not s:
                wantb = b'P=' + want + b';T=' + tag.encode() + b';E=-'
                if status != 200 or resp.body != wantb:
                    s.append('client got status %d body %r' % (status, resp.body[:60]))
        else:
            want = ('/e/%06d/%d' % (n, r)).encode()
            if r == EXT_DENIED_RANK:
                if ms:
                    s.append('allowed-though-ERR(tag %s)' % (ms[0].get('x-ext-tag') or '-'))
                elif status != 403:
                    s.append('lost(client status %d)' % status)
            else:
                wt = 't-%06d-%d' % (n, r)
                if not ms:
                    s.append('denied-though-OK' if status == 403 else 'lost(client status %d)' % status)
                for m in ms:
                    t = m.get('x-ext-tag') or '-'
                    if m.target != want:
                        s.append('garbled:' + m.target.decode('latin1')[:40])
                    elif t.startswith('poison'):
                        s.append('poison:' + t)
                    elif t != wt:
                        s.append('foreign-annotation:' + t)
                if len(ms) > 1:
                    s.append('forwarded %d times' % len(ms))
        if s:
            sym[r] = s
    return sym, glob


def crash_signature(probs):
    for p in probs:
        m = re.search(r'assertion failed: ([\w./]+):\d+: "([^"]*)"', p)
        if m:
            return 'assert:%s:%s' % (m.group(1), m.group(2))
    for p in probs:
        m = re.search(r'AddressSanitizer: ([\w-]+)', p)
        if m and m.group(1) != 'ABRT':
            return 'asan:' + m.group(1)
    return 'exit'


def key_of(F, inj, cls, itemkind, crash):
    if crash:
        return '%s:inj=%s:crash:%s' % (F.label, inj['kind'] if inj else 'none', crash)
    if cls in ('in-id', 'in-id-live-prefix', 'after-id'):
        return '%s:split-%s@%s' % (F.label, cls, itemkind)
    return '%s:inj=%s:cut=%s@%s' % (F.label, inj['kind'] if inj else 'none', cls, itemkind)


def st_hash(*parts):
    return int.from_bytes(hashlib.md5(repr(parts).encode()).digest()[:8], 'big')


def execute(w, case, n):
    """Run one execution.  case: fam, order, inj, pos, mode.  Returns a dict (see below); never raises for Squid's faults."""
    F = FAMS[case['fam']]
    if F.conc:
        return exec_conc(w, F, case, n)
    return exec_serial(w, F, case, n)


def finish(w, F, case, n, clients, ex, cls, itemkind, transcript, states, id_base, idlens, ids=None):
    sym, glob = judge(F, w, n, clients, ex)
    for c in clients:
        c.close()
    w.kick()
    w._origin_step(make_responder(w), ls.Exchange())
    probs = w.sq.health_problems()
    crash = crash_signature(probs) if probs else None
    res = {'n': n, 'cls': cls, 'itemkind': itemkind, 'id_base': id_base, 'idlens': idlens, 'states': states,
           'violation': None, 'key': None, 'crash': crash, 'outcome': 'ok'}
    transcript.append('origin: ' + ' | '.join('%s %s' % (m.get('x-req'), m.target.decode('latin1')) for m in ex.origin_requests))
    transcript.append('clients: ' + ' '.join(str(httpref.parse_response(c.inbuf, 'GET', eof=c.eof).status) for c in clients))
    if crash:
        res['outcome'] = 'crash'
        res['key'] = key_of(F, case.get('inj'), cls, itemkind, crash)
        res['violation'] = 'squid died while the helper reply stream was being processed (%s); the in-flight requests never got their replies: %s' % (
            crash, '; '.join(p[:200] for p in probs if 'sanitizer' not in p)[:500])
    elif sym or glob:
        res['outcome'] = 'misapplied' if any(not x.startswith('lost') for v in sym.values() for x in v) or glob else 'lost'
        res['key'] = key_of(F, case.get('inj'), cls, itemkind, None)
        res['violation'] = '; '.join(['request %06d.%d: %s' % (n, r, ','.join(v)) for r, v in sorted(sym.items())] + glob)[:700]
        if ids is not None:
            res['flush_ids'] = [ids[r] for r, v in sorted(sym.items()) if any(x.startswith('lost') for x in v)]
    res['transcript'] = '\n'.join(transcript)
    return res


def exec_conc(w, F, case, n):
    sess = w.sess[F.tag]
    R = F.nreq
    order, inj, pos = case['order'], case.get('inj'), case.get('pos')
    id_base = w.next_id[F.tag]
    clients = []
    for r in range(R):
        c = w.sq.client()
        c.send(client_request(F, w, n, r))
        clients.append(c)
    w.kick()
    raw = read_lines(w, sess, R)
    lines = raw.split(b'\n')
    if len(lines) != R + 1 or lines[-1] != b'':
        for c in clients:
            c.close()
        w.kick()
        raise Stuck('helper %s expected %d request lines, got %r (problems: %r)' % (F.tag, R, raw[:300], w.sq.health_problems()))
    ids, urls = {}, {}
    for ln in lines[:-1]:
        f = ln.split(b' ')
        m = URL_RE.match(f[1]) if len(f) > 1 else None
        if not f[0].isdigit() or not m or int(m.group(3)) != n:
            for c in clients:
                c.close()
            w.kick()
            raise Stuck('unexpected helper line %r (a request of an earlier execution?)' % ln)
        r = int(m.group(4))
        ids[r], urls[r] = int(f[0]), f[1]
    if sorted(ids.values()) != list(range(id_base + 1, id_base + R + 1)) or len(ids) != R:
        for c in clients:
            c.close()
        w.kick()
        raise Stuck('channel IDs %r do not continue from %d' % (ids, id_base))
    w.next_id[F.tag] = max(ids.values())
    items = build_items(F, w, order, inj, ids, urls)
    stream = b''.join(x.data for x in items)
    cut, cls, itemkind = resolve_cut(F, items, tuple(pos) if pos is not None else None)
    transcript = ['helper lines: ' + raw.decode('latin1').replace('\n', '|')]
    states = []
    idlens = ''.join(str(len(str(ids[r]))) for r in order)
    if cut == -1:
        # the structural position does not exist for these channel-ID lengths: answer plainly, do not count
        cut, cls, itemkind = None, 'n/a', '-'
    if cut is None:
        sess.send(stream)
        w.kick()
        transcript.append('write: %r' % stream)
        states.append(st_hash(F.name, tuple(order), inj and (inj['kind'], inj['pos']), 'whole', idlens))
    else:
        sess.send(stream[:cut])
        w.kick()
        states.append(st_hash(F.name, tuple(order), inj and (inj['kind'], inj['pos']), tuple(pos), cls, idlens))
        sess.send(stream[cut:])
        w.kick()
        transcript.append('write: %r + %r' % (stream[:cut], stream[cut:]))
    ex = ls.Exchange()
    serve(w, clients, ex)
    return finish(w, F, case, n, clients, ex, cls, itemkind, transcript, states, id_base, idlens, ids=ids)


def exec_serial(w, F, case, n):
    """concurrency=0: no channel IDs.  mode 'natural': the helper answers each line when it sees it (the reply that
    contains the cut is written in two pieces); mode 'eager': the helper has pre-written all replies (in request
    order) and the whole stream is cut once."""
    sess = w.sess[F.tag]
    R = F.nreq
    pos, mode = case.get('pos'), case['mode']
    clients = []
    transcript = []
    states = []
    for r in range(R):
        c = w.sq.client()
        c.send(client_request(F, w, n, r))
        clients.append(c)
        w.kick()             # arrival (= dispatch) order is rank order
    urls = {r: w.url('%s%06d/%d' % (F.prefix, n, r)).encode() for r in range(R)}
    order = list(range(R))
    items = build_items(F, w, order, None, {}, urls)
    cut, cls, itemkind = resolve_cut(F, items, tuple(pos) if pos is not None else None)
    if cut == -1:
        cut, cls, itemkind = None, 'n/a', '-'
    seen = b''
    if mode == 'eager':
        stream = b''.join(x.data for x in items)
        if cut is None:
            sess.send(stream)
            w.kick()
            transcript.append('write: %r' % stream)
            states.append(st_hash(F.name, mode, 'whole'))
        else:
            sess.send(stream[:cut])
            w.kick()
            sess.send(stream[cut:])
            w.kick()
            transcript.append('write: %r + %r' % (stream[:cut], stream[cut:]))
            states.append(st_hash(F.name, mode, tuple(pos)))
        w.kick()
        seen = sess.take()
    else:
        start = 0
        for i, it in enumerate(items):
            got = read_lines(w, sess, 1, tries=2)
            seen += got
            # the helper answers the line it has just read
            f = got.split(b'\n')[0].split(b' ')
            if not got.endswith(b'\n') or got.count(b'\n') != 1:
                transcript.append('helper saw %r when it expected exactly one line' % got)
                break
            body, r = helper_answer(F, f[0])
            data = body + b'\n'
            if cut is not None and start < cut < start + len(data):
                sess.send(data[:cut - start])
                w.kick()
                sess.send(data[cut - start:])
                w.kick()
                transcript.append('write: %r + %r' % (data[:cut - start], data[cut - start:]))
                states.append(st_hash(F.name, mode, tuple(pos)))
            else:
                sess.send(data)
                w.kick()
                transcript.append('write: %r' % data)
                states.append(st_hash(F.name, mode, i, 'whole'))
            start += len(it.data)
    transcript.insert(0, 'helper lines: ' + seen.decode('latin1').replace('\n', '|'))
    ex = ls.Exchange()
    serve(w, clients, ex)
    res = finish(w, F, case, n, clients, ex, cls, itemkind, transcript, states, 0, '')
    if not res['violation'] and [l.split(b' ')[0] for l in seen.split(b'\n')[:-1]] != [urls[r] for r in range(R)]:
        raise HarnessError('serial helper saw lines %r, expected the %d requests in arrival order' % (seen, R))
    return res


def warm_to(w, F, id_base, nbase=900000):
    """Bring the helper session's channel-ID counter to id_base (fresh session first if it is already beyond)."""
    if not F.conc:
        return
    if w.next_id[F.tag] != id_base:
        w.reset_session(F.tag)       # a fresh session is also a clean one
    k = 0
    while w.next_id[F.tag] < id_base:
        todo = min(F.conc, id_base - w.next_id[F.tag])
        sess = w.sess[F.tag]
        clients = []
        for r in range(todo):
            c = w.sq.client()
            c.send(client_request(F, w, nbase + k, r))
            clients.append(c)
        k += 1
        w.kick()
        raw = read_lines(w, sess, todo)
        out = b''
        for ln in raw.split(b'\n')[:-1]:
            f = ln.split(b' ')
            out += f[0] + b' ' + helper_answer(F, f[1])[0] + b'\n'
            w.next_id[F.tag] = max(w.next_id[F.tag], int(f[0]))
        if raw.count(b'\n') != todo:
            raise HarnessError('warm-up: expected %d lines, got %r' % (todo, raw))
        sess.send(out)
        serve(w, clients, ls.Exchange())
        for c in clients:
            c.close()
        w.kick()


def recover(w, F, r):
    """After a violating execution requests may still sit in the helper session.  Concurrent families: answer the
    channels whose requests were lost (their clients are gone, so nothing is forwarded) and keep the session, so that
    channel IDs keep growing; if Squid dropped the helper over that, or for the other families: new session."""
    w._origin_step(make_responder(w), ls.Exchange())
    if F.conc and F.name != 'U12' and r.get('flush_ids') is not None:
        sess = w.sess[F.tag]
        if r['flush_ids']:
            sess.send(b''.join(b'%d ERR\n' % i for i in r['flush_ids']))
            w.kick()
        w.drain(F.tag)
        if sess.eof:
            w.adopt_new_session(F.tag)
    else:
        w.reset_session(F.tag)
    for _ in range(2):
        w.kick()
        w._origin_step(make_responder(w), ls.Exchange())


# ------------------------------------------------------------------ job lists

def inj_variants(R):
    out = []
    for kind in ('unk', 'dup', 'nonnum'):
        for pos in range(R):
            if kind == 'dup' and pos == 0:
                continue
            out.append({'kind': kind, 'pos': pos})
    return out


def jobs_for(tier):
    J = []
    perms3 = [list(p) for p in itertools.permutations(range(3))]
    q = tier == 'quick'
    for fam in ('U3', 'E3'):
        for o in perms3:
            J.append({'fam': fam, 'order': o, 'inj': None, 'cutsel': 'all'})
        for o in (perms3 if not q else [perms3[0], perms3[-1]]):
            for iv in inj_variants(3):
                J.append({'fam': fam, 'order': o, 'inj': iv, 'cutsel': 'struct' if q else 'all'})
    asc = list(range(12))
    two_first = [9, 10, 11] + list(range(9))
    inter = [0, 9, 1, 10, 2, 11, 3, 4, 5, 6, 7, 8]
    if q:
        J.append({'fam': 'U12', 'order': asc, 'inj': None, 'cutsel': 'idonly'})
        J.append({'fam': 'U12', 'order': two_first, 'inj': None, 'cutsel': 'idonly'})
    else:
        for o in (asc, asc[::-1], two_first, inter):
            J.append({'fam': 'U12', 'order': o, 'inj': None, 'cutsel': 'struct'})
        J.append({'fam': 'U12', 'order': two_first, 'inj': None, 'cutsel': 'all'})
        J.append({'fam': 'U12', 'order': inter, 'inj': {'kind': 'unk', 'pos': 3}, 'cutsel': 'struct'})
        J.append({'fam': 'U12', 'order': inter, 'inj': {'kind': 'dup', 'pos': 3}, 'cutsel': 'struct'})
        J.append({'fam': 'U12', 'order': two_first, 'inj': {'kind': 'unk', 'pos': 0}, 'cutsel': 'struct'})    # unknown channel 16 while channel 1 is live
    for fam in ('U0', 'E0'):
        for mode in ('natural', 'eager'):
            J.append({'fam': fam, 'order': [0, 1, 2], 'inj': None, 'cutsel': 'all', 'mode': mode})
    # a non-numeric channel may crash Squid (every crash costs an instance start): such jobs are split into the cuts
    # inside the injected line and the rest, so that the former are all run before the crash cap can stop the shard
    K = []
    for j in J:
        if j['inj'] and j['inj']['kind'] == 'nonnum':
            K.append(dict(j, part='inside'))
            K.append(dict(j, part='rest'))
        else:
            K.append(j)
    J = K
    for j in J:
        j.setdefault('mode', 'conc')
        F = FAMS[j['fam']]
        P = positions_for(F, j['order'], j['inj'], j['cutsel'])
        if j.get('part'):
            ii = j['inj']['pos']       # stream index of the injected item = its position (one item per earlier reply)
            inside = [p for p in P if p is not None and p[0] == ii and not (p[1] == 'b' and p[2] == body_len(F, 'nonnum') + 1)]
            P = inside if j['part'] == 'inside' else [p for p in P if p not in inside]
        j['positions'] = P
        per = {'A': 0.06, 'B': 0.6, 'C': 0.06}[F.itype]
        j['cost'] = len(j['positions']) * per * (0.55 if F.conc else 1.0)
    return J


def plan_shards(jobs, nshards, nn_bins=1):
    """Every shard runs one instance type.  Big jobs are split (interleaved positions); jobs that inject a non-numeric
    channel (which may crash Squid: every crash costs an instance start) are confined to nn_bins shards of their type
    and run last there; everything is spread by estimated cost, longest first."""
    total = sum(j['cost'] for j in jobs)
    piece = max(total / (2.5 * nshards), 3.0)
    split = []
    for j in jobs:
        k = int(min(8, max(1, round(j['cost'] / piece))))
        if k == 1 or j.get('part') == 'rest':
            split.append(j)
            continue
        for i in range(k):
            P = j['positions'][i::k]
            split.append(dict(j, positions=P, cost=j['cost'] * len(P) / len(j['positions']), piece='%d/%d' % (i + 1, k)))
    by_type = {}
    for j in split:
        by_type.setdefault(FAMS[j['fam']].itype, []).append(j)
    types = sorted(by_type)
    alloc = {t: 1 for t in types}
    for _ in range(nshards - len(types)):
        t = max(types, key=lambda x: (sum(j['cost'] for j in by_type[x]) / alloc[x]) if alloc[x] < len(by_type[x]) else -1)
        alloc[t] += 1
    shards = []
    for t in types:
        k = alloc[t]
        bins = [[] for _ in range(k)]
        load = [0.0] * k
        nn = [j for j in by_type[t] if j.get('part')]
        rest = [j for j in by_type[t] if not j.get('part')]
        m = min(k, nn_bins) if nn else 0
        for j in sorted(nn, key=lambda x: -x['cost']):
            i = load.index(min(load[:m]))
            bins[i].append(j)
            load[i] += j['cost'] * 0.6
        for i in range(m):
            load[i] += 25
        for j in sorted(rest, key=lambda x: -x['cost']):
            i = load.index(min(load))
            bins[i].append(j)
            load[i] += j['cost']
        for b in bins:
            if b:
                b.sort(key=lambda x: {None: 0, 'inside': 1, 'rest': 2}[x.get('part')])
                shards.append({'itype': t, 'jobs': b})
    return shards


# ------------------------------------------------------------------ shard worker

DET_N = 6


def run_shard(ctx, shard, plan, tier, t_end):
    itype = plan['itype']
    crash_cap = 3
    res = {'executions': 0, 'transitions': 0, 'states': set(), 'outcomes': {}, 'classes': {}, 'idlens': {}, 'viol': {},
           'skipped_after_crashes': 0, 'na_positions': 0, 'deadline_hit': False, 'samples': [], 'starts': 0, 'resets': 0,
           'replays': 0, 'per_fam': {}, 'live_prefix_cuts': 0, 'inj_seen': {}, 'jobs_done': 0, 'jobs_total': len(plan['jobs']),
           'stuck_resets': 0}
    st = {'w': None, 'n': shard * 50000}

    def fresh():
        if st['w'] is not None:
            res['transitions'] += st['w'].transitions
            res['resets'] += st['w'].resets
            st['w'].stop()
            st['w'] = None
        for attempt in (0, 1):
            w = HW(ctx, 'w%d' % shard, ls.port_base_for_check(ctx.pid, shard), itype)
            try:
                w.start()
                break
            except HarnessError:
                if attempt:         # an overloaded machine can exceed the start-up allowance once
                    raise
        st['w'] = w
        res['starts'] += 1
        return w

    def one(case, n=None):
        if n is None:
            st['n'] += 1
            n = st['n']
        w = st['w']
        F = FAMS[case['fam']]
        if F.name == 'U12' and w.next_id[F.tag] != 0:
            w.reset_session(F.tag)
        try:
            r = execute(w, case, n)
        except Stuck:
            w.reset_session(F.tag)
            res['stuck_resets'] += 1
            try:
                r = execute(w, case, n)
            except Stuck as e:
                raise HarnessError(str(e))
        if r['crash']:
            fresh()
        elif r['violation']:
            recover(st['w'], F, r)
        return r

    def case_of(job, pos):
        return {'fam': job['fam'], 'order': job['order'], 'inj': job['inj'], 'pos': pos, 'mode': job['mode']}
    crashes = {}
    try:
        fresh()
        # determinism obligation: the first executions are run on a first instance, then again on a second one
        # (the same sequence of executions, without the confirmation replays of the main loop in between)
        j0 = plan['jobs'][0]
        n0 = st['n']
        passes = []
        for rnd in (0, 1):
            if rnd:
                fresh()
            st['n'] = n0
            got = {}
            for pi, pos in enumerate(j0['positions'][:DET_N]):
                if pos is not None and not position_exists(st['w'], FAMS[j0['fam']], case_of(j0, pos)):
                    continue
                got[pi] = one(case_of(j0, pos))
                res['replays'] += 1
            passes.append(got)
        for pi in passes[0]:
            a, b = passes[0][pi], passes[1].get(pi)
            if b is None or a['transcript'] != b['transcript'] or a['outcome'] != b['outcome']:
                raise HarnessError('nondeterminism: %r gave different transcripts on two instances:\n%s\n---\n%s' % (
                    case_of(j0, j0['positions'][pi]), a['transcript'][:800], (b or {}).get('transcript', 'not run')[:800]))
        for ji, job in enumerate(plan['jobs']):
            F = FAMS[job['fam']]
            injk = job['inj']['kind'] if job['inj'] else 'none'
            for pi, pos in enumerate(job['positions']):
                if time.time() > t_end:
                    res['deadline_hit'] = True
                    break
                if crashes.get((F.label, injk), 0) >= crash_cap:
                    res['skipped_after_crashes'] += 1
                    continue
                case = case_of(job, pos)
                if pos is not None and not position_exists(st['w'], F, case):
                    res['na_positions'] += 1
                    continue
                r = one(case)
                if r['cls'] == 'n/a':
                    res['na_positions'] += 1
                    continue
                res['executions'] += 1
                res['states'].update(r['states'])
                res['outcomes'][r['outcome']] = res['outcomes'].get(r['outcome'], 0) + 1
                ck = '%s:%s@%s' % (F.name, r['cls'], r['itemkind'])
                res['classes'][ck] = res['classes'].get(ck, 0) + 1
                res['per_fam'][F.name] = res['per_fam'].get(F.name, 0) + 1
                res['inj_seen'][injk] = res['inj_seen'].get(injk, 0) + 1
                if r['cls'] == 'in-id-live-prefix':
                    res['live_prefix_cuts'] += 1
                if F.conc:
                    il = '%s:%s' % (F.name, ''.join(sorted(r['idlens'])))
                    res['idlens'][il] = res['idlens'].get(il, 0) + 1
                if len(res['samples']) < 2 and (pi in (3, 40) or not res['samples']):
                    res['samples'].append({'case': case, 'n': r['n'], 'id_base': r['id_base'], 'outcome': r['outcome'],
                                           'transcript': r['transcript'][:700]})
                if r['crash']:
                    crashes[(F.label, injk)] = crashes.get((F.label, injk), 0) + 1
                if r['violation']:
                    v = res['viol'].setdefault(r['key'], {'count': 0, 'confirmed': 0, 'what': None, 'replay': None})
                    v['count'] += 1
                    if v['confirmed'] < 1:
                        # replay twice (same channel-ID base, same bytes) before reporting
                        ok = 0
                        for _ in range(2):
                            # the same choice list again, continuing the session (channel IDs of the same lengths);
                            # if that does not land in the same class, again at exactly the same channel-ID base
                            for exact in (False, True):
                                if exact:
                                    warm_to(st['w'], F, r['id_base'])
                                elif F.conc and F.name != 'U12' and not r['crash'] and \
                                        len(str(st['w'].next_id[F.tag] + 1)) != len(str(r['id_base'] + 1)):
                                    continue
                                r2 = one(case, n=r['n'])
                                res['replays'] += 1
                                if r2['crash']:
                                    crashes[(F.label, injk)] = crashes.get((F.label, injk), 0) + 1
                                if r2['violation'] and r2['key'] == r['key']:
                                    ok += 1
                                    break
                        if ok < 2:
                            raise HarnessError('violation not reproducible (%d of 2 replays): %r: %s' % (ok, case, r['violation']))
                        v['confirmed'] += 1
                        v['what'] = '%s [%s, channel-ID base %d] %s\n%s' % (r['key'], describe(case), r['id_base'], r['violation'], r['transcript'][:900])
                        v['replay'] = dict(case, n=r['n'], id_base=r['id_base'])
            else:
                res['jobs_done'] += 1
                continue
            break
    finally:
        if st['w'] is not None:
            res['transitions'] += st['w'].transitions
            res['resets'] += st['w'].resets
            st['w'].stop()
    res['states'] = sorted(res['states'])
    return res


def describe(case):
    return 'family %s, reply order %s, injected %s, cut %s%s' % (
        case['fam'], ''.join('%x' % r for r in case['order']), '%s before reply #%d' % (case['inj']['kind'], case['inj']['pos']) if case['inj'] else 'nothing',
        case['pos'], '' if case['mode'] == 'conc' else ', mode ' + case['mode'])


ASSUME = [
    'the real squid binary (ASan build of the current tree) runs under the lock-step/virtual-time shim; clients, origin and both helpers are played by the driver',
    'the helper stub vhelper passes Squid\'s helper socket to the driver, so every helper write is one driver action followed by run-to-quiescence; a "read" of Squid\'s helper handler sees exactly the bytes of one write',
    'the reply written for a channel is computed from the request line Squid sent on that channel only (URL -> rewritten URL / tag), never from the driver\'s knowledge of which client sent it',
    'one helper process per helper type, one Squid worker (-N); the reply stream is cut into at most two writes',
]
RULE = ('an execution = (helper family, order of the legitimate replies, optional injected reply {unknown channel, duplicate channel, non-numeric channel} '
        'and its position, cut position of the reply stream or none); all of them are non-trivial: R requests are really in flight in the helper session '
        'and the stream is parsed by helperHandleRead; counted states = distinct (family, order, injection, cut position and class, channel-ID length pattern) '
        'situations after the first write')


def run(ctx):
    ls.build_squid(ctx)
    jobs = jobs_for(ctx.tier)
    plans = plan_shards(jobs, ctx.ncpu, nn_bins=1 if ctx.quick else 3)
    # the tier deadline includes the build; after a slow (contended) build still explore for a minimum window
    t_end = max(ctx.t0 + ctx.deadline_s - (25 if ctx.quick else 60), time.time() + 90)

    def worker(i, items):
        return run_shard(ctx, i, items[0], ctx.tier, t_end)
    parts = ls.run_sharded(ctx, worker, plans, nshards=len(plans))
    agg = {'executions': 0, 'transitions': 0, 'outcomes': {}, 'classes': {}, 'idlens': {}, 'skipped_after_crashes': 0, 'na_positions': 0,
           'starts': 0, 'resets': 0, 'replays': 0, 'per_fam': {}, 'live_prefix_cuts': 0, 'inj_seen': {}, 'jobs_done': 0, 'jobs_total': 0,
           'stuck_resets': 0}
    states = set()
    viol = {}
    samples = []
    deadline = False
    for p in parts:
        for k in agg:
            if isinstance(agg[k], dict):
                for a, b in p[k].items():
                    agg[k][a] = agg[k].get(a, 0) + b
            else:
                agg[k] += p[k]
        states.update(p['states'])
        deadline = deadline or p['deadline_hit']
        samples += p['samples'][:1]
        for k, v in p['viol'].items():
            d = viol.setdefault(k, {'count': 0, 'what': None, 'replay': None})
            d['count'] += v['count']
            if v['what'] and (d['what'] is None or v['replay']['id_base'] < d['replay']['id_base']):
                d['what'], d['replay'] = v['what'], v['replay']       # the instance that is cheapest to replay
    # vacuity guards
    cl = agg['classes']

    def ncls(pfx):
        return sum(v for k, v in cl.items() if re.match(pfx, k))
    guards = {
        'executions': agg['executions'] >= (300 if ctx.quick else 3000),
        'cuts inside a channel ID': ncls(r'.*:in-id') >= 5,
        'cuts right after a channel ID': ncls(r'.*:after-id@legit') >= 30,
        'cuts at a live-channel prefix (U12)': agg['live_prefix_cuts'] >= 3,
        'injected unknown/duplicate replies': agg['inj_seen'].get('unk', 0) >= 20 and agg['inj_seen'].get('dup', 0) >= 20,
        'serial helper executions': agg['per_fam'].get('U0', 0) >= 50 and agg['per_fam'].get('E0', 0) >= 20,
        'executions in which every request was served correctly': agg['outcomes'].get('ok', 0) >= agg['executions'] // 2,
    }
    if not deadline and not viol:
        bad = [k for k, ok in guards.items() if not ok]
        if bad:
            raise HarnessError('vacuity guard(s) failed: %s; classes=%r outcomes=%r' % (bad, cl, agg['outcomes']))
    vio = []
    for k, v in sorted(viol.items()):
        vio.append(Violation(k, '%d execution(s) with this key; first: %s' % (v['count'], v['what']), v['replay']))
    exhaustive = not deadline and agg['skipped_after_crashes'] == 0 and agg['jobs_done'] == agg['jobs_total']
    cov = {
        'states': len(states), 'transitions': agg['transitions'], 'traces_validated_against_impl': agg['executions'],
        'samples': samples[:6], 'exhaustive': exhaustive,
        'bound_completed': bound_text(ctx.tier) + ('' if exhaustive else ' -- NOT complete: deadline_hit=%s, executions skipped after repeated identical crashes=%d, jobs %d/%d' % (
            deadline, agg['skipped_after_crashes'], agg['jobs_done'], agg['jobs_total'])),
        'rule': RULE, 'executions_per_family': agg['per_fam'], 'outcome_classes': agg['outcomes'], 'cut_classes': cl,
        'channel_id_length_patterns': agg['idlens'], 'injection_kinds': agg['inj_seen'], 'live_prefix_cuts': agg['live_prefix_cuts'],
        'positions_not_applicable': agg['na_positions'], 'skipped_after_repeated_crashes': agg['skipped_after_crashes'],
        'squid_starts': agg['starts'], 'helper_session_resets': agg['resets'], 'determinism_and_confirmation_replays': agg['replays'],
        'violating_executions_per_key': {k: v['count'] for k, v in viol.items()}, 'shards': len(plans), 'stuck_session_resets': agg['stuck_resets'],
    }
    return Result(LEVEL, cov, vio, ASSUME)


def bound_text(tier):
    if tier == 'quick':
        return ('U3/E3 (3 requests in flight, concurrency 3): all 6 reply orders x every byte cut (and uncut) without injection; orders 012 and 210 x '
                '{unknown, duplicate, non-numeric} injected before each reply x cuts at every structural boundary of every reply and every byte of the injected one; '
                'U12 (12 in flight, channels 1..12): 2 orders x cuts inside/after every channel ID and at line boundaries; '
                'U0/E0 (concurrency 0): every byte cut, helper answering line by line and helper answering ahead')
    return ('U3/E3: all 6 reply orders x {no injection, unknown/duplicate/non-numeric channel injected before each reply} x every byte cut (and uncut); '
            'U12: 4 orders x structural cuts, 1 order x every byte cut, unknown (twice) / duplicate injection x structural cuts; U0/E0: every byte cut in both helper modes')


def replay(ctx, data):
    ls.build_squid(ctx)
    F = FAMS[data['fam']]
    w = HW(ctx, 'replay', ls.port_base_for_check(ctx.pid, 0), F.itype)
    w.start()
    try:
        warm_to(w, F, data.get('id_base', 0))
        r = execute(w, data, data.get('n', 1))
        print(r['transcript'])
        print('outcome:', r['outcome'], r['violation'] or '')
    finally:
        w.stop()
    v = [Violation(r['key'], r['violation'], data)] if r['violation'] else []
    return Result(LEVEL, {}, v, ASSUME)
