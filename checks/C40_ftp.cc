// C40 — FTP address strings and directory-listing lines (E1).
//
// Real code: Ftp::ParseIpPort / Ftp::ParseProtoIpPort (src/ftp/Parsing.cc, from ftp/libftp.la of the
// testCacheManager link set) and the static listing-line parser ftpListParseParts() of
// src/clients/FtpGateway.cc, reached by #include-ing that file into this harness (its other members
// are never called; the link set provides everything it references).
//
// (a) PORT/PASV strings "h1,h2,h3,h4,p1,p2": every combination of six component tokens from a value
//     table; reference: accepted only if every component is a number in 0..255 and the port is 1..65535,
//     and then the address/port returned are exactly those.
// (b) EPRT strings "<d>proto<d>addr<d>port<d>": delimiter x proto x address x port x closing delimiter;
//     reference uses inet_pton (strict literals), proto 1 <-> IPv4, 2 <-> IPv6, port 1..65535.
// (c) listing lines: every short token sequence, seed lines of every supported format with one or two
//     token edits, EPLF fact lists, token-count boundaries around MAX_TOKENS; oracle: ASan silent and
//     the returned name/link are substrings of the input line.
#include "squid.h"
#include "clients/FtpGateway.cc"     // static ftpListParseParts(), ftpListPartsFree()

#include "ftp/Parsing.h"
#include "ip/Address.h"
#include "SquidConfig.h"

#include "vharness.h"

#include <arpa/inet.h>
#include <climits>

namespace {

std::map<std::string, int> reported;
void failCapped(const std::string &key, const std::string &msg)
{
    if (++reported[key] <= 3) V::failKey(key, msg);
    else V::count("failures_not_listed_again:" + key);
}

uint64_t nCalls = 0;

// ---------------------------------------------------------------- (a) h1,h2,h3,h4,p1,p2
struct Tok { const char *text; bool number; __int128 value; };
const __int128 Two32 = (__int128)1 << 32;
const Tok Toks[] = {
    {"0", true, 0}, {"1", true, 1}, {"127", true, 127}, {"255", true, 255}, {"256", true, 256}, {"-1", true, -1},
    {"4294967297", true, Two32 + 1},                                 // 2^32+1: wraps to 1 in a 32-bit int
    {"x", false, 0}, {"", false, 0},
    {"1000", true, 1000},                                            // its first three digits alone would be in range
    // thorough only:
    {"99999999999", true, (__int128)99999999999LL}, {"4294967423", true, Two32 + 127},
    {"18446744073709551617", true, ((__int128)1 << 64) + 1},
};
const int NToksQuick = 10, NToksThorough = 13;

std::string addrText(const Ip::Address &a)
{
    char b[MAX_IPSTRLEN];
    a.toStr(b, sizeof b);
    return std::string(b) + ":" + std::to_string(a.port());
}

void in6Of(const Ip::Address &a, unsigned char out[16])
{
    struct in6_addr x;
    a.getInAddr(x);
    memcpy(out, &x, 16);
}

void mapped(const unsigned char v4[4], unsigned char out[16])
{
    memset(out, 0, 16);
    out[10] = out[11] = 0xff;
    memcpy(out + 12, v4, 4);
}

const char *PresetIp = "10.9.8.7";
const unsigned short PresetPort = 4321;

void checkIpPort(const int idx[6], int sanity, bool force, bool preset)
{
    std::string s;
    bool allInRange = true, wraps = false;
    for (int i = 0; i < 6; ++i) {
        const Tok &t = Toks[idx[i]];
        if (i) s += ',';
        s += t.text;
        if (!t.number || t.value < 0 || t.value > 255) allInRange = false;
        if (t.number && t.value >= Two32) wraps = true;
    }
    const long refPort = allInRange ? (long)(Toks[idx[4]].value * 256 + Toks[idx[5]].value) : -1;
    const bool zeroIp = allInRange && Toks[idx[0]].value == 0 && Toks[idx[1]].value == 0 && Toks[idx[2]].value == 0 && Toks[idx[3]].value == 0;
    Config.Ftp.sanitycheck = sanity;
    Ip::Address addr;
    if (preset) { addr = PresetIp; addr.port(PresetPort); }
    const char *forceIp = force ? "10.1.2.3" : nullptr;
    ++nCalls;
    const bool ok = Ftp::ParseIpPort(s.c_str(), forceIp, addr);
    const std::string cfg = std::string(" [ParseIpPort(\"") + s + "\", forceIp=" + (force ? "10.1.2.3" : "null") + ", sanitycheck=" + std::to_string(sanity) +
                            (preset ? ", addr preset to 10.9.8.7:4321" : "") + "]";
    if (ok) {
        if (!allInRange) {
            bool octetsBad = false, portBad = false;
            for (int i = 0; i < 6; ++i) { const Tok &t = Toks[idx[i]]; if (!t.number || t.value < 0 || t.value > 255) (i < 4 ? octetsBad : portBad) = true; }
            bool onlySixthBad = true;
            for (int i = 0; i < 5; ++i) { const Tok &t = Toks[idx[i]]; if (!t.number || t.value < 0 || t.value > 255) onlySixthBad = false; }
            const Tok &last = Toks[idx[5]];
            if (onlySixthBad && last.number && last.value > 255 && strlen(last.text) > 3 && atoi(std::string(last.text, 3).c_str()) <= 255)
                failCapped("ParseIpPort:sixth-component-longer-than-3-digits-accepted-as-its-first-3-digits",
                           "accepted although p2 is out of range: only its first three digits were read, result " + addrText(addr) + cfg);
            else if (wraps)
                failCapped("ParseIpPort:component-above-2^32-wraps-into-range", "accepted although a component is out of range (it wrapped modulo 2^32), result " + addrText(addr) + cfg);
            else if (portBad)
                failCapped("ParseIpPort:port-component-out-of-range-accepted", "accepted although p1 or p2 is not in 0..255, result " + addrText(addr) + cfg);
            else if (octetsBad && force)
                failCapped("ParseIpPort:octets-not-validated-when-forceIp-is-given", "accepted although an address component is out of range (forceIp replaces the address, nothing validates h1..h4), result " + addrText(addr) + cfg);
            else if (octetsBad && preset)
                failCapped("ParseIpPort:invalid-octets-accepted-with-the-previous-address", "accepted although an address component is out of range; the caller's previous address was kept, result " + addrText(addr) + cfg);
            else
                failCapped("ParseIpPort:out-of-range-component-accepted", "accepted although a component is out of range, result " + addrText(addr) + cfg);
            V::outcome("ipport:accepted-out-of-range(violation)");
            return;
        }
        if (refPort < 1 || refPort > 65535) { failCapped("ParseIpPort:port-out-of-range-accepted", "accepted port " + std::to_string(refPort) + cfg); return; }
        if (addr.port() != refPort) { failCapped("ParseIpPort:wrong-port", "returned " + addrText(addr) + " instead of port " + std::to_string(refPort) + cfg); return; }
        unsigned char got[16], want[16];
        in6Of(addr, got);
        if (force) { const unsigned char f[4] = {10, 1, 2, 3}; mapped(f, want); }
        else { const unsigned char h[4] = {(unsigned char)Toks[idx[0]].value, (unsigned char)Toks[idx[1]].value, (unsigned char)Toks[idx[2]].value, (unsigned char)Toks[idx[3]].value}; mapped(h, want); }
        if (memcmp(got, want, 16) != 0) { failCapped("ParseIpPort:wrong-address", "returned " + addrText(addr) + cfg); return; }
        V::outcome("ipport:accepted");
    } else {
        if (allInRange && refPort >= (sanity ? 1024 : 1) && (force || !zeroIp)) {
            failCapped("ParseIpPort:in-range-string-rejected", "rejected although every component is in range" + cfg);
            return;
        }
        V::outcome(allInRange ? "ipport:rejected-port-or-any-address" : "ipport:rejected-out-of-range");
    }
}

// ---------------------------------------------------------------- (b) EPRT
struct AddrTok { const char *text; int family; bool strict; };   // family 4/6/0(invalid); strict: inet_pton agrees
const AddrTok AddrToks[] = {
    {"1.2.3.4", 4, true}, {"255.255.255.255", 4, true}, {"::1", 6, true}, {"2001:db8::1", 6, true},
    {"0000:0000:0000:0000:0000:0000:0000:0001", 6, true}, {"::ffff:1.2.3.4", 6, false},
    {"0.0.0.0", 4, true}, {"::", 6, true},
    {"256.1.1.1", 0, true}, {"1.2.3", 0, false}, {"1.2.3.4.5", 0, true}, {"garbage", 0, true}, {"", 0, true}, {"1.2.3.4 ", 0, false},
    {"12345:6::1", 0, true}, {"-1.2.3.4", 0, true},
    {"1111:2222:3333:4444:5555:6666:7777:8888:9999:aaaa:bbbb:cccc:dddd:eeee:ffff:0000", 0, true},   // 79 bytes > MAX_IPSTRLEN
    {"1111111111111111111111111111111111111111111111111111111111111111111111111", 0, true},          // 73 digits
    {"11111111111111111111111111111111111111111111111111111111111111111111111111", 0, true},         // 74 = MAX_IPSTRLEN-1
    {"111111111111111111111111111111111111111111111111111111111111111111111111111", 0, true},        // 75
};
const int NAddrToks = sizeof(AddrToks) / sizeof(AddrToks[0]);
const Tok ProtoToks[] = {{"0", true, 0}, {"1", true, 1}, {"2", true, 2}, {"3", true, 3}, {"-1", true, -1}, {"", false, 0}, {"x", false, 0},
    {"4294967297", true, Two32 + 1}, {"4294967298", true, Two32 + 2}, {"01", true, 1}, {"1x", false, 0}
};
const int NProtoToks = sizeof(ProtoToks) / sizeof(ProtoToks[0]);
const Tok PortToks[] = {{"-1", true, -1}, {"0", true, 0}, {"1", true, 1}, {"1023", true, 1023}, {"1024", true, 1024}, {"65535", true, 65535},
    {"65536", true, 65536}, {"70000", true, 70000}, {"4294967297", true, Two32 + 1}, {"4294968320", true, Two32 + 1024},
    {"99999999999999999999", true, ((__int128)1 << 66)}, {"x", false, 0}, {"", false, 0}, {"80x", false, 0}, {"2000", true, 2000}
};
const int NPortToks = sizeof(PortToks) / sizeof(PortToks[0]);

void checkProtoIpPort(char delim, const Tok &proto, const AddrTok &at, const Tok &port, int closing, int sanity, bool preset)
{
    std::string s(1, delim);
    s += proto.text; s += delim; s += at.text; s += delim; s += port.text;
    if (closing == 0) s += delim; else if (closing == 1) s += '|'; /* 2: missing */
    Config.Ftp.sanitycheck = sanity;
    Ip::Address addr;
    if (preset) { addr = PresetIp; addr.port(PresetPort); }
    ++nCalls;
    const bool ok = Ftp::ParseProtoIpPort(s.c_str(), addr);
    const std::string cfg = " [ParseProtoIpPort(\"" + s + "\"), sanitycheck=" + std::to_string(sanity) + (preset ? ", addr preset to 10.9.8.7:4321" : "") + "]";
    // reference
    unsigned char want[16];
    bool addrValid = false, addrAny = false;
    int fam = 0;
    unsigned char v4[4];
    struct in6_addr v6;
    if (inet_pton(AF_INET, at.text, v4) == 1) { addrValid = true; fam = 4; mapped(v4, want); addrAny = !v4[0] && !v4[1] && !v4[2] && !v4[3]; }
    else if (inet_pton(AF_INET6, at.text, &v6) == 1) { addrValid = true; fam = 6; memcpy(want, &v6, 16); static const unsigned char z[16] = {0}; addrAny = memcmp(want, z, 16) == 0; }
    if (addrValid != (at.family != 0) && at.strict) { V::fail("harness table inconsistent with inet_pton for " + std::string(at.text)); return; }
    const bool protoOk = proto.number && (proto.value == 1 || proto.value == 2);
    const bool famOk = addrValid && ((proto.value == 2) == (fam == 6));
    const bool portOk = port.number && port.value >= 1 && port.value <= 65535;
    if (ok) {
        if (!protoOk) {
            failCapped(proto.number && proto.value >= Two32 ? "ParseProtoIpPort:protocol-number-above-2^32-wraps-into-range" : "ParseProtoIpPort:bad-protocol-accepted", "accepted, result " + addrText(addr) + cfg);
            V::outcome("eprt:accepted-out-of-range(violation)"); return;
        }
        if (!portOk) {
            std::string key = "ParseProtoIpPort:bad-port-accepted";
            if (port.number && port.value == 0) key = "ParseProtoIpPort:port-0-accepted";
            else if (!port.number && !*port.text) key = "ParseProtoIpPort:empty-port-accepted-as-0";
            else if (port.number && port.value >= Two32) key = "ParseProtoIpPort:port-above-2^32-wraps";
            else if (port.number && port.value > 65535) key = "ParseProtoIpPort:port-above-65535-accepted";
            failCapped(key, "accepted although the port is not in 1..65535, result " + addrText(addr) + cfg);
            V::outcome("eprt:accepted-out-of-range(violation)"); return;
        }
        if (!at.strict) { V::outcome("eprt:accepted-lenient-address-literal"); return; }   // v4-mapped, inet_aton forms: not judged
        if (!addrValid) {
            failCapped(preset ? "ParseProtoIpPort:invalid-address-accepted-with-the-previous-address" : "ParseProtoIpPort:invalid-address-accepted",
                       "accepted although the address is not an IP literal, result " + addrText(addr) + cfg);
            V::outcome("eprt:accepted-out-of-range(violation)"); return;
        }
        if (!famOk) { failCapped("ParseProtoIpPort:protocol-family-mismatch-accepted", "accepted, result " + addrText(addr) + cfg); return; }
        if (addr.port() != (unsigned short)port.value) { failCapped("ParseProtoIpPort:wrong-port", "returned " + addrText(addr) + cfg); return; }
        unsigned char got[16];
        in6Of(addr, got);
        if (memcmp(got, want, 16) != 0) { failCapped("ParseProtoIpPort:wrong-address", "returned " + addrText(addr) + cfg); return; }
        V::outcome("eprt:accepted");
    } else {
        // completeness only for the canonical form
        if (delim == '|' && closing != 2 && protoOk && proto.text[1] == 0 && addrValid && !addrAny && famOk && portOk && port.value >= (sanity ? 1024 : 1) && at.strict) {
            failCapped("ParseProtoIpPort:well-formed-string-rejected", "rejected" + cfg);
            return;
        }
        V::outcome((protoOk && addrValid && famOk && portOk) ? "eprt:rejected-other" : "eprt:rejected-out-of-range");
    }
}

// ---------------------------------------------------------------- (c) listing lines
const std::string Long130a(130, 'a');
const std::string Long130d(130, '1');

uint64_t nParsed = 0, nNull = 0;

void parseLine(const std::string &line, int flagSet)
{
    Ftp::GatewayFlags flags;
    flags.skip_whitespace = (flagSet == 1);
    flags.tried_nlst = (flagSet == 2);
    // exact-size heap copy so that ASan sees any read beyond the line
    char *buf = (char *)malloc(line.size() + 1);
    memcpy(buf, line.c_str(), line.size() + 1);
    ++nCalls;
    ftpListParts *p = ftpListParseParts(buf, flags);
    if (!p) {
        ++nNull;
        V::outcome("list:not-recognised");
    } else {
        ++nParsed;
        if (!p->name) {
            failCapped("ftpListParseParts:parts-without-name", "returned parts without a name for line \"" + V::esc(line) + "\"");
        } else {
            const std::string name(p->name);
            if (line.find(name) == std::string::npos)
                failCapped("ftpListParseParts:name-not-from-line", "name \"" + V::esc(name) + "\" is not part of line \"" + V::esc(line) + "\"");
            if (p->link && line.find(p->link) == std::string::npos)
                failCapped("ftpListParseParts:link-not-from-line", "link is not part of line \"" + V::esc(line) + "\"");
            if (p->date && strlen(p->date) > 127)
                failCapped("ftpListParseParts:date-too-long", "date longer than its buffer for line \"" + V::esc(line) + "\"");
            const char ty = p->type;
            V::outcome(flagSet == 2 ? "list:nlst" : p->link ? "list:symlink" : ty == 'd' ? "list:dir" : (p->date && strchr(p->date, '-')) ? "list:dos" :
                       line[0] == '+' ? "list:eplf" : "list:unix");
        }
        ftpListPartsFree(&p);
    }
    free(buf);
}

const char *ListToks[] = {
    "-rw-r--r--", "drwxr-xr-x", "lrwxrwxrwx", "1", "ftp", "1234", "Jan", "dec", "5", "12", "1999", "10:30", "file.txt", "->", "target",
    "04-05-70", "09:33PM", "<DIR>", "total", "+", "99999999999999999999", ":", nullptr /* Long130a */, nullptr /* Long130d */
};
const int NListToks = sizeof(ListToks) / sizeof(ListToks[0]);
std::string listTok(int i) { return ListToks[i] ? std::string(ListToks[i]) : (i == NListToks - 2 ? Long130a : Long130d); }
const char *Seps[] = {" ", "  ", "\t", "   "};

typedef std::vector<std::string> Line;   // alternating: sep0 tok0 sep1 tok1 ... (sep0 may be empty)

std::string join(const std::vector<std::string> &toks, const std::vector<std::string> &seps)
{
    std::string s;
    for (size_t i = 0; i < toks.size(); ++i) { s += seps[i]; s += toks[i]; }
    return s;
}

struct Seed { const char *name; std::vector<std::string> toks; };
std::vector<Seed> seeds()
{
    return {
        {"unix-year", {"-rw-r--r--", "1", "ftp", "ftp", "1234", "Jan", "5", "1999", "file.txt"}},
        {"unix-time", {"-rw-r--r--", "1", "ftp", "ftp", "1234", "Dec", "12", "10:30", "file.txt"}},
        {"unix-dir", {"drwxr-xr-x", "2", "ftp", "ftp", "4096", "Feb", "29", "2000", "pub"}},
        {"unix-symlink", {"lrwxrwxrwx", "1", "ftp", "ftp", "7", "Mar", "1", "2001", "latest", "->", "v1.2"}},
        {"unix-name-with-spaces", {"-rw-r--r--", "1", "ftp", "ftp", "0", "Apr", "10", "09:05", "my", "file", "name"}},
        {"unix-nogroup", {"-rw-r--r--", "1", "ftp", "1234", "May", "5", "1999", "file.txt"}},
        {"dos-file", {"04-05-70", "09:33PM", "1234", "FILE.TXT"}},
        {"dos-dir", {"04-05-70", "09:33PM", "<DIR>", "PUB"}},
        {"dos-name-with-spaces", {"12-31-99", "11:59AM", "99", "MY", "FILE.TXT"}},
        {"total", {"total", "1234"}},
    };
}

void editsOf(const Seed &sd, int nEdits, const std::function<void(const std::vector<std::string> &, const std::vector<std::string> &)> &fn)
{
    // one edit: replace/delete/insert a token or change one separator; nEdits = 1 or 2 (second edit applied to the result)
    std::vector<std::string> baseT = sd.toks, baseS(sd.toks.size(), " ");
    baseS[0] = "";
    std::function<void(std::vector<std::string> &, std::vector<std::string> &, int)> rec =
    [&](std::vector<std::string> &t, std::vector<std::string> &s, int left) {
        fn(t, s);
        if (!left) return;
        const size_t n = t.size();
        for (size_t i = 0; i < n; ++i) {
            for (int k = 0; k < NListToks; ++k) {               // replace
                std::vector<std::string> t2 = t, s2 = s; t2[i] = listTok(k); rec(t2, s2, left - 1);
            }
            { std::vector<std::string> t2 = t, s2 = s; t2.erase(t2.begin() + i); s2.erase(s2.begin() + i); if (!t2.empty()) rec(t2, s2, left - 1); }   // delete
            for (int k = 0; k < 4; ++k) {                        // separator in front of token i
                if (s[i] == Seps[k]) continue;
                std::vector<std::string> t2 = t, s2 = s; s2[i] = Seps[k]; rec(t2, s2, left - 1);
            }
        }
        for (size_t i = 0; i <= n; ++i)
            for (int k = 0; k < NListToks; ++k) {               // insert
                std::vector<std::string> t2 = t, s2 = s; t2.insert(t2.begin() + i, listTok(k)); s2.insert(s2.begin() + i, i ? " " : "");
                if (i == 0 && s2.size() > 1 && s2[1].empty()) s2[1] = " ";
                rec(t2, s2, left - 1);
            }
    };
    rec(baseT, baseS, nEdits);
}

const char *EplfFacts[] = {"s123", "s", "s99999999999", "m825718503", "m0x10", "m", "/", "r", "i8.12", "\tname", "\t", "x", "", "\tna,me"};
const int NEplf = sizeof(EplfFacts) / sizeof(EplfFacts[0]);

void body(V::Ctx &ctx)
{
    // ---- (a)
    const int nt = ctx.quick() ? NToksQuick : NToksThorough;
    int idx[6];
    for (idx[0] = 0; idx[0] < nt; ++idx[0])
        for (idx[1] = 0; idx[1] < nt; ++idx[1])
            for (idx[2] = 0; idx[2] < nt; ++idx[2]) {
                const std::string desc = std::string("ipport ") + Toks[idx[0]].text + "," + Toks[idx[1]].text + "," + Toks[idx[2]].text + ",*,*,*";
                if (!V::begin_case(desc)) continue;
                for (idx[3] = 0; idx[3] < nt; ++idx[3])
                    for (idx[4] = 0; idx[4] < nt; ++idx[4])
                        for (idx[5] = 0; idx[5] < nt; ++idx[5])
                            for (int sanity = 0; sanity < 2; ++sanity)
                                for (int force = 0; force < 2; ++force)
                                    for (int preset = 0; preset < 2; ++preset)
                                        checkIpPort(idx, sanity, force, preset);
                V::end_case();
            }
    // ---- (b)
    for (char delim : {'|', '!', ','})
        for (int pi = 0; pi < NProtoToks; ++pi) {
            const std::string desc = std::string("eprt delim=") + delim + " proto=" + ProtoToks[pi].text;
            if (!V::begin_case(desc)) continue;
            for (int ai = 0; ai < NAddrToks; ++ai)
                for (int po = 0; po < NPortToks; ++po)
                    for (int closing = 0; closing < 3; ++closing)
                        for (int sanity = 0; sanity < 2; ++sanity)
                            for (int preset = 0; preset < 2; ++preset)
                                checkProtoIpPort(delim, ProtoToks[pi], AddrToks[ai], PortToks[po], closing, sanity, preset);
            V::end_case();
        }
    // ---- (c1) every token sequence up to a length
    const int maxLen = ctx.quick() ? 4 : 5;
    for (int a = 0; a < NListToks; ++a)
        for (int b = -1; b < NListToks; ++b) {
            const std::string desc = "list seq " + std::to_string(a) + "," + std::to_string(b) + ",* (" + listTok(a).substr(0, 12) + " " + (b >= 0 ? listTok(b).substr(0, 12) : std::string()) + " ...)";
            if (!V::begin_case(desc)) continue;
            std::vector<std::string> toks{listTok(a)};
            if (b >= 0) toks.push_back(listTok(b));
            std::function<void(int)> rec = [&](int len) {
                std::string line;
                for (size_t i = 0; i < toks.size(); ++i) { if (i) line += ' '; line += toks[i]; }
                parseLine(line, 0);
                parseLine(line, 1);
                if (len <= 3) { parseLine(" " + line, 0); parseLine(line + " ", 1); parseLine(line, 2); }
                if (b < 0 || len >= maxLen) return;
                for (int k = 0; k < NListToks; ++k) { toks.push_back(listTok(k)); rec(len + 1); toks.pop_back(); }
            };
            rec((int)toks.size());
            V::end_case();
        }
    // ---- (c2) seed lines with one / two edits
    for (const Seed &sd : seeds()) {
        const std::string desc = std::string("list seed ") + sd.name + " edits<=" + (ctx.quick() ? "1" : "2");
        if (!V::begin_case(desc)) continue;
        editsOf(sd, ctx.quick() ? 1 : 2, [&](const std::vector<std::string> &t, const std::vector<std::string> &s) {
            const std::string line = join(t, s);
            parseLine(line, 0);
            parseLine(line, 1);
        });
        V::end_case();
    }
    // ---- (c5) unix long-format lines, field by field
    {
        const char *perms[] = {"-rw-r--r--", "drwxr-xr-x", "lrwxrwxrwx"};
        const char *sizes[] = {"1234", "x", "99999999999999999999"};
        const char *months[] = {"Jan", "dec", "Foo"};
        const char *days[] = {"5", "12", "x"};
        const char *years[] = {"1999", "10:30", "x", "123456"};
        const char *nameSeps[] = {" ", "  ", "   ", ""};
        const char *names[] = {"file.txt", "a -> b", "a ->", " -> b", "", "x -> y -> z"};
        const char *dySeps[] = {" ", "  ", "   "};
        for (const char *pm : perms)
            for (const char *sz : sizes) {
                const std::string desc = std::string("list unix fields ") + pm + " size=" + sz;
                if (!V::begin_case(desc)) continue;
                for (const char *mo : months) for (const char *dy : days) for (const char *yr : years)
                    for (const char *ns : nameSeps) for (const char *nm : names) for (const char *ds : dySeps)
                        for (int group = 0; group < 2; ++group) {
                            const std::string line = std::string(pm) + " 1 ftp " + (group ? "ftp " : "") + sz + " " + mo + " " + dy + ds + yr + ns + nm;
                            parseLine(line, 0);
                            parseLine(line, 1);
                        }
                V::end_case();
            }
    }
    // ---- (c3) EPLF fact lists
    const int maxFacts = ctx.quick() ? 4 : 5;
    for (int a = 0; a < NEplf; ++a) {
        const std::string desc = "list eplf first fact #" + std::to_string(a);
        if (!V::begin_case(desc)) continue;
        std::vector<int> f{a};
        std::function<void()> rec = [&]() {
            std::string line = "+";
            for (size_t i = 0; i < f.size(); ++i) { if (i) line += ','; line += EplfFacts[f[i]]; }
            parseLine(line, 0);
            parseLine(line + ",", 0);
            parseLine(line + ",\tfile.txt", 1);
            if ((int)f.size() >= maxFacts) return;
            for (int k = 0; k < NEplf; ++k) { f.push_back(k); rec(); f.pop_back(); }
        };
        rec();
        V::end_case();
    }
    // ---- (c4) token-count boundaries around MAX_TOKENS (64)
    for (int n : {58, 59, 60, 61, 62, 63, 64, 65, 66, 67, 130, 1000}) {
        const std::string desc = "list many tokens n=" + std::to_string(n);
        if (!V::begin_case(desc)) continue;
        for (int monthAt = n - 6; monthAt < n; ++monthAt) {       // a date group placed at the very end of the token array
            if (monthAt < 4) continue;
            std::string line;
            for (int i = 0; i < n; ++i) {
                if (i) line += ' ';
                if (i == monthAt - 1) line += "1234";
                else if (i == monthAt) line += "Jan";
                else if (i == monthAt + 1) line += "5";
                else if (i == monthAt + 2) line += "1999";
                else line += (i == 0 ? "-rw-r--r--" : "w");
            }
            parseLine(line, 0);
            parseLine(line, 1);
        }
        std::string dos = "04-05-70 09:33PM <DIR>";
        for (int i = 3; i < n; ++i) dos += " x";
        parseLine(dos, 0);
        V::end_case();
    }
    V::count("parser_calls", nCalls);
    V::count("listing_lines_recognised", nParsed);
    V::count("listing_lines_not_recognised", nNull);
}

} // namespace

VHARNESS_MAIN(body)
