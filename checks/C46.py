"""C46 Proxy authentication gates forwarding and never mixes identities — E3 (lock-step), all interleavings.

The real ASan squid binary runs under the lock-step shim with `auth_param basic` (helper = vhelper, played
by the driver, concurrency 2, credentialsttl 60 s) and `http_access deny !authed`.  Two client connections
run request scripts of <= 2 requests each (no pipelining); every request carries one credential token:
A = user a<n> with password "pa", W = the SAME user with the wrong password "PA" (differs from the right one only in letter case), B = user b<n> with password
"pb", or a garbled / missing header.  The driver owns every scheduling decision: which connection sends
its next request, which pending helper lookup is answered next (and with what), when the clock jumps past
the credentials TTL.  All maximal schedules of a job are enumerated by stateless depth-first search over
choice lists (an execution is a deterministic function of its choice list).

Oracle (reference model, independent of Squid): the driver knows, for every helper line Squid wrote,
the (user, password) pair it asked about and the answer it was given.  A request may reach the origin only
if an OK answer for exactly ITS OWN (user, password) was delivered earlier in the same TTL epoch; a request
that does not reach the origin must get 407; the user Squid attributes to a request (X-User header added
from %ul when forwarding, %un in access.log) must be the request's own user name.
"""
import base64
import hashlib
import os
import re
import signal
import time

from vverif import lockstep as ls
from vverif import httpref
from vverif.core import Result, Violation, HarnessError

LEVEL = 'model_checking'
TTL_S = 60

CORE = ('A', 'W', 'B')
GARBLED = ('G1', 'G2', 'G3', 'E', 'N')
TRUTH = {'A': 'OK', 'W': 'ERR', 'B': 'OK'}


def creds_of(tok, n):
    """(user, password) a token stands for, or None when the header carries no usable user:password."""
    if tok == 'A':
        return ('a%d' % n, 'pa')
    if tok == 'W':
        # a wrong password of the same user; it differs from the right one only in letter case, so that a
        # case-insensitive (or prefix / length-only) comparison of cached passwords cannot hide behind it
        return ('a%d' % n, 'PA')
    if tok == 'B':
        return ('b%d' % n, 'pb')
    return None


def header_of(tok, n):
    c = creds_of(tok, n)
    if c:
        return 'Proxy-Authorization: Basic %s\r\n' % base64.b64encode(('%s:%s' % c).encode()).decode()
    if tok == 'G1':
        return 'Proxy-Authorization: Basic !!!!\r\n'                                   # not base64
    if tok == 'G2':
        return 'Proxy-Authorization: Basic %s\r\n' % base64.b64encode(('a%dpa' % n).encode()).decode()   # no colon
    if tok == 'G3':
        return 'Proxy-Authorization: Basic \r\n'                                       # empty token
    if tok == 'E':
        return 'Proxy-Authorization: Basic %s\r\n' % base64.b64encode(('a%d:' % n).encode()).decode()    # empty password
    return ''                                                                          # N: no header


def claimed_names(tok, n):
    """User names a log record of this request may legitimately show."""
    c = creds_of(tok, n)
    if c:
        return {c[0], '-'}
    if tok == 'G2':
        return {'a%dpa' % n, '-'}
    if tok == 'E':
        return {'a%d' % n, '-'}
    return {'-'}


def conf_for(ctx, hubpath):
    return '\n'.join([
        'auth_param basic program %s %s auth' % (ls.helper_path(ctx), hubpath),
        'auth_param basic children 1 startup=1 idle=1 concurrency=2 queue-size=64',
        'auth_param basic realm verif',
        'auth_param basic credentialsttl %d seconds' % TTL_S,
        'acl authed proxy_auth REQUIRED',
        'http_access deny !authed',
        'request_header_add X-User "%ul" all',
        'cache deny all',
    ]) + '\n'


class AW(ls.World):
    def __init__(self, ctx, name, port_base):
        self.hubpath = os.path.join(ctx.rundir, name + '.hub')
        self.hub = ls.HelperHub(self.hubpath)
        super().__init__(ctx, name, port_base, conf=conf_for(ctx, self.hubpath), logformat='%{X-Req}>h %un %ul %>Hs')
        self.pids = []
        self.helper = None
        self.transitions = 0
        self.log_off = 0

    def start(self):
        try:
            self.sq.start(wait_ready=False)
            for attempt in range(5):        # an overloaded machine can exceed lockstep's 60 s start-up allowance
                try:
                    self.sq.wait_ready()
                    break
                except HarnessError as e:
                    if 'not ready after' not in str(e) or attempt == 4:
                        raise
            hs = self.hub.wait_helpers(1, timeout=30)
            self.helper = hs[0][1]
            self.pids.append(int(hs[0][0].split()[1]))
        except BaseException:
            self.stop()
            raise
        return self

    def kick(self):
        self.transitions += 1
        self.sq.kick()

    def new_log_lines(self):
        data = self.sq.access_log()
        new = data[self.log_off:]
        k = new.rfind('\n')
        if k < 0:
            return []
        self.log_off += k + 1
        return new[:k].split('\n')

    def stop(self):
        try:
            for tag, conn in self.hub.accept_all():
                p = int(tag.split()[1])
                if p not in self.pids:
                    self.pids.append(p)
        except Exception:
            pass
        for p in self.pids:
            try:
                os.kill(p, signal.SIGKILL)
            except OSError:
                pass
        try:
            if self.sq.alive():
                self.sq.kick()
        except Exception:
            pass
        try:
            super().stop()
        finally:
            self.hub.close()
            try:
                os.unlink(self.hubpath)
            except OSError:
                pass


def responder_for(w):
    def responder(m):
        b = b'T=' + (m.get('x-req') or '-').encode('latin1') + b';U=' + (m.get('x-user') or '-').encode('latin1')
        return (b'HTTP/1.1 200 OK\r\nDate: ' + ls.http_date(w.sq.now_us).encode() + b'\r\nContent-Length: %d\r\n\r\n' % len(b)) + b
    return responder


def st_hash(*parts):
    return int.from_bytes(hashlib.md5(repr(parts).encode()).digest()[:8], 'big')


def answer_for(policy, k, user, pw, n):
    tok = None
    for t in CORE:
        if creds_of(t, n) == (user, pw):
            tok = t
    truth = TRUTH.get(tok, 'ERR')
    if policy and policy[0] == 'flip' and policy[1] == k:
        return 'ERR' if truth == 'OK' else 'OK'
    if policy and policy[0] == 'bh' and policy[1] == k:
        return 'BH'
    if policy and policy[0] == 'bhall':
        return 'BH'
    return truth


def run_exec(w, job, choices, n):
    """One execution = one maximal schedule.  Returns dict(widths, taken, violations [(key, text)], outcome, transcript, states)."""
    scripts = job['scripts']
    policy = job.get('policy')
    adv_left = job.get('advances', 0)
    conns = [None, None]
    nexti = [0, 0]
    outstanding = [None, None]          # index of the request awaiting its response on that connection
    bufpos = [0, 0]
    pending = []                        # helper lookups not yet answered: dict(id, user, pw, k)
    nlook = 0
    epoch = 0
    approved = set()                    # (user, pw, epoch)
    answers = []                        # (k, user, pw, answer, epoch)
    arrived = {}                        # tag -> count
    status = {}                         # tag -> status
    viol = []
    tr = []
    widths, taken, states = [], [], []
    helper_buf = b''
    ex = ls.Exchange()
    responder = responder_for(w)
    seen_arrivals = 0
    tagtok = {}
    for c in (0, 1):
        for i, t in enumerate(scripts[c]):
            tagtok['%d.%d.%d' % (n, c, i)] = t

    def observe():
        nonlocal helper_buf, nlook, seen_arrivals
        for _ in range(6):
            progressed = False
            helper_buf += w.helper.take()
            while b'\n' in helper_buf:
                ln, helper_buf = helper_buf.split(b'\n', 1)
                f = ln.decode('latin1').split(' ')
                if len(f) < 3 or not f[0].isdigit():
                    raise HarnessError('unexpected auth helper line %r' % ln)
                pending.append({'id': int(f[0]), 'user': f[1], 'pw': f[2], 'k': nlook})
                tr.append('  helper<- %s' % ln.decode('latin1'))
                nlook += 1
                progressed = True
            if w._origin_step(responder, ex):
                progressed = True
            while seen_arrivals < len(ex.origin_requests):
                m = ex.origin_requests[seen_arrivals]
                seen_arrivals += 1
                tag = m.get('x-req') or '-'
                xu = m.get('x-user') or '-'
                arrived[tag] = arrived.get(tag, 0) + 1
                tr.append('  origin<- %s X-User=%s%s' % (tag, xu, ' (still carries Proxy-Authorization)' if m.has('proxy-authorization') else ''))
                tok = tagtok.get(tag)
                if tok is None:
                    viol.append(('forwarded:foreign-tag', 'origin got a request with an unknown tag %s' % tag))
                    continue
                cr = creds_of(tok, n)
                if cr is None:
                    viol.append(('forwarded:%s:no-usable-credentials' % tok, 'request %s (%s header) reached the origin' % (tag, tok)))
                elif (cr[0], cr[1], epoch) not in approved:
                    others = sorted(set(a[2] for a in answers if a[1] == cr[0] and a[3] == 'OK' and a[4] == epoch and a[2] != cr[1]))
                    earlier = [a for a in answers if a[1] == cr[0] and a[2] == cr[1] and a[3] == 'OK']
                    mine = [a[3] for a in answers if a[1] == cr[0] and a[2] == cr[1]]
                    if others:
                        why = 'approved-only-for-another-password-of-the-same-user'
                    elif earlier:
                        why = 'approval-expired'
                    else:
                        why = 'never-approved'
                    viol.append(('forwarded:%s:%s' % (tok, why),
                                 'request %s with credentials %s:%s reached the origin although the helper has not said OK for %s:%s in this TTL epoch '
                                 '(answers for this pair so far: %s; OK answers for the same user with another password: %s)' % (
                                     tag, cr[0], cr[1], cr[0], cr[1], mine or 'none', others or 'none')))
                if cr is not None and xu != cr[0]:
                    viol.append(('identity:origin:%s' % tok, 'request %s of user %s was forwarded as user %r' % (tag, cr[0], xu)))
            for c in (0, 1):
                if conns[c] is None or outstanding[c] is None:
                    continue
                if conns[c].pump():
                    progressed = True
                m = httpref.parse_response(conns[c].inbuf[bufpos[c]:], 'GET', eof=conns[c].eof)
                if m.head_complete and m.complete and not m.error:
                    tag = '%d.%d.%d' % (n, c, outstanding[c])
                    status[tag] = m.status
                    tr.append('  client%d<- %d for %s' % (c, m.status, tag))
                    if m.framing == 'close' or conns[c].eof or (m.get('connection') or '').lower() == 'close':
                        conns[c].close()
                        conns[c] = None
                        bufpos[c] = 0
                    else:
                        bufpos[c] += m.consumed
                    outstanding[c] = None
                    progressed = True
                elif conns[c].eof:
                    tag = '%d.%d.%d' % (n, c, outstanding[c])
                    status[tag] = -1
                    tr.append('  client%d<- connection closed without a response for %s' % (c, tag))
                    conns[c].close()
                    conns[c] = None
                    bufpos[c] = 0
                    outstanding[c] = None
                    progressed = True
            if not progressed:
                break
            w.kick()

    step = 0
    while True:
        enabled = []
        for c in (0, 1):
            if outstanding[c] is None and nexti[c] < len(scripts[c]):
                enabled.append(('send', c))
        for L in pending:
            enabled.append(('reply', L['k']))
        if adv_left and enabled and step > 0:
            enabled.append(('advance',))
        if not enabled:
            break
        if step > 40:
            raise HarnessError('schedule does not terminate: %r' % tr[-10:])
        ch = choices[step] if step < len(choices) else 0
        if ch >= len(enabled):
            raise HarnessError('replay divergence: choice %d of %d at step %d (%r)' % (ch, len(enabled), step, enabled))
        widths.append(len(enabled))
        taken.append(ch)
        act = enabled[ch]
        if act[0] == 'send':
            c = act[1]
            i = nexti[c]
            tok = scripts[c][i]
            if conns[c] is None:
                conns[c] = w.sq.client()
                bufpos[c] = 0
            tag = '%d.%d.%d' % (n, c, i)
            req = 'GET %s HTTP/1.1\r\nHost: %s\r\nX-Req: %s\r\n%s\r\n' % (w.url('/x/%d/%d/%d' % (n, c, i)), w.hostport(), tag, header_of(tok, n))
            conns[c].send(req.encode())
            nexti[c] += 1
            outstanding[c] = i
            tr.append('send conn%d #%d %s' % (c, i, tok))
        elif act[0] == 'reply':
            L = [x for x in pending if x['k'] == act[1]][0]
            pending.remove(L)
            ans = answer_for(policy, L['k'], L['user'], L['pw'], n)
            answers.append((L['k'], L['user'], L['pw'], ans, epoch))
            if ans == 'OK':
                approved.add((L['user'], L['pw'], epoch))
            w.helper.send(('%d %s\n' % (L['id'], ans)).encode())
            tr.append('reply lookup#%d (%s %s) -> %s' % (L['k'], L['user'], L['pw'], ans))
        else:
            adv_left -= 1
            epoch += 1
            w.sq.now_us += (TTL_S + 1) * 1000000
            tr.append('advance clock by %d s' % (TTL_S + 1))
        w.kick()
        observe()
        states.append(st_hash(job['id'], tuple(nexti), tuple(outstanding), tuple(sorted((tokname(x, n)) for x in pending)),
                              tuple(sorted(tokname({'user': a[0], 'pw': a[1]}, n) for a in approved if a[2] == epoch)), adv_left))
        step += 1
    # end of schedule: every request must have a verdict
    for c in (0, 1):
        if conns[c] is not None:
            conns[c].close()
    w.kick()
    w._origin_step(responder, ls.Exchange())
    out = []
    for tag, tok in sorted(tagtok.items()):
        st = status.get(tag)
        fw = arrived.get(tag, 0)
        out.append('%s:%s:%s' % (tok, 'fwd' if fw else 'nofwd', st))
        if fw > 1:
            viol.append(('forwarded-twice:%s' % tok, 'request %s reached the origin %d times' % (tag, fw)))
        cr = creds_of(tok, n)
        bh = cr is not None and any(a[1] == cr[0] and a[2] == cr[1] and a[3] == 'BH' for a in answers)
        if fw:
            if st != 200:
                viol.append(('status:%s:forwarded-but-%s' % (tok, st), 'request %s was forwarded but the client got %s' % (tag, st)))
        elif st is None:
            viol.append(('no-response:%s' % tok, 'request %s got no response at all' % tag))
        elif st != 407 and not (bh and 500 <= st < 600):
            viol.append(('status:%s:not-forwarded-but-%s' % (tok, st), 'request %s was not forwarded and the client got %s instead of 407' % (tag, st)))
    for ln in w.new_log_lines():
        f = ln.split(' ')
        if len(f) < 4 or f[0] not in tagtok:
            continue
        ok_names = claimed_names(tagtok[f[0]], n)
        tr.append('  access.log: %s' % ln)
        if f[1] not in ok_names or f[2] not in ok_names:
            viol.append(('identity:access.log:%s' % tagtok[f[0]], 'access.log records request %s under user %%un=%r %%ul=%r; its own credentials name %s' % (
                f[0], f[1], f[2], sorted(ok_names - {'-'}) or 'nobody')))
    probs = w.sq.health_problems()
    crash = None
    if probs:
        crash = '; '.join(p[:300] for p in probs if 'sanitizer' not in p)[:600] or probs[0][:600]
        viol.append(('crash', 'squid died during the schedule: ' + crash))
    canon = re.sub(r'\b%d\b' % n, 'N', '\n'.join(tr))
    canon = re.sub(r'\b([ab])%d\b' % n, r'\1N', canon)
    canon = re.sub(r'\b%d\.' % n, 'N.', canon)
    return {'widths': widths, 'taken': taken, 'violations': viol, 'outcome': ' '.join(out), 'transcript': '\n'.join(tr),
            'canon': canon, 'states': states, 'crash': crash, 'steps': step, 'lookups': nlook,
            'answers': [a[3] for a in answers]}


def tokname(L, n):
    for t in CORE:
        if creds_of(t, n) == (L['user'], L['pw']):
            return t
    return '?'


# ------------------------------------------------------------------ jobs

def scripts_over(alpha, maxlen=2):
    out = []
    for a in alpha:
        out.append([a])
    if maxlen >= 2:
        for a in alpha:
            for b in alpha:
                out.append([a, b])
    return out


def jobs_for(tier):
    J = []
    core = scripts_over(CORE)

    def add(s1, s2, policy=None, advances=0):
        J.append({'scripts': [list(s1), list(s2)], 'policy': policy, 'advances': advances})
    # every unordered pair of core scripts (and every script alone), truthful helper
    for i, s1 in enumerate(core):
        add(s1, [])
        for s2 in core[i:]:
            add(s1, s2)
    # garbled / missing credentials next to real ones
    for g in GARBLED:
        for other in ([], ['A'], ['W']):
            add([g], other)
            add([g, 'A'], other)
            add(['A', g], other)
            if tier != 'quick':
                add([g, 'W'], other)
                add(['W', g], other)
                add([g, g], other)
    # credentials TTL expiry: one clock jump past the TTL at every point of every schedule
    ttl_pairs = [(['A', 'A'], []), (['A', 'A'], ['A']), (['A', 'A'], ['W']), (['A', 'W'], ['A']), (['A'], ['W', 'W'])]
    if tier != 'quick':
        ttl_pairs = [(s1, s2) for i, s1 in enumerate(core) for s2 in [[]] + core[i:] if len(s1) + len(s2) <= 3]
    for s1, s2 in ttl_pairs:
        add(s1, s2, advances=1)
    # helper answers that deviate from the truth table: lookup #k flipped (OK<->ERR) or answered BH (Squid retries it)
    # ('bhall': every lookup incl. the retries is answered BH; the retries multiply the schedules, so small scripts only)
    if tier == 'quick':
        for s1, s2 in ((['A'], ['A']), (['A', 'A'], ['W']), (['A'], ['W', 'W']), (['A', 'B'], ['B', 'A'])):
            for pol in (('flip', 0), ('bh', 0)):
                add(s1, s2, policy=pol)
        for s1, s2 in ((['A'], []), (['A'], ['A']), (['A'], ['W']), (['A', 'A'], [])):
            add(s1, s2, policy=('bhall',))
    else:
        for i, s1 in enumerate(core):
            for s2 in [[]] + core[i:]:
                for pol in (('flip', 0), ('flip', 1), ('bh', 0), ('bh', 1)):
                    add(s1, s2, policy=pol)
                if len(s1) + len(s2) <= 2:
                    add(s1, s2, policy=('bhall',))
    for j in J:
        j['id'] = '%s|%s|%s|%d' % (''.join(j['scripts'][0]) or '-', ''.join(j['scripts'][1]) or '-',
                                   '-'.join(str(x) for x in j['policy']) if j['policy'] else 'truth', j['advances'])
        a, b = len(j['scripts'][0]), len(j['scripts'][1])
        j['cost'] = {0: 1, 1: 2, 2: 6}[min(a, b)] * (a + b) * (6 if j['advances'] else 1) if b else a
        if a == 2 and b == 2:
            j['cost'] = 70
    seen = set()
    out = []
    for j in J:
        if j['id'] not in seen:
            seen.add(j['id'])
            out.append(j)
    return out


# ------------------------------------------------------------------ shard worker

def run_shard(ctx, shard, jobs, t_end):
    res = {'executions': 0, 'transitions': 0, 'states': set(), 'outcomes': {}, 'viol': {}, 'deadline_hit': False, 'samples': [],
           'starts': 0, 'replays': 0, 'jobs_done': 0, 'jobs_total': len(jobs), 'max_width': 0, 'max_steps': 0, 'lookups': 0,
           'answers': {}, 'schedules_per_job': {}, 'forwarded': 0, 'denied': 0}
    st = {'w': None, 'n': 1000 + shard * 100000}

    def fresh():
        if st['w'] is not None:
            res['transitions'] += st['w'].transitions
            st['w'].stop()
            st['w'] = None
        for attempt in (0, 1):
            w = AW(ctx, 'w%d' % shard, ls.port_base_for_check(ctx.pid, shard))
            try:
                w.start()
                break
            except HarnessError:
                if attempt:
                    raise
        st['w'] = w
        res['starts'] += 1

    def one(job, choices):
        st['n'] += 1
        r = run_exec(st['w'], job, choices, st['n'])
        if r['crash']:
            fresh()
        return r
    try:
        fresh()
        # determinism obligation: the first schedules of the first job on two separate instances
        det = []
        if jobs:
            stack = [[]]
            while stack and len(det) < 5:
                pre = stack.pop()
                r = one(jobs[0], pre)
                res['replays'] += 1
                det.append((pre, r['canon'], r['outcome']))
                for i in range(len(r['widths']) - 1, len(pre) - 1, -1):
                    for alt in range(r['widths'][i] - 1, 0, -1):
                        stack.append(r['taken'][:i] + [alt])
            fresh()
            for pre, canon, outc in det:
                r = one(jobs[0], pre)
                res['replays'] += 1
                if r['canon'] != canon or r['outcome'] != outc:
                    raise HarnessError('nondeterminism: job %s choices %r gave different transcripts on two instances:\n%s\n---\n%s' % (
                        jobs[0]['id'], pre, canon[:1200], r['canon'][:1200]))
        for job in jobs:
            stack = [[]]
            nsched = 0
            while stack:
                if time.time() > t_end:
                    res['deadline_hit'] = True
                    break
                pre = stack.pop()
                r = one(job, pre)
                nsched += 1
                res['executions'] += 1
                res['states'].update(r['states'])
                res['outcomes'][r['outcome']] = res['outcomes'].get(r['outcome'], 0) + 1
                res['max_width'] = max(res['max_width'], max(r['widths'] or [0]))
                res['max_steps'] = max(res['max_steps'], r['steps'])
                res['lookups'] += r['lookups']
                for a in r['answers']:
                    res['answers'][a] = res['answers'].get(a, 0) + 1
                res['forwarded'] += r['outcome'].count(':fwd:')
                res['denied'] += r['outcome'].count(':nofwd:407')
                if len(res['samples']) < 2 and len(r['taken']) >= 5 and nsched in (2, 7):
                    res['samples'].append({'job': job['id'], 'choices': r['taken'], 'outcome': r['outcome'], 'transcript': r['transcript'][:900]})
                for i in range(len(r['widths']) - 1, len(pre) - 1, -1):
                    for alt in range(r['widths'][i] - 1, 0, -1):
                        stack.append(r['taken'][:i] + [alt])
                for key, text in r['violations']:
                    v = res['viol'].setdefault(key, {'count': 0, 'what': None, 'replay': None, 'len': 0})
                    v['count'] += 1
                    if v['what'] is None:
                        ok = 0
                        for _ in range(2):
                            r2 = one(job, r['taken'])
                            res['replays'] += 1
                            if any(k2 == key for k2, _t in r2['violations']):
                                ok += 1
                        if ok < 2:
                            raise HarnessError('violation %s not reproducible (%d of 2 replays): job %s choices %r: %s' % (key, ok, job['id'], r['taken'], text))
                        v['what'] = '%s\njob %s (conn0 script %s, conn1 script %s, helper policy %s, clock jumps %d), choices %r:\n%s' % (
                            text, job['id'], job['scripts'][0], job['scripts'][1], job['policy'] or 'truth table (A,B: OK; W: ERR)', job['advances'],
                            r['taken'], r['transcript'][:1500])
                        v['replay'] = {'job': {k: job[k] for k in ('scripts', 'policy', 'advances', 'id')}, 'choices': r['taken']}
                        v['len'] = len(r['taken'])
            else:
                res['jobs_done'] += 1
                res['schedules_per_job'][job['id']] = nsched
                continue
            break
    finally:
        if st['w'] is not None:
            res['transitions'] += st['w'].transitions
            st['w'].stop()
    res['states'] = sorted(res['states'])
    return res


ASSUME = [
    'the real squid binary (ASan build of the current tree) runs under the lock-step/virtual-time shim; both clients, the origin and the Basic auth helper are played by the driver',
    'one helper process with concurrency 2, one Squid worker (-N); requests on one connection are not pipelined; helper answers are single complete lines',
    'user names are unique per execution, so the credentials cache cannot carry anything from one execution into the next on the reused instance',
    'the user Squid attributes to a request is observed through request_header_add X-User "%ul" at the origin and %un/%ul in access.log',
]
RULE = ('an execution = one maximal schedule of {connection c sends its next request, pending helper lookup k is answered, clock jumps past the credentials TTL} '
        'for a job (script pair, helper answer policy, clock-jump budget); counted states = distinct (job, script progress, outstanding requests, pending lookups, '
        'approved pairs of the current epoch, remaining jumps) after each action')


def bound_text(tier):
    if tier == 'quick':
        return ('all schedules of: every unordered pair of scripts of <=2 requests over {A, W(same user, other password), B} and every script alone, truthful helper; '
                '5 garbled/missing header kinds alone / before / after A, next to nothing, A or W; one clock jump at every point for 5 script pairs; '
                'first lookup flipped / answered BH for 4 script pairs, all lookups answered BH for 4 small script pairs')
    return ('all schedules of: every unordered pair of scripts of <=2 requests over {A, W, B} and every script alone with the truthful helper and with lookup #0 or #1 '
            'flipped, lookup #0 or #1 answered BH (all answered BH for pairs with <=2 requests); 5 garbled/missing header kinds alone, doubled, before/after A and W, next to nothing, A or W; '
            'one clock jump past the TTL at every point for every script pair with <=3 requests')


def run(ctx):
    ls.build_squid(ctx)
    jobs = jobs_for(ctx.tier)
    n = ctx.ncpu
    bins = [[] for _ in range(n)]
    load = [0.0] * n
    for j in sorted(jobs, key=lambda x: -x['cost']):
        i = load.index(min(load))
        bins[i].append(j)
        load[i] += j['cost']
    bins = [b for b in bins if b]
    # the tier deadline includes the build; after a slow (contended) build still explore for a minimum window
    t_end = max(ctx.t0 + ctx.deadline_s - (25 if ctx.quick else 60), time.time() + 90)

    def worker(i, items):
        return run_shard(ctx, i, items[0], t_end)
    parts = ls.run_sharded(ctx, worker, bins, nshards=len(bins))
    agg = {'executions': 0, 'transitions': 0, 'outcomes': {}, 'starts': 0, 'replays': 0, 'jobs_done': 0, 'jobs_total': 0, 'lookups': 0,
           'answers': {}, 'schedules_per_job': {}, 'forwarded': 0, 'denied': 0}
    states, viol, samples = set(), {}, []
    deadline = False
    maxw = maxs = 0
    for p in parts:
        for k in agg:
            if isinstance(agg[k], dict):
                for a, b in p[k].items():
                    agg[k][a] = agg[k].get(a, 0) + b
            else:
                agg[k] += p[k]
        states.update(p['states'])
        deadline = deadline or p['deadline_hit']
        maxw, maxs = max(maxw, p['max_width']), max(maxs, p['max_steps'])
        samples += p['samples'][:1]
        for k, v in p['viol'].items():
            d = viol.setdefault(k, {'count': 0, 'what': None, 'replay': None, 'len': 0})
            d['count'] += v['count']
            if v['what'] and (d['what'] is None or v['len'] < d['len']):
                d['what'], d['replay'], d['len'] = v['what'], v['replay'], v['len']
    if not deadline and not viol:
        guards = {
            'schedules': agg['executions'] >= (800 if ctx.quick else 5000),
            'forwarded requests': agg['forwarded'] >= 500,
            'requests answered 407': agg['denied'] >= 500,
            'helper answers OK/ERR/BH all given': all(agg['answers'].get(a, 0) >= 10 for a in ('OK', 'ERR', 'BH')),
            'schedules with >=3 enabled actions': maxw >= 3,
        }
        bad = [k for k, ok in guards.items() if not ok]
        if bad:
            raise HarnessError('vacuity guard(s) failed: %s; %r' % (bad, {k: agg[k] for k in ('executions', 'forwarded', 'denied', 'answers')}))
    vio = [Violation(k, '%d schedule(s) with this key; shortest: %s' % (v['count'], v['what']), v['replay']) for k, v in sorted(viol.items())]
    exhaustive = not deadline and agg['jobs_done'] == agg['jobs_total']
    spj = agg['schedules_per_job']
    cov = {
        'states': len(states), 'transitions': agg['transitions'], 'traces_validated_against_impl': agg['executions'], 'samples': samples[:6],
        'exhaustive': exhaustive,
        'bound_completed': bound_text(ctx.tier) + ('' if exhaustive else ' -- NOT complete: deadline_hit=%s, jobs %d/%d' % (deadline, agg['jobs_done'], agg['jobs_total'])),
        'rule': RULE, 'jobs': agg['jobs_total'], 'schedules_per_job_max': max(spj.values()) if spj else 0,
        'schedules_per_job_examples': dict(sorted(spj.items(), key=lambda x: -x[1])[:8]),
        'helper_lookups': agg['lookups'], 'helper_answers': agg['answers'], 'requests_forwarded': agg['forwarded'], 'requests_denied_407': agg['denied'],
        'max_enabled_actions': maxw, 'max_schedule_length': maxs, 'squid_starts': agg['starts'], 'determinism_and_confirmation_replays': agg['replays'],
        'outcome_classes': len(agg['outcomes']), 'violating_schedules_per_key': {k: v['count'] for k, v in viol.items()}, 'shards': len(bins),
    }
    return Result(LEVEL, cov, vio, ASSUME)


def replay(ctx, data):
    ls.build_squid(ctx)
    w = AW(ctx, 'replay', ls.port_base_for_check(ctx.pid, 0))
    w.start()
    try:
        r = run_exec(w, data['job'], data['choices'], 4242)
        print(r['transcript'])
        print('outcome:', r['outcome'])
        for k, t in r['violations']:
            print('violation', k, t)
    finally:
        w.stop()
    return Result(LEVEL, {}, [Violation(k, t, data) for k, t in r['violations']], ASSUME)
