// C48 — SBuf behaves as independent values: explicit-state BFS over operation sequences on three
// real SBufs against three std::string models (E1).
//
// Real code: src/sbuf/SBuf.cc, src/sbuf/MemBlob.cc (libsbuf.la of the current tree, ASan) linked with
// the testSBuf link set (stub allocator: MemBlob capacity == exactly the requested size, so every
// out-of-capacity access is an ASan report and reallocation boundaries are reachable with tiny strings).
//
// Exploration: states = canonical serialisation of the complete state of the three SBufs (which SBufs
// share which MemBlob, off_/len_, blob capacity/size/extra locks and all blob bytes in use), modulo
// permutation of the three SBufs (the alphabet is closed under permutation).  Interior levels are built
// from a "core" alphabet; every state of every level additionally gets every operation of the full
// alphabet applied once.  States are rebuilt by replaying their operation history on fresh SBufs
// (canon-on-replay asserted).  After every operation all three SBufs are compared with their models;
// the complete observer battery (find/rfind/compare/substr/...) runs once per distinct state.
#include "squid.h"
#include "base/CharacterSet.h"
#include "base/TextException.h"
#include "sbuf/SBuf.h"

#include "vharness.h"
#include "vbfs.h"

#include <algorithm>
#include <array>
#include <cstdarg>
#include <strings.h>

namespace {

typedef SBuf::size_type sz_t;
const sz_t NPOS = SBuf::npos;
const sz_t MAXSZ = SBuf::maxSize;

// ---------------------------------------------------------------- argument codes (resolved against the model length)
enum ArgCode { A0, A1, A2, ALM1, AL, ALP1, ANP, ANPM1, A4, A40, A64, AMAX, AMAXP1, ARG_END };
const char *argName(int c)
{
    static const char *n[] = {"0", "1", "2", "len-1", "len", "len+1", "npos", "npos-1", "4", "40", "64", "max", "max+1"};
    return n[c];
}
sz_t argVal(int c, size_t len)
{
    switch (c) {
    case A0: return 0;
    case A1: return 1;
    case A2: return 2;
    case ALM1: return (sz_t)len - 1;    // wraps to npos for len==0, like a careless caller
    case AL: return (sz_t)len;
    case ALP1: return (sz_t)len + 1;
    case ANP: return NPOS;
    case ANPM1: return NPOS - 1;
    case A4: return 4;
    case A40: return 40;
    case A64: return 64;
    case AMAX: return MAXSZ;
    case AMAXP1: return MAXSZ + 1;
    }
    return 0;
}

// ---------------------------------------------------------------- literals
const std::string LIT[3] = {std::string(), std::string("aB\0c ", 5), std::string(" Zq", 3)};
const std::string TRIMSET = " a";

// ---------------------------------------------------------------- operations
enum Kind { K_ASSIGN, K_ASSIGN_OP, K_ASSIGN_LIT, K_ASSIGN_RAWSELF, K_APPEND, K_APPEND_SUB, K_PUSH, K_APPEND_CSTR,
            K_APPEND_RAWSELF, K_SLICE, K_CONSUME, K_CONSUME_TO, K_CHOP, K_TRIM, K_LOWER, K_UPPER, K_CLEAR, K_RSPACE,
            K_RCAP, K_RESERVE, K_RAWAPP, K_CSTR, K_SETAT, K_APPENDF, K_PRINTF, K_COPYCTOR
          };
const char *kindName(int k)
{
    static const char *n[] = {"assign", "opassign", "assignLit", "assignRawSelf", "append", "appendSub", "push_back", "appendCstr",
                              "appendRawSelf", "slice", "consume", "consumeTo", "chop", "trim", "toLower", "toUpper", "clear", "reserveSpace",
                              "reserveCapacity", "reserve", "rawAppend", "c_str", "setAt", "appendf", "Printf", "copyCtor"
                             };
    return n[k];
}

struct Op {
    int kind = 0;
    int i = 0, j = 0;     // target, source
    int a = 0, n = 0;     // argument codes or small variants
    bool core = false;
    std::string name;
};

std::vector<Op> Ops;
std::map<std::string, int> OpByName;

void addOp(int kind, int i, int j, int a, int n, bool core, const std::string &name)
{
    Op o;
    o.kind = kind; o.i = i; o.j = j; o.a = a; o.n = n; o.core = core; o.name = name;
    OpByName[name] = (int)Ops.size();
    Ops.push_back(o);
}

std::string nm(const char *k, std::initializer_list<std::string> args)
{
    std::string s = k;
    s += '(';
    bool first = true;
    for (auto &a : args) { if (!first) s += ','; s += a; first = false; }
    s += ')';
    return s;
}
std::string I(int i) { return std::to_string(i); }

void buildOps()
{
    const int N = 3;
    for (int i = 0; i < N; ++i) {
        for (int j = 0; j < N; ++j) {
            addOp(K_ASSIGN, i, j, 0, 0, i != j, nm("assign", {I(i), I(j)}));
            addOp(K_APPEND, i, j, 0, 0, true, nm("append", {I(i), I(j)}));
            if (i != j) {
                addOp(K_ASSIGN_OP, i, j, 0, 0, false, nm("opassign", {I(i), I(j)}));
                addOp(K_COPYCTOR, i, j, 0, 0, false, nm("copyCtor", {I(i), I(j)}));     // s[i] = SBuf(s[j]) (copy, then move)
                addOp(K_CONSUME_TO, i, j, A1, 0, false, nm("consumeTo", {I(i), I(j), "1"}));
                addOp(K_CONSUME_TO, i, j, A2, 0, false, nm("consumeTo", {I(i), I(j), "2"}));
            }
            // s[i] = s[j].substr(a,n)
            static const int sl[][2] = {{A1, A2}, {A0, A1}, {A1, ANP}, {A0, ALM1}, {AL, ANP}, {A2, A1}};
            for (auto &p : sl) {
                const bool core = (i != j && p[0] == A1 && p[1] == A2) || (i == j && p[0] == A1 && p[1] == ANP);
                addOp(K_SLICE, i, j, p[0], p[1], core, nm("slice", {I(i), I(j), argName(p[0]), argName(p[1])}));
            }
            addOp(K_TRIM, i, j, 1, 1, false, nm("trim", {I(i), "s" + I(j), "1", "1"}));
        }
        addOp(K_ASSIGN_LIT, i, 0, 0, 0, false, nm("assignLit", {I(i), "0"}));
        addOp(K_ASSIGN_LIT, i, 0, 1, 0, true, nm("assignLit", {I(i), "1"}));
        addOp(K_ASSIGN_LIT, i, 0, 2, 0, true, nm("assignLit", {I(i), "2"}));
        addOp(K_ASSIGN_RAWSELF, i, 0, 0, 0, false, nm("assignRawSelf", {I(i)}));
        static const int as[][2] = {{A1, ANP}, {A0, A1}, {ALM1, A1}};
        for (auto &p : as)
            addOp(K_APPEND_SUB, i, 0, p[0], p[1], false, nm("appendSub", {I(i), argName(p[0]), argName(p[1])}));
        addOp(K_PUSH, i, 0, 0, 0, true, nm("push_back", {I(i)}));
        addOp(K_APPEND_CSTR, i, 0, 0, 0, false, nm("appendCstr", {I(i)}));
        addOp(K_APPEND_RAWSELF, i, 0, 0, 0, false, nm("appendRawSelf", {I(i)}));
        static const int cn[] = {A0, A1, A2, AL, ALP1, ANP, ANPM1};
        for (int c : cn)
            addOp(K_CONSUME, i, 0, c, 0, c == A1, nm("consume", {I(i), argName(c)}));
        static const int cp[] = {A0, A1, ALM1, AL, ALP1, ANP, ANPM1};
        static const int cl[] = {A0, A1, A2, ALM1, AL, ANP, ANPM1};
        for (int p : cp)
            for (int n : cl)
                addOp(K_CHOP, i, 0, p, n, p == A0 && n == ALM1, nm("chop", {I(i), argName(p), argName(n)}));
        addOp(K_TRIM, i, -1, 1, 1, true, nm("trim", {I(i), "lit", "1", "1"}));
        addOp(K_TRIM, i, -1, 1, 0, false, nm("trim", {I(i), "lit", "1", "0"}));
        addOp(K_TRIM, i, -1, 0, 1, false, nm("trim", {I(i), "lit", "0", "1"}));
        addOp(K_LOWER, i, 0, 0, 0, false, nm("toLower", {I(i)}));
        addOp(K_UPPER, i, 0, 0, 0, true, nm("toUpper", {I(i)}));
        addOp(K_CLEAR, i, 0, 0, 0, true, nm("clear", {I(i)}));
        static const int rs[] = {A0, A1, A40, AMAXP1, AMAX, ANP};
        for (int c : rs)
            addOp(K_RSPACE, i, 0, c, 0, c == A1, nm("reserveSpace", {I(i), argName(c)}));
        static const int rc[] = {A0, ALP1, A64, AMAXP1, ANP};
        for (int c : rc)
            addOp(K_RCAP, i, 0, c, 0, false, nm("reserveCapacity", {I(i), argName(c)}));
        for (int v = 0; v < 4; ++v)
            addOp(K_RESERVE, i, 0, v, 0, false, nm("reserve", {I(i), "v" + I(v)}));
        static const int ra[][2] = {{0, 0}, {1, 1}, {4, 2}, {40, 3}, {4, 4}};
        for (auto &p : ra)
            addOp(K_RAWAPP, i, 0, p[0], p[1], p[0] == 4 && p[1] == 2, nm("rawAppend", {I(i), I(p[0]), I(p[1])}));
        addOp(K_CSTR, i, 0, 0, 0, true, nm("c_str", {I(i)}));
        addOp(K_SETAT, i, 0, A0, 0, true, nm("setAt", {I(i), "0"}));
        addOp(K_SETAT, i, 0, ALM1, 0, false, nm("setAt", {I(i), "len-1"}));
        addOp(K_SETAT, i, 0, AL, 0, false, nm("setAt", {I(i), "len"}));
        for (int v = 0; v < 3; ++v)
            addOp(K_APPENDF, i, 0, v, 0, false, nm("appendf", {I(i), "v" + I(v)}));
        for (int v = 0; v < 2; ++v)
            addOp(K_PRINTF, i, 0, v, 0, false, nm("Printf", {I(i), "v" + I(v)}));
    }
}

// ---------------------------------------------------------------- model helpers
std::string mSubstr(const std::string &m, sz_t pos, sz_t n)
{
    const size_t p = (pos == NPOS || pos > m.size()) ? m.size() : pos;
    return m.substr(p, n == NPOS ? std::string::npos : (size_t)n);
}

std::string mTrim(std::string m, const std::string &set, bool b, bool e)
{
    if (e) while (!m.empty() && set.find(m.back()) != std::string::npos) m.pop_back();
    if (b) { size_t k = 0; while (k < m.size() && set.find(m[k]) != std::string::npos) ++k; m.erase(0, k); }
    return m;
}

std::string mCase(std::string m, bool upper)
{
    for (auto &c : m) {
        if (upper && c >= 'a' && c <= 'z') c = c - 'a' + 'A';
        else if (!upper && c >= 'A' && c <= 'Z') c = c - 'A' + 'a';
    }
    return m;
}

int sgn(long v) { return v < 0 ? -1 : (v > 0 ? 1 : 0); }

struct World {
    SBuf s[3];
    std::string m[3];
};

typedef VB::Fail Fail;

bool sameContent(const SBuf &s, const std::string &m)
{
    return s.length() == m.size() && (m.empty() || memcmp(s.rawContent(), m.data(), m.size()) == 0);
}

std::string showS(const SBuf &s)
{
    // defensive: a corrupted SBuf may claim more bytes than its blob holds; never read those
    if (!s.store_ || (uint64_t)s.off_ + s.len_ > s.store_->capacity)
        return "len=" + std::to_string(s.length()) + " off=" + std::to_string(s.off_) + " (beyond its blob of capacity " +
               std::to_string(s.store_ ? s.store_->capacity : 0) + ")";
    const sz_t n = std::min<sz_t>(s.length(), 64);
    return "len=" + std::to_string(s.length()) + " '" + V::esc(std::string(s.rawContent(), n)) + "'";
}

// chop()/substr() document that an n overflowing the end is capped; with pos + n >= 2^32 the 32-bit sum wraps
bool wraps32(size_t len, sz_t pos, sz_t n)
{
    const size_t p = (pos == NPOS || pos > len) ? len : pos;
    return n != NPOS && (uint64_t)p + n > 0xffffffffULL;
}
const char *const WRAPKEY = "chop:pos+n-wraps-uint32";

uint64_t nThrowsExpected = 0, nRealOps = 0;

// Applies op to the real SBufs and the models and checks op results + contents of all three SBufs.
void applyOp(const Op &op, World &w, Fail &f)
{
    ++nRealOps;
    const int i = op.i, j = op.j;
    SBuf &si = w.s[i];
    const std::string &mi = w.m[i];
    const size_t len = mi.size();
    std::string after[3] = {w.m[0], w.m[1], w.m[2]};
    bool expectThrow = false, mayThrow = false, threw = false;
    std::string what;
    std::string K = kindName(op.kind);
    if (op.kind == K_APPENDF) K += op.a == 0 ? "[%s,10chars]" : (op.a == 1 ? "[%d.]" : "[empty-format]");
    else if (op.kind == K_PRINTF || op.kind == K_RESERVE) K += "[v" + std::to_string(op.a) + "]";
    const sz_t a = argVal(op.a, len), n = argVal(op.n, len);
    const bool wrapped = op.kind == K_CHOP && wraps32(len, a, n);

    try {
        switch (op.kind) {
        case K_ASSIGN:
            after[i] = w.m[j];
            si.assign(w.s[j]);
            break;
        case K_ASSIGN_OP:
            after[i] = w.m[j];
            si = w.s[j];
            break;
        case K_COPYCTOR: {
            after[i] = w.m[j];
            SBuf tmp(w.s[j]);
            si = std::move(tmp);
            break;
        }
        case K_ASSIGN_LIT:
            after[i] = LIT[op.a];
            si.assign(LIT[op.a].data(), LIT[op.a].size());
            break;
        case K_ASSIGN_RAWSELF:
            if (len >= 1) {
                after[i] = mi.substr(1);
                si.assign(si.rawContent() + 1, len - 1);
            } else {
                si.assign(si.rawContent(), 0);
            }
            break;
        case K_APPEND:
            after[i] = mi + w.m[j];
            si.append(w.s[j]);
            break;
        case K_APPEND_SUB:
            after[i] = mi + mSubstr(mi, a, n);
            si.append(si.substr(a, n));
            break;
        case K_PUSH:
            after[i] = mi + 'q';
            si.push_back('q');
            break;
        case K_APPEND_CSTR:
            after[i] = mi + "Rs";
            si.append("Rs");
            break;
        case K_APPEND_RAWSELF:
            after[i] = mi + mi;
            si.append(si.rawContent(), len);
            break;
        case K_SLICE:
            after[i] = mSubstr(w.m[j], argVal(op.a, w.m[j].size()), argVal(op.n, w.m[j].size()));
            si = w.s[j].substr(argVal(op.a, w.m[j].size()), argVal(op.n, w.m[j].size()));
            break;
        case K_CONSUME: {
            const size_t k = (a == NPOS) ? len : std::min<size_t>(a, len);
            const std::string ret = mi.substr(0, k);
            after[i] = mi.substr(k);
            const SBuf r = si.consume(a);
            if (!sameContent(r, ret))
                f.set(K + ":return", "consume(" + std::string(argName(op.a)) + ") returned " + showS(r) + ", expected '" + V::esc(ret) + "'");
            break;
        }
        case K_CONSUME_TO: {   // s[i] = s[j].consume(a), i != j
            const size_t lj = w.m[j].size();
            const sz_t aj = argVal(op.a, lj);
            const size_t k = std::min<size_t>(aj, lj);
            after[i] = w.m[j].substr(0, k);
            after[j] = w.m[j].substr(k);
            si = w.s[j].consume(aj);
            break;
        }
        case K_CHOP:
            after[i] = mSubstr(mi, a, n);
            si.chop(a, n);
            break;
        case K_TRIM: {
            const std::string set = (j < 0) ? TRIMSET : w.m[j];
            after[i] = mTrim(mi, set, op.a, op.n);
            if (j < 0) {
                const SBuf setBuf(TRIMSET);
                si.trim(setBuf, op.a, op.n);
            } else {
                si.trim(w.s[j], op.a, op.n);
            }
            break;
        }
        case K_LOWER:
            after[i] = mCase(mi, false);
            si.toLower();
            break;
        case K_UPPER:
            after[i] = mCase(mi, true);
            si.toUpper();
            break;
        case K_CLEAR:
            after[i].clear();
            si.clear();
            break;
        case K_RSPACE:
            expectThrow = a > MAXSZ || len > MAXSZ - a;
            si.reserveSpace(a);
            break;
        case K_RCAP:
            expectThrow = a > MAXSZ;
            si.reserveCapacity(a);
            break;
        case K_RESERVE: {
            SBufReservationRequirements req;
            switch (op.a) {
            case 0: req.minSpace = 1; req.allowShared = false; break;
            case 1: req.idealSpace = 8; req.minSpace = 2; req.maxCapacity = (sz_t)len + 1; break;
            case 2: req.minSpace = 3; req.idealSpace = 40; break;
            case 3: req.minSpace = 1; req.maxCapacity = (sz_t)len; req.allowShared = false; break;
            }
            (void)si.reserve(req);
            break;
        }
        case K_RAWAPP: {
            const sz_t want = op.a, actual = op.n;
            static const char fill[] = "uvwx";
            after[i] = mi + std::string(fill, actual);
            char *p = si.rawAppendStart(want);
            memcpy(p, fill, actual);
            si.rawAppendFinish(p, actual);
            break;
        }
        case K_CSTR: {
            const char *p = si.c_str();
            if (memcmp(p, mi.data(), len) != 0 || p[len] != '\0')
                f.set(K + ":return", "c_str() does not point at the NUL-terminated contents");
            break;
        }
        case K_SETAT:
            expectThrow = a >= len;
            if (!expectThrow) after[i][a] = 'k';
            si.setAt(a, 'k');
            break;
        case K_APPENDF:
            if (op.a == 0) { after[i] = mi + "0123456789"; si.appendf("%s", "0123456789"); }
            else if (op.a == 1) { after[i] = mi + "7."; si.appendf("%d.", 7); }
            else { const char *emptyFmt = ""; si.appendf(emptyFmt, 0); }
            break;
        case K_PRINTF:
            if (op.a == 0) {
                after[i] = "<" + mi.substr(0, mi.find('\0')) + ">";
                si.Printf("<%s>", si.c_str());
            } else {
                after[i] = "x";
                si.Printf("x");
            }
            break;
        }
    } catch (const std::exception &e) {
        threw = true;
        what = e.what();
    }
    if (expectThrow) ++nThrowsExpected;
    if (threw && !expectThrow && !mayThrow)
        f.set(K + ":unexpected-throw", op.name + " threw: " + what.substr(0, 200));
    if (!threw && expectThrow)
        f.set(K + ":no-throw", op.name + " is beyond the limits and must throw but returned");
    if (threw)
        for (int k = 0; k < 3; ++k) after[k] = w.m[k];      // a refused operation must leave the values alone
    for (int k = 0; k < 3; ++k) {
        if (!sameContent(w.s[k], after[k])) {
            f.set(wrapped ? std::string(WRAPKEY) : K + (k == i ? ":content" : ":other-content"),
                  "after " + op.name + ": SBuf " + std::to_string(k) + " is " + showS(w.s[k]) + " but the std::string model is len=" +
                  std::to_string(after[k].size()) + " '" + V::esc(after[k].substr(0, 64)) + "'");
            break;
        }
    }
    for (int k = 0; k < 3; ++k) w.m[k] = after[k];
}

// ---------------------------------------------------------------- canonical state
struct Canon {
    std::string bytes;
};

void put32(std::string &o, uint32_t v) { o.append((const char *)&v, 4); }

void canonPerm(const World &w, const int perm[3], std::string &out)
{
    static const MemBlob *proto = SBuf::GetStorePrototype().getRaw();
    const MemBlob *blobs[3];
    int nb = 0;
    out.clear();
    for (int q = 0; q < 3; ++q) {
        const SBuf &s = w.s[perm[q]];
        const MemBlob *b = s.store_.getRaw();
        int idx;
        if (b == proto) idx = 100;
        else if (!b) idx = 101;
        else {
            idx = -1;
            for (int k = 0; k < nb; ++k) if (blobs[k] == b) idx = k;
            if (idx < 0) { blobs[nb] = b; idx = nb++; }
        }
        out += (char)idx;
        put32(out, s.off_);
        put32(out, s.len_);
    }
    for (int k = 0; k < nb; ++k) {
        const MemBlob *b = blobs[k];
        uint32_t refs = 0, maxEnd = 0;
        for (int q = 0; q < 3; ++q)
            if (w.s[q].store_.getRaw() == b) { ++refs; maxEnd = std::max<uint32_t>(maxEnd, w.s[q].off_ + w.s[q].len_); }
        put32(out, b->capacity);
        put32(out, b->size);
        put32(out, (uint32_t)b->LockCount() - refs);      // locks held by anybody else (must stay 0)
        const uint32_t used = std::min<uint32_t>(b->capacity, std::max<uint32_t>(b->size, maxEnd));
        out.append(b->mem, used);
    }
    // the prototype blob is never written; record its fields to notice if it ever is
    put32(out, proto->capacity);
    put32(out, proto->size);
    // The reference models are part of the state (they equal the contents whenever the per-step check passed,
    // so this adds no states for a correct implementation, but keeps (real, model) pairs apart otherwise).
    for (int q = 0; q < 3; ++q) {
        put32(out, (uint32_t)w.m[perm[q]].size());
        out += w.m[perm[q]];
    }
}

void canon(const World &w, std::string &out)
{
    static const int perms[6][3] = {{0, 1, 2}, {0, 2, 1}, {1, 0, 2}, {1, 2, 0}, {2, 0, 1}, {2, 1, 0}};
    std::string t;
    canonPerm(w, perms[0], out);
    for (int p = 1; p < 6; ++p) {
        canonPerm(w, perms[p], t);
        if (t < out) out.swap(t);
    }
}

// ---------------------------------------------------------------- observers (const operations), run once per distinct state
uint64_t nObserverCalls = 0, nWrapHits = 0;
bool wrapReported = false;

#define OBS(cond, key, text) do { ++nObserverCalls; if (!(cond)) { f.set(std::string("observe:") + key, text); return; } } while (0)

sz_t toS(size_t r) { return r == std::string::npos ? NPOS : (sz_t)r; }
size_t toM(sz_t p) { return p == NPOS ? std::string::npos : (size_t)p; }

std::string lower(const std::string &s) { return mCase(s, false); }

void observe(const World &w, Fail &f, const bool light)
{
    static const CharacterSet setA("verifA", " aB");
    static const CharacterSet setEmpty("verifE", "");
    static const CharacterSet setAll = CharacterSet("verifAll", 0, 255);
    const CharacterSet *sets[3] = {&setA, &setEmpty, &setAll};
    std::string setChars[3];
    setChars[0] = " aB";
    for (int c = 0; c < 256; ++c) setChars[2] += (char)c;
    static const char probe[] = {'a', 'B', 'b', ' ', '\0', 'q', 'Z', 'k', 'c'};

    for (int i = 0; i < 3; ++i) {
        const SBuf &s = w.s[i];
        const std::string &m = w.m[i];
        const size_t len = m.size();
        const std::string who = "SBuf " + std::to_string(i) + " ('" + V::esc(m.substr(0, 40)) + "'): ";
        OBS(s.length() == len, "length", who + "length()");
        OBS(s.isEmpty() == m.empty(), "isEmpty", who + "isEmpty()");
        OBS(s.toStdString() == m, "toStdString", who + "toStdString()");
        OBS(s.plength() == (int)len, "plength", who + "plength()");
        {
            std::string it;
            for (auto p = s.begin(); p != s.end(); ++p) it += *p;
            OBS(it == m, "iterate", who + "begin()..end()");
            std::string rit;
            for (auto p = s.rbegin(); p != s.rend(); ++p) rit += *p;
            OBS(rit == std::string(m.rbegin(), m.rend()), "riterate", who + "rbegin()..rend()");
        }
        for (size_t p = 0; p < len; ++p) {
            OBS(s[p] == m[p], "index", who + "operator[]");
            OBS(s.at(p) == m[p], "at", who + "at()");
        }
        for (sz_t p : {(sz_t)len, (sz_t)len + 1, NPOS}) {
            bool threw = false;
            try { (void)s.at(p); } catch (const std::exception &) { threw = true; }
            OBS(threw, "at-out-of-range", who + "at(" + std::to_string(p) + ") did not throw");
        }
        for (sz_t n : {(sz_t)0, (sz_t)1, (sz_t)len, (sz_t)len + 5}) {
            std::vector<char> dst(len + 8, '#');
            const sz_t r = s.copy(dst.data(), n);
            const size_t e = std::min<size_t>(n, len);
            OBS(r == e && memcmp(dst.data(), m.data(), e) == 0 && dst[e] == '#', "copy", who + "copy(n=" + std::to_string(n) + ")");
        }

        std::vector<sz_t> P = {0, 1, 2, (sz_t)len - 1, (sz_t)len, (sz_t)len + 1, NPOS, NPOS - 1};
        std::sort(P.begin(), P.end());
        P.erase(std::unique(P.begin(), P.end()), P.end());

        for (char c : probe)
            for (sz_t p : P) {
                OBS(s.find(c, p) == toS(m.find(c, toM(p))), "find-char", who + "find(char " + std::to_string((int)c) + ", " + std::to_string(p) + ")");
                OBS(s.rfind(c, p) == toS(m.rfind(c, toM(p))), "rfind-char", who + "rfind(char " + std::to_string((int)c) + ", " + std::to_string(p) + ")");
            }
        for (int q = 0; q < 3 && !light; ++q)
            for (sz_t p : P) {
                OBS(s.findFirstOf(*sets[q], p) == toS(m.find_first_of(setChars[q], toM(p))), "findFirstOf", who + "findFirstOf(set" + std::to_string(q) + ", " + std::to_string(p) + ")");
                OBS(s.findFirstNotOf(*sets[q], p) == toS(m.find_first_not_of(setChars[q], toM(p))), "findFirstNotOf", who + "findFirstNotOf(set" + std::to_string(q) + ", " + std::to_string(p) + ")");
                OBS(s.findLastOf(*sets[q], p) == toS(m.find_last_of(setChars[q], toM(p))), "findLastOf", who + "findLastOf(set" + std::to_string(q) + ", " + std::to_string(p) + ")");
                OBS(s.findLastNotOf(*sets[q], p) == toS(m.find_last_not_of(setChars[q], toM(p))), "findLastNotOf", who + "findLastNotOf(set" + std::to_string(q) + ", " + std::to_string(p) + ")");
            }
        // substr for the whole argument grid (same clamping rules as chop, but const)
        for (sz_t p : P)
            for (sz_t n : P) {
                const SBuf sub = s.substr(p, n);
                if (wraps32(len, p, n)) {
                    ++nObserverCalls;
                    if (!sameContent(sub, mSubstr(m, p, n))) {
                        ++nWrapHits;
                        if (!wrapReported) {
                            wrapReported = true;
                            V::failKey(WRAPKEY, who + "substr(" + std::to_string(p) + "," + std::to_string(n) + ") is " + showS(sub) + ", expected '" + V::esc(mSubstr(m, p, n)) + "' (n must be capped at the end)");
                        }
                    }
                    continue;
                }
                OBS(sameContent(sub, mSubstr(m, p, n)), "substr", who + "substr(" + std::to_string(p) + "," + std::to_string(n) + ") is " + showS(sub));
            }
        // needles and comparison partners: the three SBufs, short slices of them, the empty SBuf
        // light battery (quick tier, leaf states): contents, char searches and the substr grid only; the searches and
        // comparisons below are const functions of buf()/length(), which the content checks above pin down
        if (light) continue;
        for (int j = 0; j < 3; ++j) {
            const SBuf nd[4] = {w.s[j], w.s[j].substr(0, 1), w.s[j].substr(1, 2), SBuf()};
            const std::string nm_[4] = {w.m[j], mSubstr(w.m[j], 0, 1), mSubstr(w.m[j], 1, 2), std::string()};
            for (int q = 0; q < 4; ++q) {
                const std::string dn = "'" + V::esc(nm_[q].substr(0, 40)) + "'";
                for (sz_t p : P) {
                    OBS(s.find(nd[q], p) == toS(m.find(nm_[q], toM(p))), "find-sbuf", who + "find(" + dn + ", " + std::to_string(p) + ")");
                    OBS(s.rfind(nd[q], p) == toS(m.rfind(nm_[q], toM(p))), "rfind-sbuf", who + "rfind(" + dn + ", " + std::to_string(p) + ")");
                }
                const std::string &o = nm_[q];
                OBS((s == nd[q]) == (m == o), "eq", who + "== " + dn);
                OBS((s != nd[q]) == (m != o), "ne", who + "!= " + dn);
                OBS((s < nd[q]) == (m < o), "lt", who + "< " + dn);
                OBS((s > nd[q]) == (m > o), "gt", who + "> " + dn);
                OBS((s <= nd[q]) == (m <= o), "le", who + "<= " + dn);
                OBS((s >= nd[q]) == (m >= o), "ge", who + ">= " + dn);
                OBS(s.startsWith(nd[q]) == (m.compare(0, o.size(), o) == 0 && m.size() >= o.size()), "startsWith", who + "startsWith(" + dn + ")");
                OBS(s.startsWith(nd[q], caseInsensitive) == (m.size() >= o.size() && lower(m.substr(0, o.size())) == lower(o)), "startsWith-ci", who + "startsWith(" + dn + ", ci)");
                for (sz_t n : {NPOS, (sz_t)0, (sz_t)1, (sz_t)2, (sz_t)len, (sz_t)len + 1, NPOS - 1}) {
                    const std::string l = m.substr(0, toM(n)), r = o.substr(0, toM(n));
                    OBS(sgn(s.cmp(nd[q], n)) == sgn(l.compare(r)), "cmp", who + "cmp(" + dn + ", " + std::to_string(n) + ")");
                    OBS(sgn(s.caseCmp(nd[q], n)) == sgn(lower(l).compare(lower(r))), "caseCmp", who + "caseCmp(" + dn + ", " + std::to_string(n) + ")");
                }
            }
        }
        // C-string comparisons (strncmp semantics; only meaningful for NUL-free contents)
        if (m.find('\0') == std::string::npos) {
            const std::string cs[] = {std::string(), "aB", "ab", " Zq", m, m + "x", m.substr(0, len ? len - 1 : 0)};
            for (auto &c : cs)
                for (sz_t n : {NPOS, (sz_t)0, (sz_t)1, (sz_t)2, (sz_t)len, (sz_t)len + 1}) {
                    const size_t nn = n == NPOS ? (size_t)1 << 30 : n;
                    OBS(sgn(s.cmp(c.c_str(), n)) == sgn(strncmp(m.c_str(), c.c_str(), nn)), "cmp-cstr", who + "cmp(\"" + V::esc(c) + "\", " + std::to_string(n) + ")");
                    OBS(sgn(s.caseCmp(c.c_str(), n)) == sgn(strncasecmp(m.c_str(), c.c_str(), nn)), "caseCmp-cstr", who + "caseCmp(\"" + V::esc(c) + "\", " + std::to_string(n) + ")");
                }
        }
    }
}

// ---------------------------------------------------------------- exploration
void report(const Fail &f)
{
    V::failKey(f.key, f.msg);
}

// the size-limit scenario: one SBuf grown to exactly maxSize
void limitsCase()
{
    Fail f;
    SBuf big;
    auto mustThrow = [&](const char *whatOp, const std::function<void()> &fn) {
        bool threw = false;
        try { fn(); } catch (const std::exception &) { threw = true; }
        if (!threw) f.set(std::string("limits:no-throw:") + whatOp, std::string(whatOp) + " beyond maxSize did not throw");
        ++nThrowsExpected;
    };
    auto intact = [&](const SBuf &s, sz_t len, const char *when) {
        if (s.length() != len || s[0] != 'x' || s[len / 2] != 'x')
            f.set("limits:content", std::string("contents/length changed ") + when);
    };
    try {
        mustThrow("reserveCapacity(maxSize+1)", [&] { big.reserveCapacity(MAXSZ + 1); });
        big.reserveCapacity(MAXSZ);
        const sz_t n0 = MAXSZ - 8;
        char *p = big.rawAppendStart(n0);
        memset(p, 'x', n0);
        big.rawAppendFinish(p, n0);
        intact(big, n0, "after the fill");
        mustThrow("append(9 bytes)", [&] { big.append("123456789", 9); });
        intact(big, n0, "after a refused append");
        SBuf shared(big);
        big.append("12345678", 8);
        if (big.length() != MAXSZ || big[MAXSZ - 1] != '8') f.set("limits:content", "append up to exactly maxSize failed");
        if (shared.length() != n0) f.set("limits:content", "a copy changed when the original was appended to");
        mustThrow("push_back", [&] { big.push_back('z'); });
        mustThrow("append(SBuf)", [&] { big.append(shared); });
        mustThrow("append(self)", [&] { big.append(big); });
        mustThrow("reserveSpace(1)", [&] { big.reserveSpace(1); });
        mustThrow("rawAppendStart(1)", [&] { (void)big.rawAppendStart(1); });
        mustThrow("appendf", [&] { big.appendf("%s", "abc"); });
        try { const char *c = big.c_str(); if (c[MAXSZ] != '\0') f.set("limits:c_str", "c_str() at maxSize not terminated"); }
        catch (const std::exception &) {}    // refusing is fine, corrupting is not
        intact(big, MAXSZ, "after refused operations");
        big.chop(1);
        mustThrow("append(2) after chop(1)", [&] { big.append("ab", 2); });
        intact(big, MAXSZ - 1, "after chop");
        big.clear();
        shared.clear();
    } catch (const std::exception &e) {
        f.set("limits:unexpected-throw", std::string("unexpected exception: ") + e.what());
    }
    if (f.bad()) report(f);
    V::outcome(f.bad() ? "limits:failed" : "limits:ok");
}

struct SBufSys {
    typedef ::World World;
    static const bool observersAreConst = true;
    SBufStats before;
    uint64_t sharedStates = 0, sliceStates = 0;
    bool leaf = false, lightLeaves = false;
    SBufSys(): before(SBuf::GetStats()) {}
    size_t numOps() const { return Ops.size(); }
    bool core(size_t o) const { return Ops[o].core; }
    const std::string &opName(size_t o) const { return Ops[o].name; }
    bool apply(World &w, size_t o, Fail &f)
    {
        const Op &op = Ops[o];
        // reserveSpace(maxSize) on an empty SBuf is legal and allocates 256 MB: exercised once in limitsCase(), not per state
        if (op.kind == K_RSPACE && op.a == AMAX && w.m[op.i].empty()) return false;
        applyOp(op, w, f);
        return true;
    }
    void canon(const World &w, std::string &out) { ::canon(w, out); }
    void observe(World &w, Fail &f) { ::observe(w, f, leaf && lightLeaves); }
    std::string show(const World &w) { return "['" + V::esc(w.m[0]) + "', '" + V::esc(w.m[1]) + "', '" + V::esc(w.m[2]) + "']"; }
    void classify(const World &w)
    {
        bool sh = false, sl = false;
        for (int a = 0; a < 3; ++a)
            for (int b = a + 1; b < 3; ++b)
                if (w.s[a].store_ == w.s[b].store_ && w.s[a].store_->capacity > 0) {
                    sh = true;
                    if (w.s[a].off_ != w.s[b].off_ || w.s[a].len_ != w.s[b].len_) sl = true;
                }
        if (sh) ++sharedStates;
        if (sl) ++sliceStates;
    }
    void finish(int)
    {
        V::count("observer_calls", nObserverCalls);
        V::count("substr_pos_plus_n_wrap_mismatches", nWrapHits);
        V::count("real_ops_executed", nRealOps);
        V::count("expected_throws", nThrowsExpected);
        V::count("states_sharing_a_blob", sharedStates);
        V::count("states_with_distinct_slices_of_a_blob", sliceStates);
        const SBufStats &after = SBuf::GetStats();
        V::count("cow_realloc_copy", after.cowAllocCopy - before.cowAllocCopy);
        V::count("cow_shift", after.cowShift - before.cowShift);
        V::count("cow_avoided", after.cowAvoided - before.cowAvoided);
    }
};

void body(V::Ctx &ctx)
{
    buildOps();
    SBufSys sys;
    sys.lightLeaves = ctx.quick();     // quick tier: reduced partner set in the observer battery of leaf-level states
    if (ctx.replay) {
        if (V::begin_case(ctx.replayCase)) {
            if (ctx.replayCase == "limits") limitsCase();
            else VB::replayHistory(sys, ctx.replayCase);
            V::end_case();
        }
        return;
    }
    if (V::begin_case("limits")) {     // case 1 (shard 1 % n); first, so that a deadline in the BFS cannot skip it
        VB::setDesc("limits");
        limitsCase();
        V::end_case();
    }
    VB::runSharded(sys, ctx, ctx.quick() ? 4 : 5);     // cases 2..n+1: exactly one per shard
}

} // namespace

VHARNESS_MAIN(body)
