"""C52 Overflow-safe arithmetic helpers are exact — E1, exhaustive small types + boundary-dense large types vs __int128."""
from vverif import seq
from vverif.core import Result, HarnessError

LEVEL = 'exploration'
RULE = ('Less(a,b) and IncreaseSum(a,b) for ALL values of every ordered pair of types from {int8,uint8,int16,uint16} (16x16-bit '
        'pairs, 4 x 2^32 value pairs, only in the thorough tier); for every ordered pair of the 8 types int8..uint64 all pairs from '
        'a boundary-dense value set per type (min, min+1, min+2, -3..3, max-2..max, max/2-1..max/2+1, min/2, +-2^k-1..+-2^k+1 for k in '
        '{7,8,15,16,31,32,62,63}) through Less, IncreaseSum, and NaturalSum<S>/SetToNaturalSumOrMax<S> for S in {uint8,int16,int32,'
        'uint32,int64,uint64}; for every ordered triple of argument types from {int8,uint16,int32,int64,uint64} the 3-argument '
        'NaturalSum/SetToNaturalSumOrMax over the small boundary set with 3 result types; reference = __int128 arithmetic; '
        'non-trivial = comparisons of operands with different signs, sums that overflow the result type, sums with a negative '
        'argument, and clamped stores')
ASSUME = ['src/SquidMath.h of the scratch copy of the current tree instantiated in the harness with -fsanitize=address,undefined '
          '-fno-sanitize-recover (signed overflow or a bad conversion inside the helpers aborts the case)',
          'IncreaseSum(s,t) is called with the first argument of the result type, as its only in-tree callers do']


def _build(ctx):
    return seq.build(ctx, 'tests/testMath', ['C52_math.cc', 'C52_part2.cc', 'C52_part3.cc'], ubsan=True)


def _result(ctx, m):
    oc = m['outcomes']
    viol = seq.violations_from(m)
    if not viol and not m['deadline_hit']:
        for k in ('less:operands-of-different-sign', 'less:operands-of-same-sign', 'sum:exact', 'sum:overflow-nothing',
                  'sum:negative-argument-nothing', 'clamp:max', 'clamp:exact'):
            if oc.get(k, 0) < 1000:
                raise HarnessError('vacuity guard: outcome %s seen %d times' % (k, oc.get(k, 0)))
    nontriv = ['less:operands-of-different-sign', 'sum:overflow-nothing', 'sum:negative-argument-nothing', 'clamp:max']
    cov = seq.coverage_from(m, RULE, nontrivial_classes=nontriv, min_classes=1 if viol else 7)
    cov['cases'] = cov['evaluations']
    cov['evaluations'] = m['counters'].get('evaluations_of_the_helpers', 0) or cov['cases']
    return Result(LEVEL, cov, viol, ASSUME)


def run(ctx):
    exe = _build(ctx)
    return _result(ctx, seq.run(ctx, exe))


def replay(ctx, data):
    exe = _build(ctx)
    m = seq.replay_case(ctx, exe, data['case'])
    m.setdefault('deadline_hit', False)
    if not m['evaluations']:
        raise HarnessError('replay descriptor did not run: %r' % data['case'])
    return Result(LEVEL, {}, seq.violations_from(m), ASSUME)
