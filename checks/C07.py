"""C07 Non-idempotent requests are not re-sent after reaching the origin -- E3 lock-step, fault enumeration.

The real (ASan) squid forwards one client request per case to an origin played by the driver.  The
origin host name of a case resolves (through a DNS server also played by the driver) to one address,
to two live addresses, or to a dead address followed by a live one; optionally an idle persistent
connection to the origin exists before the request (`server_pconn_for_nonretriable allow all`).
Every upstream attempt Squid makes for the request is answered by the next element of the case's
behaviour sequence: close without reading, close after reading the head, close after reading the
whole request, reset after half a response head, [thorough: never answer], or a 200.

Oracle (from the property statement only): for POST / PATCH / an extension method, once any byte of
the request has arrived on one upstream connection, no later upstream connection may carry the
complete request head; and the client always gets a complete response or a close.
"""
import re
import socket
import struct

from vverif import lockstep as ls
from vverif import httpref
from vverif.core import Result, Violation, HarnessError

LEVEL = 'fault_enumeration'

CONF = '''
connect_timeout 5 seconds
read_timeout 10 seconds
forward_timeout 60 seconds
request_entities on
cache deny all
'''
PCONN_ALLOW = 'server_pconn_for_nonretriable allow all\n'

METHODS = ('GET', 'PUT', 'DELETE', 'POST', 'PATCH', 'FOO')
NONIDEMPOTENT = ('POST', 'PATCH', 'FOO')
BODIES = ('none', '3')
FAILS_Q = ('Cb', 'Ch', 'Cr', 'Rh')
FAILS_T = ('Cb', 'Ch', 'Cr', 'Rh', 'St')
BEHAVIOUR_DOC = {'Cb': 'close without reading', 'Ch': 'close after reading the request head', 'Cr': 'close after reading the whole request',
                 'Rh': 'RST after sending half a response head', 'St': 'read the request and never answer', 'OK': 'answer 200'}
ADDRS = {'a1': ['127.0.0.1'], 'a2': ['127.0.0.1', '127.0.0.2'], 'd2': ['127.0.0.3', '127.0.0.2']}   # nothing listens on 127.0.0.3
MAX_WAIT_S = 75     # virtual seconds the client waits for a response or a close (> forward_timeout)


def sequences(fails, maxlen):
    out = [()]
    level = [()]
    for _ in range(maxlen):
        level = [s + (f,) for s in level for f in fails]
        out += level
    return out


def all_cases(quick):
    cases = []
    n = 0
    policies = ('allow',) if quick else ('allow', 'default')
    seqs = sequences(FAILS_Q, 2) if quick else sequences(FAILS_T, 3)
    for policy in policies:
        for conn in ('fresh', 'reused'):
            if policy == 'default' and conn == 'fresh':
                continue        # the directive only matters when an idle connection exists
            for m in METHODS:
                for body in BODIES:
                    for addr in ('a1', 'a2', 'd2'):
                        for seq in seqs:
                            n += 1
                            cases.append({'n': n, 'policy': policy, 'conn': conn, 'm': m, 'body': body, 'addr': addr, 'seq': list(seq)})
    # fixed stride permutation (no randomness): neighbouring cases on an instance differ in every dimension, and the
    # cases that are run twice for the determinism obligation are spread over the whole product
    N = len(cases)
    stride = next(p for p in (389, 397, 401, 409, 419) if N % p)
    return [cases[(i * stride) % N] for i in range(N)]


def case_name(c):
    return '%s body=%s %s-conn pconn-policy=%s addrs=%s origin=[%s]' % (c['m'], c['body'], c['conn'], c['policy'], c['addr'], ','.join(c['seq']) + (',' if c['seq'] else '') + 'OK...')


def key_of(c):
    return 'resend:%s:body-%s:%s:%s:%s:first=%s' % (c['m'], c['body'], c['conn'], c['policy'], c['addr'], c['seq'][0] if c['seq'] else 'OK')


# ------------------------------------------------------------------ environment

class Squid7(ls.Squid):
    dns_ip = '127.0.0.1'

    def write_conf(self):
        p = super().write_conf()
        with open(p) as f:
            s = f.read()
        s = s.replace('dns_nameservers 127.0.0.1\n', 'dns_nameservers %s\n' % self.dns_ip)
        with open(p, 'w') as f:
            f.write(s)
        return p


def dns_reply(q):
    """Answer one DNS query for c<N>.<addrmode>.v7.test with the A records of that mode (AAAA: empty answer)."""
    if len(q) < 17:
        return None
    pos = 12
    labels = []
    while pos < len(q):
        l = q[pos]
        pos += 1
        if l == 0:
            break
        labels.append(q[pos:pos + l])
        pos += l
    if pos + 4 > len(q):
        return None
    qtype, qclass = struct.unpack('>HH', q[pos:pos + 4])
    pos += 4
    question = q[12:pos]
    name = b'.'.join(labels).decode('latin1').lower()
    mm = re.match(r'^[a-z]\d+\.(a1|a2|d2)\.v7\.test$', name)
    ans = b''
    cnt = 0
    rcode = 0
    if not mm:
        rcode = 3
    elif qtype == 1:
        for ip in ADDRS[mm.group(1)]:
            ans += b'\xc0\x0c' + struct.pack('>HHIH', 1, 1, 3600, 4) + socket.inet_aton(ip)
            cnt += 1
    return q[:2] + struct.pack('>HHHHH', 0x8180 | rcode, 1, cnt, 0, 0) + question + ans


class OC:
    def __init__(self, sock, idx, addr):
        self.s = sock
        self.s.setblocking(False)
        self.idx = idx
        self.addr = addr
        self.closed = False
        self.eof = False
        self.used = 0           # requests answered on this connection
        self.att = None         # attempt record currently being handled on this connection

    def peek(self):
        if self.closed or self.eof:
            return b''
        try:
            d = self.s.recv(1 << 20, socket.MSG_PEEK)
        except BlockingIOError:
            return b''
        except OSError:
            self.eof = True
            return b''
        if not d:
            self.eof = True
        return d

    def consume(self, n):
        got = b''
        while len(got) < n:
            d = self.s.recv(n - len(got))
            if not d:
                break
            got += d
        return got

    def send(self, data):
        try:
            self.s.sendall(data)
        except OSError:
            pass

    def close(self, rst=False):
        if self.closed:
            return
        self.closed = True
        try:
            if rst:
                self.s.setsockopt(socket.SOL_SOCKET, socket.SO_LINGER, struct.pack('ii', 1, 0))
            self.s.close()
        except OSError:
            pass


class W7:
    """Squid + two origin listeners (127.0.0.1, 127.0.0.2; same port) + a DNS server, all played by the driver."""

    def __init__(self, ctx, name, port_base, shard, policy):
        self.sq = Squid7(ctx, name, port_base, conf=CONF + (PCONN_ALLOW if policy == 'allow' else ''))
        self.sq.dns_ip = '127.0.7.%d' % (shard + 1)
        self.policy = policy
        self.port = port_base + 1
        self.listeners = {'127.0.0.1': ls.Listener(self.port, '127.0.0.1'), '127.0.0.2': ls.Listener(self.port, '127.0.0.2')}
        self.dns = ls.Udp(53, self.sq.dns_ip)
        self.dns_queries = 0
        self.ocs = []

    def start(self):
        self.sq.start()
        return self

    def stop(self):
        try:
            self.sq.cleanup()
        finally:
            for oc in self.ocs:
                oc.close()
            for l in self.listeners.values():
                l.close()
            self.dns.close()

    def close_origin(self):
        for oc in self.ocs:
            oc.close()
        self.ocs = []

    def env_step(self, st):
        """One round of the unscripted environment.  st: per-case state (seq, attempts, tag)."""
        prog = False
        for d, a in self.dns.recv_all():
            r = dns_reply(d)
            self.dns_queries += 1
            if r is not None:
                try:
                    self.dns.s.sendto(r, a)
                except OSError:
                    pass
            prog = True
        for ip, l in self.listeners.items():
            while True:
                try:
                    c, _ = l.s.accept()
                except BlockingIOError:
                    break
                self.ocs.append(OC(c, len(self.ocs), ip))
                st['events'].append(('accept', len(self.ocs) - 1, ip))
                prog = True
        for oc in self.ocs:
            if oc.closed or oc.eof:
                continue
            data = oc.peek()
            if oc.eof:
                st['events'].append(('origin-sees-close', oc.idx))
                prog = True
                continue
            if not data:
                continue
            m = httpref.parse_request(data)
            if m.error:
                raise HarnessError('origin received a malformed request: %s %r' % (m.error, data[:200]))
            tg = re.match(rb'^[A-Z]+ /([cw]\d+) ', data)
            if not tg:
                if len(data) < 24:
                    continue
                raise HarnessError('origin received an untagged request: %r' % data[:200])
            tag = tg.group(1).decode()
            if tag.startswith('w') or tag != st['tag']:
                # warm-up request that creates the idle persistent connection
                if m.complete:
                    oc.consume(m.consumed)
                    oc.send(ok_response(self.sq.now_us, tag))
                    oc.used += 1
                    st['events'].append(('warmup-answered', oc.idx))
                    prog = True
                continue
            att = oc.att
            if att is None:
                k = len(st['attempts'])
                att = {'k': k, 'conn': oc.idx, 'addr': oc.addr, 'reused': oc.used > 0, 'beh': st['seq'][k] if k < len(st['seq']) else 'OK',
                       'arrived': 0, 'head_complete': False, 'complete': False, 'done': False}
                st['attempts'].append(att)
                oc.att = att
                prog = True
            if att['done']:
                continue
            if len(data) != att['arrived']:
                prog = True
            att['arrived'] = len(data)
            att['head_complete'] = m.head_complete
            att['complete'] = m.complete
            b = att['beh']
            if b == 'Cb':
                att['done'] = True
                oc.close()              # unread data: the kernel turns this into a RST
                prog = True
            elif b == 'Ch':
                if m.head_complete:
                    head_len = data.index(b'\r\n\r\n') + 4
                    oc.consume(head_len)
                    att['done'] = True
                    oc.close()
                    prog = True
            elif m.complete:
                oc.consume(m.consumed)
                att['done'] = True
                prog = True
                if b == 'Cr':
                    oc.close()
                elif b == 'Rh':
                    r = ok_response(self.sq.now_us, tag)
                    oc.send(r[:(r.index(b'\r\n\r\n') + 4) // 2])
                    oc.close(rst=True)
                elif b == 'St':
                    pass
                else:
                    oc.send(ok_response(self.sq.now_us, tag))
                    oc.used += 1
                    oc.att = None
        return prog


def ok_response(now_us, tag):
    body = ('ok-%s' % tag).encode()
    return ('HTTP/1.1 200 OK\r\nDate: %s\r\nContent-Length: %d\r\nCache-Control: no-store\r\n\r\n' % (ls.http_date(now_us), len(body))).encode() + body


def make_world_for(policy):
    def make_world(ctx, shard):
        return W7(ctx, 'w%d' % shard, ls.port_base_for_check(ctx.pid, shard), shard, policy)
    return make_world


def run_case(w, c):
    sq = w.sq
    host = 'c%d.%s.v7.test' % (c['n'], c['addr'])
    hostport = '%s:%d' % (host, w.port)
    tag = 'c%d' % c['n']
    st = {'seq': c['seq'], 'attempts': [], 'tag': tag, 'events': []}

    def drive(cl, method, maxrounds=60):
        for _ in range(maxrounds):
            sq.settle(1)
            p = w.env_step(st)
            if cl.pump():
                p = True
            if not p:
                return
        raise HarnessError('environment does not quiesce in case %s' % case_name(c))

    idle_before = 0
    if c['conn'] == 'reused':
        wc = sq.client()
        wc.send(('GET http://%s/w%d HTTP/1.1\r\nHost: %s\r\n\r\n' % (hostport, c['n'], hostport)).encode())
        drive(wc, 'GET')
        for _ in range(8):      # the dead first address costs a connect failure first; DNS may need a resend
            if httpref.parse_response(wc.inbuf, 'GET').complete:
                break
            sq.advance(1000, rounds=1)
            drive(wc, 'GET')
        r = httpref.parse_response(wc.inbuf, 'GET')
        if not r.complete or r.status != 200:
            raise HarnessError('warm-up GET failed in case %s: %r' % (case_name(c), wc.inbuf[:300]))
        wc.close()
        drive(wc, 'GET')
        idle_before = sum(1 for oc in w.ocs if not oc.closed and not oc.eof and oc.used > 0)
        if idle_before != 1:
            raise HarnessError('expected one idle origin connection after the warm-up, have %d' % idle_before)
    body = b'' if c['body'] == 'none' else b'xyz'
    hdr = ''
    if body or c['m'] not in ('GET', 'DELETE'):
        hdr = 'Content-Length: %d\r\n' % len(body)
    req = ('%s http://%s/%s HTTP/1.1\r\nHost: %s\r\n%s\r\n' % (c['m'], hostport, tag, hostport, hdr)).encode() + body
    cl = sq.client()
    cl.send(req)
    drive(cl, c['m'])
    waited = 0

    def finished():
        r = httpref.parse_response(cl.inbuf, c['m'], eof=cl.eof)
        return (r.complete and not r.error) or cl.eof
    while not finished() and waited < MAX_WAIT_S:
        sq.advance(1000, rounds=1)
        waited += 1
        drive(cl, c['m'])
    resp = httpref.parse_response(cl.inbuf, c['m'], eof=cl.eof)
    got = 'status-%d' % resp.status if (resp.complete and not resp.error) else ('closed' if cl.eof else 'NOTHING')
    cl.close()
    w.close_origin()
    sq.settle(1)
    w.env_step({'seq': [], 'attempts': [], 'tag': '-', 'events': []})
    w.close_origin()
    sq.settle(1)

    atts = st['attempts']
    violation = None
    if c['m'] in NONIDEMPOTENT:
        for j, aj in enumerate(atts):
            prior = [ai for ai in atts[:j] if ai['arrived'] >= 1]
            if aj['head_complete'] and prior:
                p0 = prior[0]
                violation = ('%s request was delivered again: attempt %d (connection #%d to %s, %s) had received %d byte(s) of it and the origin chose to "%s"; '
                             'then attempt %d (connection #%d to %s, %s) carried the complete request head again' % (
                                 c['m'], p0['k'] + 1, p0['conn'], p0['addr'], 'reused idle connection' if p0['reused'] else 'new connection', p0['arrived'],
                                 BEHAVIOUR_DOC[p0['beh']], aj['k'] + 1, aj['conn'], aj['addr'], 'reused idle connection' if aj['reused'] else 'new connection'))
                break
    if got == 'NOTHING' and violation is None:
        violation = 'the client got neither a complete response nor a close within %d virtual seconds (received %r)' % (MAX_WAIT_S, cl.inbuf[:120])
    nwith = sum(1 for a in atts if a['arrived'] >= 1)
    outcome = '%s:attempts=%d:%s:via=%s%s' % ('nonidem' if c['m'] in NONIDEMPOTENT else 'idem', nwith, got,
                                              '+'.join(a['addr'].rsplit('.', 1)[1] + ('r' if a['reused'] else '') for a in atts if a['arrived'] >= 1), '' if c['addr'] != 'd2' else ':dead-first')
    transcript = repr([(a['k'], a['conn'], a['addr'], a['reused'], a['beh'], a['arrived'], a['head_complete'], a['complete']) for a in atts]) + \
        ' client=' + got + ' waited=%d' % waited + ' ' + repr(st['events'])
    return {'outcome': outcome, 'violation': violation, 'transcript': transcript,
            'x': {'attempts': nwith, 'first_reused': bool(atts and atts[0]['reused']), 'addrs': sorted(set(a['addr'] for a in atts))}}


ASSUME = ['the real squid binary (ASan build of the current tree, -N) runs under the lock-step/virtual-time shim; client, origin listeners (127.0.0.1 and 127.0.0.2, nothing on 127.0.0.3) '
          'and the DNS server are played by the driver',
          '"Squid began sending" is observed at the origin: at least one byte of the request had arrived on the upstream connection (peeked before the stub decides to read or close)',
          'every case uses its own origin host name, so address-health marks and idle connections of earlier cases cannot influence a case',
          'retries after an HTTP error *response* (e.g. 503 re-forwarding) are outside the statement (it speaks of connection failures) and are not enumerated']
RULE = ('product of method {GET, PUT, DELETE, POST, PATCH, FOO} x body {none, 3 bytes} x upstream connection {fresh, reused idle pconn} x origin addresses '
        '{one, two live, dead+live} x per-attempt origin behaviour sequence (quick: length <=2 over 4 failure kinds; thorough: length <=3 over 5 failure kinds, '
        'and additionally the reused-connection cases without server_pconn_for_nonretriable); after the sequence the origin answers 200. '
        'non-trivial = cases in which at least one upstream attempt that had received request bytes failed')


def run(ctx):
    ls.build_squid(ctx)
    cases = all_cases(ctx.quick)
    tot = {'evaluations': 0, 'kicks': 0, 'replays': 0}
    outcomes, viol, crashes, samples = {}, [], [], []
    deadline = False
    by_policy = {}
    for c in cases:
        by_policy.setdefault(c['policy'], []).append(c)
    stats = {'nontrivial': 0, 'idem_retried': 0, 'nonidem_second_path_after_refusal': 0, 'nonidem_failed_after_arrival': 0, 'reused_first_attempt': 0,
             'max_attempts': 0}
    for policy in sorted(by_policy):
        sub = by_policy[policy]

        def rc(w, c):
            return run_case(w, c)
        r = ls.run_cases(ctx, sub, rc, make_world_for(policy), key_of=key_of, determinism_n=8)
        tot['evaluations'] += r['evaluations']
        tot['kicks'] += r['kicks']
        tot['replays'] += r['replays']
        deadline = deadline or r['deadline_hit']
        for k, v in r['outcomes'].items():
            outcomes[k] = outcomes.get(k, 0) + v
        viol += r['violations']
        crashes += r['crashes']
        samples += r['samples']
    # coverage classes are derived from the outcome strings (run_cases only keeps those)
    for k, v in outcomes.items():
        mm = re.match(r'^(idem|nonidem):attempts=(\d+):([^:]*):via=([^:]*)(:dead-first)?$', k)
        if not mm:
            continue
        na = int(mm.group(2))
        stats['max_attempts'] = max(stats['max_attempts'], na)
        if mm.group(1) == 'idem' and na >= 2:
            stats['idem_retried'] += v
        if mm.group(1) == 'nonidem' and na == 1 and mm.group(3) != 'status-200':
            stats['nonidem_failed_after_arrival'] += v
        if mm.group(1) == 'nonidem' and na >= 1 and mm.group(5):
            stats['nonidem_second_path_after_refusal'] += v
        if 'r' in mm.group(4):
            stats['reused_first_attempt'] += v
    nontrivial = sum(v for k, v in outcomes.items() if ':attempts=1:status-200:' not in k and ':attempts=0:' not in k)
    if not viol:
        if stats['idem_retried'] < 20:
            raise HarnessError('vacuity guard: Squid retried an idempotent request in only %d cases: %r' % (stats['idem_retried'], outcomes))
        if stats['nonidem_failed_after_arrival'] < 20:
            raise HarnessError('vacuity guard: only %d non-idempotent cases failed after the request had arrived: %r' % (stats['nonidem_failed_after_arrival'], outcomes))
        if stats['nonidem_second_path_after_refusal'] < 20 or stats['reused_first_attempt'] < 20:
            raise HarnessError('vacuity guard: second path after a refused connection used in %d non-idempotent cases, idle connection reused in %d cases: %r' % (
                stats['nonidem_second_path_after_refusal'], stats['reused_first_attempt'], outcomes))
    vio = [Violation(k, '%s: %s' % (case_name(c), what), {'case': c}) for k, what, c in viol]
    vio += [Violation('crash:' + k, 'squid crashed/asserted during case %s: %s' % (case_name(c), what), {'case': c}) for k, what, c in crashes]
    cov = {'evaluations': tot['evaluations'], 'distinct_nontrivial': nontrivial, 'rule': RULE,
           'samples': [{'case': case_name(s['case']), 'outcome': s['outcome']} for s in samples[:6]],
           'exhaustive': (not deadline) and tot['evaluations'] == len(cases), 'cases_total': len(cases), 'kicks': tot['kicks'],
           'determinism_replays': tot['replays'], 'outcome_classes': dict(sorted(outcomes.items())),
           'idempotent_cases_retried': stats['idem_retried'], 'nonidempotent_cases_failed_after_arrival_and_not_resent': stats['nonidem_failed_after_arrival'],
           'nonidempotent_cases_sent_to_second_address_after_refused_connect': stats['nonidem_second_path_after_refusal'],
           'cases_whose_first_attempt_reused_an_idle_connection': stats['reused_first_attempt'],
           'max_upstream_attempts_seen': stats['max_attempts']}
    return Result(LEVEL, cov, vio, ASSUME)


def replay(ctx, data):
    ls.build_squid(ctx)
    c = data['case']
    w = make_world_for(c['policy'])(ctx, 0)
    w.start()
    try:
        r = run_case(w, c)
        print(case_name(c))
        print(r['transcript'])
    finally:
        w.stop()
    v = [Violation(key_of(c), r['violation'], data)] if r['violation'] else []
    return Result(LEVEL, {}, v, ASSUME)
