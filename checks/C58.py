"""C58 IPC messages round-trip and malformed messages are rejected safely — E1, every put sequence x every get
sequence and raw-buffer mutants of Ipc::TypedMsgHdr against a byte-level reference (de)serialiser."""
from vverif import seq
from vverif.core import Result, HarnessError

LEVEL = 'exploration'
RULE = ('every put sequence of length <= 3 over 14 items {int 0,1,5,-1,4096,4097,INT_MAX; a 16-byte POD; '
        'strings of length 0,1,5,4092 (largest that fits),4096; an 8-byte fixed buffer} (thorough: also every sequence of 4 puts over the 8 items i1,i-1,i4096,pod16,s0,s5,s4092,f8) is built with the real put primitives '
        '(puts that overflow maxSize must throw), its data buffer is copied byte for byte into a message prepared with '
        'prepForReading(), and the matching get sequence plus every get sequence of length <= 4 / 5 over {getInt, getPod(16), '
        'getString, getFixed(8)} is run on it and on a copy-constructed message; then the same for raw-buffer mutants: type '
        'field {0,other,-1}, size field {0,1,size-1,size+1,4095,4096,4097,4124,8292,INT_MAX,SIZE_MAX,(size_t)INT_MIN}, every '
        'string length field {0,-1,L-1,L+1,rest,rest+1,4096,4097,INT_MAX,INT_MIN} (thorough: combined with 5 size values), '
        'get sequences <= 3; a case is one put sequence; non-trivial = (buffer, get sequence) pairs in which the '
        'reference demanded a rejection or a type mismatch, plus accepted sequences that consumed data')
ASSUME = ['src/ipc/TypedMsgHdr.cc of the current tree as built (ASan) by the scratch tree make (ipc/TypedMsgHdr.o), linked with String.o, libbase, libcompatsquid and the tests/ stubs for debug, mem and SBuf',
          'a received datagram is modelled as the bytes of the data buffer {type, size, raw[maxSize]}; UDS datagrams arrive '
          'whole, so "truncated" means a size field smaller than what the reader asks for',
          'message objects sit in front of a 64 KB sentinel area so that reads beyond raw[] are judged by the reference '
          '(a get may succeed only inside min(size field, maxSize)) instead of aborting the run',
          'a message whose size field exceeds maxSize may be refused at any get; wrong-kind get sequences cannot be detected by an untagged format; for them the oracle only demands: no read outside '
          'the stored data, exact bytes returned, an error when the data or a length field does not fit']


def _build(ctx):
    # TypedMsgHdr needs little: link the harness with exactly the tree objects it uses (rebuilt from the
    # current tree first) instead of a whole unit-test link set -- the build step stays at a few seconds
    import os
    ctx.vbuild('compat:libcompatsquid.la', 'src/base:libbase.la', 'src/ipc:TypedMsgHdr.lo',
               'src:String.o tests/stub_debug.o tests/stub_libmem.o tests/stub_SBuf.o')
    t = ctx.tree
    objs = [os.path.join(t, 'src', o) for o in ('ipc/TypedMsgHdr.o', 'String.o', 'tests/stub_debug.o', 'tests/stub_libmem.o',
                                                 'tests/stub_SBuf.o', 'base/.libs/libbase.a')]
    objs.append(os.path.join(t, 'compat/.libs/libcompatsquid.a'))
    return seq.build_plain(ctx, ['C58_msg.cc'], objects=objs, extra_ld=['-ldl'])



def _timed_build(ctx):
    """Compiling and linking the harness is build time as well: like ctx.vbuild(), do not charge it to the
    tier deadline (under load the link of a unit-test set alone can take minutes)."""
    import time
    t, b0 = time.time(), getattr(ctx, 'build_s', 0.0)
    exe = _build(ctx)
    ctx.deadline_s += max(0.0, (time.time() - t) - (getattr(ctx, 'build_s', 0.0) - b0))
    return exe


def run(ctx):
    exe = _timed_build(ctx)
    m = seq.run(ctx, exe)
    oc = m['outcomes']
    if not m['failures'] and not m['crashes'] and not m['deadline_hit']:
        for k, n in (('round-trip-ok', 100), ('gets-accepted', 1000), ('get-rejected', 1000), ('type-rejected', 100),
                     ('put-overflow-rejected', 50)):
            if oc.get(k, 0) < n:
                raise HarnessError('vacuity guard: outcome %s seen %d times (< %d)' % (k, oc.get(k, 0), n))
        if oc.get('get-rejected:beyond-buffer', 0) + oc.get('get-rejected:oversize-message', 0) < 100:
            raise HarnessError('vacuity guard: no oversize size field was ever rejected: %r' % oc)
    cov = seq.coverage_from(m, RULE, nontrivial_classes=['get-rejected', 'get-rejected:beyond-buffer', 'get-rejected:oversize-message', 'type-rejected',
                                                         'gets-accepted', 'put-overflow-rejected'], min_classes=3)
    return Result(LEVEL, cov, seq.violations_from(m), ASSUME)


def replay(ctx, data):
    exe = _build(ctx)
    tiers = [ctx.tier] + [t for t in ('quick', 'thorough') if t != ctx.tier]
    for t in tiers:
        ctx.tier = t
        m = seq.replay_case(ctx, exe, data['case'])
        if m.get('evaluations'):
            break
    m.setdefault('deadline_hit', False)
    return Result(LEVEL, {}, seq.violations_from(m), ASSUME)
