"""C40 FTP address replies and listings are parsed safely and strictly — E1 (in-process half): value-grid enumeration of
PORT/PASV and EPRT strings against a strict reference, and bounded-exhaustive listing lines under ASan."""
from vverif import seq
from vverif.core import Result, HarnessError

LEVEL = 'exploration'
RULE = ('(a) Ftp::ParseIpPort on every "h1,h2,h3,h4,p1,p2" with each component from {0,1,127,255,256,-1,2^32+1,x,empty,1000} (quick, 10^6) '
        'plus {99999999999, 2^32+127, 2^64+1} (thorough, 13^6), x ftp_sanitycheck on/off x forceIp null/given x result object fresh/'
        'already holding an address; (b) Ftp::ParseProtoIpPort on delimiter {|,!,","} x 11 protocol tokens x 20 address tokens (v4, v6, '
        'any-address, out-of-range octets, garbage, empty, 73..79-byte overlong) x 15 port tokens (-1,0,1,1023,1024,65535,65536,70000,'
        '2^32+1,2^32+1024,2^66,x,empty,80x,2000) x closing delimiter same/|/missing x sanitycheck x fresh/preset; reference: inet_pton '
        'and exact integer values, accept only if every component is in range incl. 1<=port<=65535, result must equal the reference; '
        '(c) ftpListParseParts (static, reached by #include of clients/FtpGateway.cc) on every sequence of <=4 (quick) / 5 (thorough) '
        'tokens from a 24-token alphabet of all listing formats, 10 seed lines (unix year/time/dir/symlink/spaces, DOS file/dir, '
        'total) with every 1 (quick) / 2 (thorough) token edits (replace, delete, insert, 4 separators), EPLF fact lists <=4/5 over 14 '
        'facts, a field-by-field grid of unix long-format lines (3 perms x 3 sizes x 3 months x 3 days x 4 years x 3 separators x 4 name separators x 6 names incl. symlink arrows x with/without group), 58..1000-token lines around MAX_TOKENS, each under flags plain/skip_whitespace/tried_nlst; oracle ASan + name/link '
        'are substrings of the line; a case is one prefix; non-trivial = calls that accepted, rejected an out-of-range value, or '
        'recognised a listing line')
ASSUME = ['src/ftp/Parsing.cc and src/clients/FtpGateway.cc of the current tree (ASan) in the tests/testCacheManager link set; '
          'FtpGateway.cc is #included into the harness to reach its static parser, no other member of it is called',
          'address literals outside strict inet_pton syntax that getaddrinfo(AI_NUMERICHOST) may accept ("1.2.3", v4-mapped) are not judged',
          'trailing bytes after the sixth PORT component are not judged (the PASV reply ends with ")")',
          'the on-the-wire half (FTP server stub feeding listings through the gateway) is not part of this check']


def _build(ctx):
    return seq.build(ctx, 'tests/testCacheManager', ['C40_ftp.cc'])



def _timed_build(ctx):
    """Compiling and linking the harness is build time as well: like ctx.vbuild(), do not charge it to the
    tier deadline (under load the link of a unit-test set alone can take minutes)."""
    import time
    t, b0 = time.time(), getattr(ctx, 'build_s', 0.0)
    exe = _build(ctx)
    ctx.deadline_s += max(0.0, (time.time() - t) - (getattr(ctx, 'build_s', 0.0) - b0))
    return exe


def run(ctx):
    exe = _timed_build(ctx)
    m = seq.run(ctx, exe)
    oc = m['outcomes']
    if not m['deadline_hit']:
        for k, n in (('ipport:accepted', 1000), ('ipport:rejected-out-of-range', 1000), ('ipport:rejected-port-or-any-address', 100),
                     ('eprt:accepted', 20), ('eprt:rejected-out-of-range', 1000), ('list:unix', 1000), ('list:dos', 100),
                     ('list:symlink', 100), ('list:eplf', 100), ('list:not-recognised', 1000)):
            if oc.get(k, 0) < n:
                raise HarnessError('vacuity guard: outcome %s seen %d times (< %d)' % (k, oc.get(k, 0), n))
    nontriv = [k for k in oc if k != 'list:not-recognised' and k != 'eprt:rejected-other']
    cov = seq.coverage_from(m, RULE, nontrivial_classes=nontriv, min_classes=6)
    return Result(LEVEL, cov, seq.violations_from(m), ASSUME)


def replay(ctx, data):
    exe = _build(ctx)
    tiers = [ctx.tier] + [t for t in ('quick', 'thorough') if t != ctx.tier]
    for t in tiers:
        ctx.tier = t
        m = seq.replay_case(ctx, exe, data['case'])
        if m.get('evaluations'):
            break
    m.setdefault('deadline_hit', False)
    return Result(LEVEL, {}, seq.violations_from(m), ASSUME)
