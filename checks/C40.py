"""C40 FTP address replies and listings are parsed safely and strictly — E1 (in-process half): value-grid enumeration of
PORT/PASV and EPRT strings against a strict reference, and bounded-exhaustive listing lines under ASan."""
from vverif import seq
from vverif.core import Result, HarnessError

LEVEL = 'exploration'
RULE = ('(a) Ftp::ParseIpPort on every "h1,h2,h3,h4,p1,p2" with each component from {0,1,127,255,256,-1,2^32+1,x,empty,1000} (quick, 10^6) '
        'plus {99999999999, 2^32+127, 2^64+1} (thorough, 13^6), x ftp_sanitycheck on/off x forceIp null/given x result object fresh/'
        'already holding an address; (b) Ftp::ParseProtoIpPort on delimiter {|,!,","} x 11 protocol tokens x 20 address tokens (v4, v6, '
        'any-address, out-of-range octets, garbage, empty, 73..79-byte overlong) x 15 port tokens (-1,0,1,1023,1024,65535,65536,70000,'
        '2^32+1,2^32+1024,2^66,x,empty,80x,2000) x closing delimiter same/|/missing x sanitycheck x fresh/preset; reference: inet_pton '
        'and exact integer values, accept only if every component is in range incl. 1<=port<=65535, result must equal the reference; '
        '(c) ftpListParseParts (static, reached by #include of clients/FtpGateway.cc) on every sequence of <=4 (quick) / 5 (thorough) '
        'tokens from a 24-token alphabet of all listing formats, 10 seed lines (unix year/time/dir/symlink/spaces, DOS file/dir, '
        'total) with every 1 (quick) / 2 (thorough) token edits (replace, delete, insert, 4 separators), EPLF fact lists <=4/5 over 14 '
        'facts, a field-by-field grid of unix long-format lines (3 perms x 3 sizes x 3 months x 3 days x 4 years x 3 separators x 4 name separators x 6 names incl. symlink arrows x with/without group), 58..1000-token lines around MAX_TOKENS, each under flags plain/skip_whitespace/tried_nlst; oracle ASan + name/link '
        'are substrings of the line; a case is one prefix; non-trivial = calls that accepted, rejected an out-of-range value, or '
        'recognised a listing line')
ASSUME = ['src/ftp/Parsing.cc and src/clients/FtpGateway.cc of the current tree (ASan) in the tests/testCacheManager link set; '
          'FtpGateway.cc is #included into the harness to reach its static parser, no other member of it is called',
          'address literals outside strict inet_pton syntax that getaddrinfo(AI_NUMERICHOST) may accept ("1.2.3", v4-mapped) are not judged',
          'trailing bytes after the sixth PORT component are not judged (the PASV reply ends with ")")',
          'wire half: see checks/C40_ftp_e3.py and docs/checks/C40_ftp_e3.md']


def _build(ctx):
    return seq.build(ctx, 'tests/testCacheManager', ['C40_ftp.cc'])



def _timed_build(ctx):
    """Compiling and linking the harness is build time as well: like ctx.vbuild(), do not charge it to the
    tier deadline (under load the link of a unit-test set alone can take minutes)."""
    import time
    t, b0 = time.time(), getattr(ctx, 'build_s', 0.0)
    exe = _build(ctx)
    ctx.deadline_s += max(0.0, (time.time() - t) - (getattr(ctx, 'build_s', 0.0) - b0))
    return exe


def _wire_half():
    """The on-the-wire half (real squid + driver-played FTP server) lives in checks/C40_ftp_e3.py."""
    import importlib.util, os
    path = os.path.join(os.path.dirname(os.path.abspath(__file__)), 'C40_ftp_e3.py')
    spec = importlib.util.spec_from_file_location('check_C40_ftp_e3', path)
    mod = importlib.util.module_from_spec(spec)
    spec.loader.exec_module(mod)
    return mod


def run(ctx):
    """Both halves of C40: (1) the in-process grids (E1), (2) the wire half (E3).  One evidence file, one
    list of violations; wire-half keys carry the prefix 'ftp-e3:'."""
    r1 = _run_inprocess(ctx)
    e3 = _wire_half()
    # the wire half needs about 60-90 s of its own: give it at least 2 minutes whatever the first half used
    need = 120 if ctx.quick else 420
    if ctx.remaining() < need:
        ctx.deadline_s += need - ctx.remaining()
    r2 = e3.run(ctx)
    c1, c2 = r1.coverage, r2.coverage
    cov = {'evaluations': c1['evaluations'] + c2['evaluations'],
           'distinct_nontrivial': c1['distinct_nontrivial'] + c2['distinct_nontrivial'],
           'rule': 'IN-PROCESS HALF: ' + c1['rule'] + ' || WIRE HALF: ' + c2['rule'],
           'samples': list(c1['samples'])[:4] + list(c2['samples'])[:4],
           'exhaustive': bool(c1.get('exhaustive')) and bool(c2.get('exhaustive')),
           'in_process_half': {k: c1[k] for k in c1 if k not in ('rule', 'samples')},
           'wire_half': {k: c2[k] for k in c2 if k not in ('rule', 'samples')}}
    return Result(LEVEL, cov, list(r1.violations) + list(r2.violations), ASSUME + list(r2.assumptions))


def _run_inprocess(ctx):
    exe = _timed_build(ctx)
    m = seq.run(ctx, exe)
    oc = m['outcomes']
    if not m['deadline_hit']:
        for k, n in (('ipport:accepted', 1000), ('ipport:rejected-out-of-range', 1000), ('ipport:rejected-port-or-any-address', 100),
                     ('eprt:accepted', 20), ('eprt:rejected-out-of-range', 1000), ('list:unix', 1000), ('list:dos', 100),
                     ('list:symlink', 100), ('list:eplf', 100), ('list:not-recognised', 1000)):
            if oc.get(k, 0) < n:
                raise HarnessError('vacuity guard: outcome %s seen %d times (< %d)' % (k, oc.get(k, 0), n))
    nontriv = [k for k in oc if k != 'list:not-recognised' and k != 'eprt:rejected-other']
    cov = seq.coverage_from(m, RULE, nontrivial_classes=nontriv, min_classes=6)
    return Result(LEVEL, cov, seq.violations_from(m), ASSUME)


def replay(ctx, data):
    if isinstance(data.get('case'), dict):      # a wire-half case
        return _wire_half().replay(ctx, data)
    exe = _build(ctx)
    tiers = [ctx.tier] + [t for t in ('quick', 'thorough') if t != ctx.tier]
    for t in tiers:
        ctx.tier = t
        m = seq.replay_case(ctx, exe, data['case'])
        if m.get('evaluations'):
            break
    m.setdefault('deadline_hit', False)
    return Result(LEVEL, {}, seq.violations_from(m), ASSUME)
