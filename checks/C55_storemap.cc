// C55 — Ipc::StoreMap (anchors + slices + fileNos) under all interleavings (E2).
// Compiled with -include vatomic_pre.h together with the unmodified src/ipc/StoreMap.cc and
// src/ipc/ReadWriteLock.cc of the current tree.  The map lives in three real Ipc::Mem::Segments
// (created once per harness process under a private name, re-initialised before every execution).
//
// 2-3 processes each run a short script of complete map operations:
//   w  write key A: two slices, closeForWriting          a  write A: slice, startAppending, slice, close
//   x  write A: slice, startAppending, abortWriting      b  write colliding key B (same anchor): one slice, close
//   r  read A: open, walk the chain, hold, close         q  same, but closeForReadingAndFreeIdle
//   s  read B                                            d  freeEntryByKey(A)         f  freeEntry(home fileno)
//   u  update A: openForUpdating, write a fresh one-slice prefix, closeForUpdating     v  same, abortUpdating
// Slices come from a harness free list that is fed by the real cleaner->noteFreeMapSlice() callback.
//
// Oracle = the property statement, on harness-tracked holders (acquired at the return of an open call,
// released just before the close call):
//   (a) a successful open-for-reading is under the requested key and on an entry that is complete or
//       being appended (not still exclusively written, not aborted before the open began);
//   (b) while a reader holds an entry, the slices it has seen are neither freed nor re-tagged and stay a
//       prefix of the entry's chain; slice payloads it may read belong to that entry;
//   (c) never two writers on one anchor; no reader together with a strictly exclusive writer;
//   (d) an entry that was visible before a delete call began is not opened by an open that begins after
//       the delete call returned.
#include "squid.h"
#include "ipc/StoreMap.h"
#include "SquidConfig.h"
#include "Store.h"

#include "vharness.h"
#include "vsched/vsched.h"

#include <new>
#include <sstream>
#include <algorithm>
#include <unistd.h>
#include <set>
#include <map>

struct C55AssertionFailed { std::string what; };   // thrown by xassert() (C55_stubs.cc) in the main context

namespace {

using Ipc::StoreMap;
typedef Ipc::StoreMapAnchor Anchor;
typedef Ipc::StoreMapSlice Slice;

const int N = 6;                 // slices = anchors = names
const int MaxT = 3;
const int HomeName = 1;          // both keys hash to this name
const int HomeFileNo = 1;        // ... which initially is this anchor
uint64_t Keys[2][2] = {{1, 0}, {7, 0}};      // (k0 + k1) % 6 == 1 for both
inline const cache_key *keyPtr(int k) { return reinterpret_cast<const cache_key *>(Keys[k]); }
const char *keyName[] = {"A", "B"};

StoreMap::Owner *mapOwner = nullptr;
StoreMap *M = nullptr;
alignas(64) char entryBuf[2][sizeof(StoreEntry)];      // never constructed: only the plain fields set() reads
inline StoreEntry *fakeEntry(int k) { return reinterpret_cast<StoreEntry *>(entryBuf[k]); }

// ---------------- harness-side bookkeeping (all reset in setup)
enum WMode { WNone = 0, WExcl, WAppending };
struct GenInfo { int key; bool visible; uint64_t visibleStep; bool aborted; uint64_t abortRet; bool aborting; };
struct Hold { bool active; int fileno; int key; int gen; std::vector<int> chain, tags; };
struct Del { char kind; std::vector<int> targets; uint64_t call, ret; int mapAtCall, mapAtRet; };

bool sliceFree[N];
int ownerTag[N];                 // generation that allocated the slice (0 = none)
int payload[N];                  // "page contents": generation whose bytes are in the slice
int curGen[N];                   // generation stored (or being stored) at anchor fileno
int writerOf[N];
int wmode[N];
std::vector<GenInfo> gens;       // [0] unused
Hold hold[MaxT];
std::vector<Del> dels;
bool initialEntry = false;

uint64_t nReadOk = 0, nReadFail = 0, nWriteOk = 0, nWriteBusy = 0, nUpdOk = 0, nUpdFail = 0, nDel = 0, nNoSlice = 0,
         nReaderWithAppender = 0, nReadersOverlap = 0, nFreedSlices = 0, nReadOverlapsWrite = 0, nMarkedDeletes = 0, nLingering = 0;

std::string failKey;             // stable class of the first violation of this execution
bool updateInvolved = false;     // some process of this scenario runs an update (u/v)
bool replaying = false;
std::set<std::string> knownKeys;              // keys listed as known findings (C55_KNOWN): those executions are abandoned,
std::map<std::string, std::string> knownMsg;  // one example per scenario is reported, and the exploration goes on
uint64_t nKnownHits = 0;

std::string fullKey(const std::string &klass) { return klass + (updateInvolved ? "+update" : ""); }

void violate(const std::string &klass, const std::string &msg)
{
    const std::string key = fullKey(klass);
    if (!replaying && knownKeys.count(key)) {
        ++nKnownHits;
        if (!knownMsg.count(key)) knownMsg[key] = msg;
        VS::abandon(key);
        return;
    }
    if (failKey.empty()) failKey = klass;
    VS::violation(msg);
}

struct Cleaner: public Ipc::StoreMapCleaner {
    void noteFreeMapSlice(const Ipc::StoreMapSliceId sid) override {
        if (sid < 0 || sid >= N) { violate("bad-slice-id", "noteFreeMapSlice(" + std::to_string(sid) + ")"); return; }
        if (sliceFree[sid]) { violate("slice-freed-twice", "slice " + std::to_string(sid) + " is freed twice"); return; }
        sliceFree[sid] = true;
        ownerTag[sid] = 0;
        payload[sid] = 0;
        ++nFreedSlices;
        VS::note("slice " + std::to_string(sid) + " returned to the free list");
    }
} cleaner;

int allocSlice(int gen)
{
    for (int i = 0; i < N; ++i)
        if (sliceFree[i]) {
            sliceFree[i] = false;
            ownerTag[i] = gen;
            payload[i] = 0;
            M->prepFreeSlice(i);
            return i;
        }
    return -1;
}

int newGen(int key)
{
    gens.push_back({key, false, 0, false, 0, false});
    return (int)gens.size() - 1;
}

int me() { const int s = VS::self(); return s < 0 ? 0 : s; }

// ---------------- operations

void opWrite(const int key, const char kind)
{
    sfileno fn = -1;
    Anchor *a = M->openForWriting(keyPtr(key), fn);
    if (!a) { ++nWriteBusy; VS::local(31); return; }
    ++nWriteOk;
    VS::local(32);
    VS::note(std::string("openForWriting(") + keyName[key] + ") -> anchor " + std::to_string(fn));
    if (writerOf[fn] != -1) {
        violate("two-writers", "openForWriting by p" + std::to_string(me()) + " succeeded on anchor " + std::to_string(fn) +
                " while p" + std::to_string(writerOf[fn]) + " holds it for writing");
        return;
    }
    writerOf[fn] = me();
    wmode[fn] = WExcl;
    const int g = newGen(key);
    curGen[fn] = g;
    a->set(*fakeEntry(key), keyPtr(key));
    a->basics.timestamp = g;

    const int s1 = allocSlice(g);
    if (s1 < 0) {   // out of slices: give up like a real writer would
        ++nNoSlice;
        gens[g].aborting = true; wmode[fn] = WNone; writerOf[fn] = -1;
        M->abortWriting(fn);
        gens[g].aborted = true; gens[g].abortRet = VS::stepIndex();
        return;
    }
    a->start = s1;
    payload[s1] = g;
    M->writeableSlice(fn, s1).size = 10;

    if (kind == 'w' || kind == 'b') {
        if (kind == 'w') {
            const int s2 = allocSlice(g);
            if (s2 >= 0) {
                M->writeableSlice(fn, s1).next = s2;
                payload[s2] = g;
                M->writeableSlice(fn, s2).size = 5;
            } else
                ++nNoSlice;
        }
        a->basics.swap_file_sz = 15;
        gens[g].visible = true; gens[g].visibleStep = VS::stepIndex();
        wmode[fn] = WNone; writerOf[fn] = -1;          // in transit: the lock is released inside the call
        M->closeForWriting(fn);
        VS::note("closeForWriting done");
        return;
    }

    // appending writers: readers are welcome from now on
    gens[g].visible = true; gens[g].visibleStep = VS::stepIndex();
    wmode[fn] = WAppending;
    M->startAppending(fn);
    VS::yieldPoint();
    const int s2 = allocSlice(g);
    if (s2 >= 0) {
        M->writeableSlice(fn, s1).next = s2;
        payload[s2] = g;
        M->writeableSlice(fn, s2).size = 5;
    } else
        ++nNoSlice;
    if (kind == 'a') {
        a->basics.swap_file_sz = 15;
        wmode[fn] = WNone; writerOf[fn] = -1;
        M->closeForWriting(fn);
        VS::note("closeForWriting done (after appending)");
    } else {
        gens[g].aborting = true;
        wmode[fn] = WNone; writerOf[fn] = -1;
        M->abortWriting(fn);
        gens[g].aborted = true; gens[g].abortRet = VS::stepIndex();
        VS::note("abortWriting done");
    }
}

// what every successful open-for-reading (readers and updaters) must satisfy
bool checkOpened(const char *what, const int key, const sfileno fn, const Anchor *a, const uint64_t call)
{
    std::ostringstream os;
    std::string klass;
    const int g = (fn >= 0 && fn < N) ? curGen[fn] : 0;
    if (fn < 0 || fn >= N) { klass = "bad-fileno"; os << what << " returned anchor " << fn; }
    else if (!a->sameKey(keyPtr(key)) || !g || gens[g].key != key) {
        klass = "wrong-key";
        os << what << '(' << keyName[key] << ") by p" << me() << " opened anchor " << fn << " which holds "
           << (g ? std::string("an entry of key ") + keyName[gens[g].key] : std::string("no entry"))
           << " (anchor key " << a->key[0] << ',' << a->key[1] << ')';
    } else if (wmode[fn] == WExcl) {
        klass = "reader-with-exclusive-writer";
        os << what << '(' << keyName[key] << ") by p" << me() << " opened anchor " << fn << " while p" << writerOf[fn]
           << " is still writing it exclusively (neither complete nor appending)";
    } else if (!gens[g].visible) {
        klass = "opened-incomplete";
        os << what << '(' << keyName[key] << ") by p" << me() << " opened an entry that is neither complete nor being appended";
    } else if (gens[g].aborted && gens[g].abortRet < call) {
        klass = "opened-aborted";
        os << what << '(' << keyName[key] << ") by p" << me() << " opened an entry whose writer had aborted it before this open began "
           << "(abortWriting returned at step " << gens[g].abortRet << ", open began at step " << call << ")";
    } else {
        for (const auto &d : dels) {
            if (d.ret >= call) continue;
            if (std::find(d.targets.begin(), d.targets.end(), g) == d.targets.end()) continue;
            // where the name->anchor mapping (changed only by closeForUpdating) stood relative to the delete call
            const int mapNow = M->fileNos->items[HomeName].v_;
            klass = std::string("deleted-entry-opened") + (d.mapAtCall != d.mapAtRet ? ":relocated-during-delete" :
                    (mapNow != d.mapAtRet ? ":relocated-after-delete" : ":same-location"));
            os << what << '(' << keyName[key] << ") by p" << me() << " (began at step " << call << ") opened an entry (generation " << g
               << ", visible since step " << gens[g].visibleStep << ") that " << (d.kind == 'd' ? "freeEntryByKey(A)" : "freeEntry(home)")
               << " deleted: that call ran from step " << d.call << " to " << d.ret << "; anchor " << fn
               << " waitingToBeFreed=" << (int)a->waitingToBeFreed.v_;
            break;
        }
    }
    if (klass.empty()) return true;
    violate(klass, os.str());
    return false;
}

void opRead(const int key, const bool freeIdle)
{
    sfileno fn = -1;
    const uint64_t call = VS::stepIndex();
    bool writerBusy = false;
    for (int i = 0; i < N; ++i) if (writerOf[i] != -1) writerBusy = true;
    const Anchor *a = M->openForReading(keyPtr(key), fn);
    if (!a) { ++nReadFail; VS::local(41); VS::note(std::string("openForReading(") + keyName[key] + ") -> nil"); return; }
    ++nReadOk;
    VS::local(42 + fn);
    if (writerBusy) ++nReadOverlapsWrite;
    VS::note(std::string("openForReading(") + keyName[key] + ") -> anchor " + std::to_string(fn));
    if (!checkOpened("openForReading", key, fn, a, call)) return;
    Hold &h = hold[me()];
    h.active = true; h.fileno = fn; h.key = key; h.gen = curGen[fn]; h.chain.clear(); h.tags.clear();
    if (wmode[fn] == WAppending) ++nReaderWithAppender;
    if (gens[h.gen].aborting || gens[h.gen].aborted) ++nLingering;
    for (int t = 0; t < MaxT; ++t) if (t != me() && hold[t].active && hold[t].fileno == fn) ++nReadersOverlap;

    // walk the chain the way a reader does: start, then size/next of every slice
    Ipc::StoreMapSliceId sid = a->start;
    int guard = 0;
    while (sid >= 0) {
        if (sid >= N || ++guard > N) { violate("bad-chain", "reader p" + std::to_string(me()) + " walked into slice " + std::to_string(sid)); return; }
        h.chain.push_back(sid);
        h.tags.push_back(ownerTag[sid]);
        const Slice &s = M->readableSlice(fn, sid);
        const uint32_t size = s.size;
        VS::local(size);
        if (size > 0 && payload[sid] != h.gen) {
            violate("foreign-payload", "reader p" + std::to_string(me()) + " of generation " + std::to_string(h.gen) + " (key " + keyName[key] +
                    ") finds " + std::to_string(size) + " bytes in slice " + std::to_string(sid) + " whose contents belong to generation " +
                    std::to_string(payload[sid]));
            return;
        }
        sid = s.next;
        VS::local(sid + 7);
    }
    VS::yieldPoint();          // ... the reader uses what it has seen ...
    for (size_t i = 0; i < h.chain.size(); ++i) {
        const int c = h.chain[i];
        if (M->readableSlice(fn, c).size > 0 && payload[c] != h.gen) {
            violate("foreign-payload", "reader p" + std::to_string(me()) + " re-reads slice " + std::to_string(c) + " and finds contents of generation " +
                    std::to_string(payload[c]) + " instead of " + std::to_string(h.gen));
            return;
        }
    }
    h.active = false;          // in transit: the lock is released inside the call
    if (freeIdle) M->closeForReadingAndFreeIdle(fn);
    else M->closeForReading(fn);
    VS::note("reader closed");
}

void opDelete(const char kind)
{
    Del d;
    d.kind = kind;
    if (kind == 'd') {
        for (size_t g = 1; g < gens.size(); ++g)
            if (gens[g].key == 0 && gens[g].visible) d.targets.push_back((int)g);
    } else {
        // by position: the caller means the entry it knows to be at the home anchor
        const int g = curGen[HomeFileNo];
        const bool relocated = M->fileNos->items[HomeName].v_ != 0 && M->fileNos->items[HomeName].v_ - 1 != HomeFileNo;
        if (g && gens[g].visible && !relocated) d.targets.push_back(g);
    }
    d.call = VS::stepIndex();
    d.mapAtCall = M->fileNos->items[HomeName].v_;
    if (kind == 'd') M->freeEntryByKey(keyPtr(0));
    else if (M->freeEntry(HomeFileNo)) VS::local(51);
    d.ret = VS::stepIndex();
    d.mapAtRet = M->fileNos->items[HomeName].v_;
    ++nDel;
    for (int i = 0; i < N; ++i) if (M->anchors->items[i].waitingToBeFreed.v_) { ++nMarkedDeletes; break; }
    VS::note(std::string(kind == 'd' ? "freeEntryByKey(A)" : "freeEntry(home)") + " returned");
    dels.push_back(d);
}

void opUpdate(const bool abortIt)
{
    const uint64_t call = VS::stepIndex();
    Ipc::StoreMapUpdate update(fakeEntry(0));
    if (!M->openForUpdating(update, -1)) { ++nUpdFail; VS::local(61); VS::note("openForUpdating -> false"); return; }
    ++nUpdOk;
    const sfileno stale = update.stale.fileNo, fresh = update.fresh.fileNo;
    VS::local(62 + stale * 8 + fresh);
    VS::note("openForUpdating -> stale anchor " + std::to_string(stale) + ", fresh anchor " + std::to_string(fresh));
    if (!checkOpened("openForUpdating", 0, stale, update.stale.anchor, call)) return;
    if (fresh < 0 || fresh >= N || fresh == stale) { violate("bad-fileno", "openForUpdating returned fresh anchor " + std::to_string(fresh)); return; }
    if (writerOf[fresh] != -1) {
        violate("two-writers", "openForUpdating by p" + std::to_string(me()) + " got anchor " + std::to_string(fresh) +
                " for its fresh edition while p" + std::to_string(writerOf[fresh]) + " holds it for writing");
        return;
    }
    const int g = curGen[stale];
    Hold &h = hold[me()];
    h.active = true; h.fileno = stale; h.key = 0; h.gen = g; h.chain.clear(); h.tags.clear();
    for (Ipc::StoreMapSliceId sid = update.stale.anchor->start.v_; sid >= 0 && sid < N && (int)h.chain.size() < N; sid = M->slices->items[sid].next.v_) {
        h.chain.push_back(sid);
        h.tags.push_back(ownerTag[sid]);
    }
    writerOf[fresh] = me();
    wmode[fresh] = WExcl;
    curGen[fresh] = g;            // the same entry, new edition

    update.stale.splicingPoint = M->sliceContaining(stale, 1);     // the headers end in the first slice
    const int f1 = update.stale.splicingPoint >= 0 ? allocSlice(g) : -1;
    if (f1 < 0) {
        if (update.stale.splicingPoint >= 0) ++nNoSlice;
        wmode[fresh] = WNone; writerOf[fresh] = -1; curGen[fresh] = 0; h.active = false;
        M->abortUpdating(update);
        return;
    }
    update.fresh.anchor->start = f1;
    payload[f1] = g;
    M->writeableSlice(fresh, f1).size = 7;
    update.fresh.splicingPoint = f1;
    VS::yieldPoint();
    wmode[fresh] = WNone; writerOf[fresh] = -1; h.active = false;   // in transit
    if (abortIt) {
        curGen[fresh] = 0;
        M->abortUpdating(update);
        VS::note("abortUpdating done");
    } else {
        M->closeForUpdating(update);
        VS::note("closeForUpdating done");
    }
}

void runOp(const char c)
{
    switch (c) {
    case 'w': case 'a': case 'x': opWrite(0, c); break;
    case 'b': opWrite(1, 'b'); break;
    case 'r': opRead(0, false); break;
    case 'q': opRead(0, true); break;
    case 's': opRead(1, false); break;
    case 'd': case 'f': opDelete(c); break;
    case 'u': opUpdate(false); break;
    case 'v': opUpdate(true); break;
    }
    VS::yieldPoint();
}

// ---------------- state invariant (main context, raw reads)

void invariant()
{
    for (int t = 0; t < MaxT; ++t) {
        const Hold &h = hold[t];
        if (!h.active) continue;
        const Anchor &a = M->anchors->items[h.fileno];
        std::ostringstream os;
        std::string klass;
        if (a.key[0] != Keys[h.key][0] || a.key[1] != Keys[h.key][1]) {
            klass = "key-changed-under-reader";
            os << "anchor " << h.fileno << " held by reader p" << t << " for key " << keyName[h.key] << " now has key " << a.key[0] << ',' << a.key[1];
        } else if (wmode[h.fileno] == WExcl) {
            klass = "reader-with-exclusive-writer";
            os << "reader p" << t << " holds anchor " << h.fileno << " together with the strictly exclusive writer p" << writerOf[h.fileno];
        } else if (a.lock.readers.v_ == 0) {
            klass = "reader-not-counted";
            os << "reader p" << t << " holds anchor " << h.fileno << " but the lock counts no readers";
        }
        Ipc::StoreMapSliceId cur = a.start.v_;
        for (size_t i = 0; klass.empty() && i < h.chain.size(); ++i) {
            const int sid = h.chain[i];
            if (sliceFree[sid]) {
                klass = "slice-freed-under-reader";
                os << "slice " << sid << " of the entry (generation " << h.gen << ") that reader p" << t << " holds open at anchor " << h.fileno
                   << " has been returned to the free list";
            } else if (ownerTag[sid] != h.tags[i]) {
                klass = "slice-reused-under-reader";
                os << "slice " << sid << " of the entry that reader p" << t << " holds open at anchor " << h.fileno << " now belongs to generation " << ownerTag[sid];
            } else if (cur != sid) {
                klass = "chain-changed-under-reader";
                os << "the chain of anchor " << h.fileno << " no longer starts with the slices reader p" << t << " has seen (position " << i
                   << ": saw " << sid << ", now " << cur << ")";
            } else
                cur = M->slices->items[sid].next.v_;
        }
        if (!klass.empty()) { violate(klass, os.str()); return; }
    }
    for (int i = 0; i < N; ++i) if (writerOf[i] != -1 && !M->anchors->items[i].lock.writing.v_) {
        violate("writer-not-locked", "p" + std::to_string(writerOf[i]) + " holds anchor " + std::to_string(i) + " for writing but the lock is not in writing state");
        return;
    }
}

void finalCheck()
{
    for (int i = 0; i < N; ++i) {
        const auto &l = M->anchors->items[i].lock;
        if (l.readers.v_ || l.writing.v_ || l.readLevel.v_ || l.writeLevel.v_) {
            std::ostringstream os;
            os << "anchor " << i << " is still locked after every process closed what it had opened: readers=" << l.readers.v_
               << " writing=" << (int)l.writing.v_ << " readLevel=" << l.readLevel.v_ << " writeLevel=" << l.writeLevel.v_;
            violate("lock-leak", os.str());
            return;
        }
    }
}

// ---------------- setup

void setupState()
{
    // fresh shared objects in the existing segments, exactly as Owner::New() builds them
    memset((void *)M->fileNos.getRaw(), 0, Ipc::StoreMapFileNos::SharedMemorySize(N));
    new (M->fileNos.getRaw()) Ipc::StoreMapFileNos(N);
    memset((void *)M->anchors.getRaw(), 0, Ipc::StoreMapAnchors::SharedMemorySize(N));
    new (M->anchors.getRaw()) Ipc::StoreMapAnchors(N);
    memset((void *)M->slices.getRaw(), 0, Ipc::StoreMapSlices::SharedMemorySize(N));
    new (M->slices.getRaw()) Ipc::StoreMapSlices(N);
    M->cleaner = &cleaner;

    for (int i = 0; i < N; ++i) { sliceFree[i] = true; ownerTag[i] = 0; payload[i] = 0; curGen[i] = 0; writerOf[i] = -1; wmode[i] = WNone; }
    gens.clear(); gens.push_back({0, false, 0, false, 0, false});
    for (int t = 0; t < MaxT; ++t) { hold[t].active = false; hold[t].chain.clear(); hold[t].tags.clear(); }
    dels.clear();
    failKey.clear();
    memset(entryBuf, 0, sizeof(entryBuf));
    for (int k = 0; k < 2; ++k) {
        StoreEntry *e = fakeEntry(k);
        e->key = Keys[k];
        e->timestamp = 1000; e->lastref = 1000; e->expires = 2000; e->lastModified_ = 900;
        e->swap_file_sz = 0; e->refcount = 1; e->flags = 0;
    }
    if (initialEntry) {
        const uint64_t ok = nWriteOk;
        opWrite(0, 'w');          // main context: runs without scheduling
        nWriteOk = ok;
    }
}

void stateBytes(std::string &b)
{
    b.append((const char *)M->fileNos.getRaw(), Ipc::StoreMapFileNos::SharedMemorySize(N));
    b.append((const char *)M->anchors.getRaw(), Ipc::StoreMapAnchors::SharedMemorySize(N));
    b.append((const char *)M->slices.getRaw(), Ipc::StoreMapSlices::SharedMemorySize(N));
    b.append((const char *)sliceFree, sizeof(sliceFree));
    b.append((const char *)ownerTag, sizeof(ownerTag));
    b.append((const char *)payload, sizeof(payload));
    b.append((const char *)curGen, sizeof(curGen));
    b.append((const char *)writerOf, sizeof(writerOf));
    b.append((const char *)wmode, sizeof(wmode));
    for (int t = 0; t < MaxT; ++t) { b.push_back(hold[t].active ? (char)(1 + hold[t].fileno) : 0); for (int c : hold[t].chain) b.push_back((char)c); }
    b.push_back((char)dels.size());
}

// ---------------- scenario enumeration

struct Plan { int threads; int len; std::string alphabet; int bound; bool afterPoints; int initial; /* 0 empty, 1 entry, 2 both */ };

std::vector<std::string> scriptsOfLen(int len, const std::string &alphabet)
{
    std::vector<std::string> cur = {""};
    for (int l = 1; l <= len; ++l) {
        std::vector<std::string> nxt;
        for (auto &p : cur) for (char c : alphabet) nxt.push_back(p + c);
        cur.swap(nxt);
    }
    return cur;
}

// seconds left of the tier's global deadline (the driver passes the total; V::S().start is the harness start)
double remainingS(const V::Ctx &ctx)
{
    if (ctx.deadlineS <= 0) return 0;                      // no deadline
    const double r = ctx.deadlineS - difftime(time(nullptr), V::S().start);
    return r < 2 ? -1 : r;
}

void body(V::Ctx &ctx)
{
    // private segment names: /dev/shm/squid-vC55-<pid>_{filenos,anchors,slices}.shm (unlinked by ~Owner)
    Config.paranoid_hit_validation = std::chrono::nanoseconds(0);
    Config.shmLocking.defaultTo(false);     // no mlock() of the three small segments
    const SBuf path(("vC55-" + std::to_string((long)getpid())).c_str());
    mapOwner = StoreMap::Init(path, N);
    M = new StoreMap(path);

    if (const char *k = getenv("C55_KNOWN")) {
        std::string cur;
        for (const char *p = k; ; ++p) {
            if (*p == ';' || !*p) { if (!cur.empty()) knownKeys.insert(cur); cur.clear(); if (!*p) break; }
            else cur += *p;
        }
    }

    const std::string all = "waxbrqsdfuv";
    std::vector<Plan> plans;
    const std::string few = "axrdu";
    if (ctx.quick()) {
        plans.push_back({2, 1, all, 1, true, 2});        // every pair of operations, fine-grained steps
        plans.push_back({2, 1, all, 2, false, 2});       // ... and one more preemption at atomic-operation granularity
        plans.push_back({2, 2, "xrdu", 1, true, 1});     // two operations per process
        plans.push_back({3, 1, "xrd", 2, false, 1});     // three processes (updates among three: thorough tier)
    } else {
        plans.push_back({2, 1, all, 2, true, 2});
        plans.push_back({2, 1, all, 3, false, 2});
        plans.push_back({2, 2, "axrdubq", 1, true, 1});
        plans.push_back({2, 2, few, 2, false, 1});
        plans.push_back({3, 1, "axbrduv", 2, false, 1});
    }
    const char *only = getenv("C55_ONLY_PLAN");          // measurement aids
    const char *onlyScenario = getenv("C55_ONLY_SCENARIO");

    int planNo = -1;
    for (const auto &plan : plans) {
        ++planNo;
        if (only && atoi(only) != planNo) continue;
        const auto scripts = scriptsOfLen(plan.len, plan.alphabet);
        for (int init = 0; init < 2; ++init) {
            if (plan.initial != 2 && plan.initial != init) continue;
            std::vector<size_t> idx(plan.threads, 0);
            std::function<void(int, size_t)> rec = [&](int t, size_t from) {
                if (t < plan.threads) {
                    for (size_t i = from; i < scripts.size(); ++i) { idx[t] = i; rec(t + 1, i); }
                    return;
                }
                std::string name = std::string("storemap ") + (init ? "initial=entryA" : "initial=empty");
                for (int i = 0; i < plan.threads; ++i) name += " p" + std::to_string(i) + "=" + scripts[idx[i]];
                name += " bound=" + std::to_string(plan.bound);
                if (plan.afterPoints) name += " fine";
                if (onlyScenario && name.find(onlyScenario) == std::string::npos) return;
                std::string replaySched;
                if (ctx.replay) {
                    const auto bar = ctx.replayCase.find('|');
                    if (ctx.replayCase.substr(0, bar) != name) { V::begin_case(name); return; }
                    replaySched = bar == std::string::npos ? "" : ctx.replayCase.substr(bar + 1);
                    ctx.replayCase = name;
                }
                if (!V::begin_case(name)) return;

                initialEntry = init == 1;
                updateInvolved = false;
                for (int i = 0; i < plan.threads; ++i) if (scripts[idx[i]].find_first_of("uv") != std::string::npos) updateInvolved = true;
                replaying = ctx.replay;
                knownMsg.clear();
                VS::Scenario sc;
                sc.name = name;
                sc.maxDeviations = plan.bound;
                sc.spuriousCas = false;          // StoreMap/ReadWriteLock use compare_exchange_strong only
                sc.pointAfterAtomics = plan.afterPoints;
                sc.setup = setupState;
                for (int i = 0; i < plan.threads; ++i) {
                    const std::string s = scripts[idx[i]];
                    sc.procs.push_back([s] { for (char c : s) runOp(c); });
                }
                sc.invariant = invariant;
                sc.final = finalCheck;
                sc.stateBytes = stateBytes;
                VS::Stats st;
                if (ctx.replay) {
                    bool bad = false;
                    try { bad = VS::replay(sc, VS::parseSchedule(replaySched), st); }
                    catch (const C55AssertionFailed &f) { bad = true; st.violation = f.what; }
                    printf("%s", st.trace.c_str());
                    if (bad) V::fail(st.violation);
                    V::end_case();
                    return;
                }
                const double left = remainingS(ctx);
                if (left < 0) { V::S().sh->deadlineHit = 1; V::count("scenarios_skipped_at_deadline"); V::end_case(); return; }
                try {
                    VS::explore(sc, st, left);
                } catch (const C55AssertionFailed &f) {
                    V::failKey("assert-in-main-context", f.what);
                }
                V::count("executions", st.executions);
                V::count("plan" + std::to_string(planNo) + "_steps", st.steps);
                V::count("steps", st.steps);
                V::count("states", st.states);
                V::count("context_switches", st.contextSwitches);
                V::count("read_ok", nReadOk); nReadOk = 0;
                V::count("read_refused", nReadFail); nReadFail = 0;
                V::count("write_ok", nWriteOk); nWriteOk = 0;
                V::count("write_busy", nWriteBusy); nWriteBusy = 0;
                V::count("update_ok", nUpdOk); nUpdOk = 0;
                V::count("update_refused", nUpdFail); nUpdFail = 0;
                V::count("deletes", nDel); nDel = 0;
                V::count("deletes_leaving_a_mark", nMarkedDeletes); nMarkedDeletes = 0;
                V::count("out_of_slices", nNoSlice); nNoSlice = 0;
                V::count("reader_admitted_while_appending", nReaderWithAppender); nReaderWithAppender = 0;
                V::count("reader_lingering_on_aborted_entry", nLingering); nLingering = 0;
                V::count("readers_sharing_an_anchor", nReadersOverlap); nReadersOverlap = 0;
                V::count("reads_opened_while_a_writer_was_active", nReadOverlapsWrite); nReadOverlapsWrite = 0;
                V::count("slices_freed", nFreedSlices); nFreedSlices = 0;
                if (st.capHit) V::count("cap_hit");
                if (st.boundCompleted >= plan.bound) V::count("scenarios_completed_at_bound");
                V::outcome(st.violated ? "violated" : (st.contextSwitches ? "explored-with-conflicts" : "explored"));
                V::count("executions_abandoned_at_known_findings", st.abandoned);
                for (const auto &x : st.abandonedSamples) {
                    // one example per known key and shard is enough for the KNOWN-FINDING line
                    static std::set<std::string> reported;
                    if (!reported.insert(x.first).second) continue;
                    V::failKey(x.first, knownMsg[x.first] + " | schedule=" + VS::fmtSchedule(x.second) + " | replay-case=" + name + "|" + VS::fmtSchedule(x.second));
                }
                if (st.violated) {
                    // stable key: violation class (+update when an updater takes part), not the schedule;
                    // failKey belongs to the last (replayed) execution, which is the violating one
                    std::string klass = failKey;
                    if (klass.empty()) {        // not raised by the harness oracle: assertion in Squid code, deadlock, livelock, exception
                        const auto p = st.violation.find("/src/");
                        klass = st.violation.compare(0, 9, "assertion") == 0 && p != std::string::npos ?
                                "assert:" + st.violation.substr(p + 5, 60) : "engine:" + st.violation.substr(0, 40);
                    }
                    const std::string key = fullKey(klass);
                    V::failKey(key, st.violation + " | schedule=" + VS::fmtSchedule(st.schedule) + " | replay-case=" + name + "|" + VS::fmtSchedule(st.schedule));
                }
                V::end_case();
            };
            rec(0, 0);
        }
    }
    delete M; M = nullptr;
    delete mapOwner; mapOwner = nullptr;
}

} // namespace

extern "C" const char *__asan_default_options() { return "detect_stack_use_after_return=0"; }

VHARNESS_MAIN(body)
