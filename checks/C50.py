"""C50 Character sets and tokenizers follow set semantics — E1, exhaustive sets/ranges/strings vs bitset and maximal-run references."""
from vverif import seq
from vverif.core import Result, HarnessError

LEVEL = 'exploration'
RULE = ('CharacterSet: every range [lo,hi] (32 896 ranges; ctor, addRange, complement) and every ordered pair of a family of '
        '26 (quick) / 81 (thorough) sets (empty, full, singletons at 0/1/127/128/255, ranges, string- and list-built sets, 10 '
        'named sets) under +, -, +=, -=, complement, ==, !=, add/remove, membership of all 256 bytes compared with std::bitset<256>. '
        'Tokenizer: every string of length <= 6 (quick) / 8 (thorough) over {a,b,NUL,0xFF} x 278 calls (prefix, suffix, throwing '
        'prefix with limits {npos,0,1,2,3,100}; skipAll, skipOne, skipOneTrailing, skipAllTrailing, token over 9 sets; skip, '
        'skipSuffix, skipRequired with every token of length <= 2 over the alphabet and "aba"; skip(char)), and every ordered PAIR '
        'of those calls on every string of length <= 3 (quick) / 5 (thorough); result, returned token, remaining() and '
        'parsedSize() compared with a maximal-/length-limited-run reference on std::string; non-trivial = calls on a non-empty '
        'input (consumed, refused or threw) and set pairs not involving empty/full/equal operands and all ranges')
ASSUME = ['libbase/libparser/libsbuf of the scratch copy of the current tree (ASan), testTokenizer link set',
          'skip("")/skipSuffix("") consume nothing and return false (nothing was skipped); skipRequired("") succeeds',
          'the throwing prefix() reports InsufficientInput when the run reaches the end of the input (after consuming it)',
          'named sets (ALPHA, DIGIT, ...) are used as operands only; their RFC definitions are not checked here']


def _build(ctx):
    return seq.build(ctx, 'tests/testTokenizer', ['C50_charset_tok.cc'])


def _result(ctx, m):
    oc = m['outcomes']
    viol = seq.violations_from(m)
    nontriv = [k for k in oc if k.endswith(':consumed') or k.endswith(':refused') or k.endswith(':threw') or k in ('charset:pair', 'charset:range', 'charset:singleton')]
    if not viol and not m['deadline_hit']:
        ops = sorted(set(k.split(':')[1] for k in oc if k.startswith('tok:')))
        if len(ops) != 12:
            raise HarnessError('vacuity guard: only %d tokenizer operations exercised: %r' % (len(ops), ops))
        for op in ops:
            hit = oc.get('tok:%s:consumed' % op, 0)
            miss = oc.get('tok:%s:refused' % op, 0) + oc.get('tok:%s:threw' % op, 0)
            if hit < 50 or miss < 50:
                raise HarnessError('vacuity guard: %s consumed=%d refused/threw=%d' % (op, hit, miss))
        if oc.get('charset:pair', 0) < 100 or oc.get('charset:range', 0) < 30000:
            raise HarnessError('vacuity guard: charset cases %r' % {k: v for k, v in oc.items() if k.startswith('charset')})
    cov = seq.coverage_from(m, RULE, nontrivial_classes=nontriv, min_classes=1 if viol else 10)
    cov['tokenizer_calls'] = m['counters'].get('tokenizer_calls', 0)
    cov['charset_checks'] = m['counters'].get('charset_checks', 0)
    return Result(LEVEL, cov, viol, ASSUME)


def run(ctx):
    exe = _build(ctx)
    return _result(ctx, seq.run(ctx, exe))


def replay(ctx, data):
    exe = _build(ctx)
    m = seq.replay_case(ctx, exe, data['case'])
    m.setdefault('deadline_hit', False)
    if not m['evaluations']:
        raise HarnessError('replay descriptor did not run: %r' % data['case'])
    return Result(LEVEL, {}, seq.violations_from(m), ASSUME)
