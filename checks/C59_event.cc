// C59 — timed events: explicit-state BFS over operation sequences of the real EventScheduler
// (src/event.cc) against a reference model (E1).
//
// Operations: schedule(f, arg, when, weight) / cancel(f, arg) / cancel(f, nullptr) / advance the
// clock / checkEvents()+AsyncCallQueue::fire().  The harness owns current_dtime.  The model is a
// *set* of possible pending lists (alternatives): where the API leaves a choice (cancel(f,arg) or a
// firing of (f,arg) when several indistinguishable events with that callback+argument are pending)
// every choice is kept, and a violation is reported only when no alternative explains what the real
// scheduler did.  Oracle (the property statement, nothing more):
//   * an event never fires before its due time;
//   * when X fires, no pending Y may exist that had to fire before X: Y precedes X in due time, or
//     has the same due time and was scheduled earlier.  when=0 events carry the documented "zero
//     timestamp" (event.cc: schedule()); an ordering obligation is only demanded when it holds under
//     both readings of their due time (zero / the clock value at schedule time);
//   * an event that fires must be pending in the model (cancelled events never fire);
//   * drain probe at every new state: after advancing the clock far enough, repeated
//     checkEvents()+fire() must fire exactly the pending events (cancelling one leaves the others).
// The private list EventScheduler::tasks is read for state hashing only, never by the oracle.
#include "squid.h"
#include "base/AsyncCallQueue.h"
#include "event.h"
#include "mem/AllocatorProxy.h"
#include "mem/forward.h"
#include "time/gadgets.h"

#include "vharness.h"

#include <algorithm>
#include <cmath>
#include <unordered_set>

namespace {

// ---------------------------------------------------------------- real-code glue
struct Fired { int f; int a; };
std::vector<Fired> gLog;
int argCell[3];
int argId(void *p) { return p == &argCell[1] ? 1 : p == &argCell[2] ? 2 : 0; }
void *argPtr(int a) { return a ? &argCell[a] : nullptr; }
void h1(void *a) { gLog.push_back({1, argId(a)}); }
void h2(void *a) { gLog.push_back({2, argId(a)}); }
EVH *handler(int f) { return f == 1 ? h1 : h2; }

const int BaseTick = 2000;       // one tick = 0.5 s; the clock starts at 1000.0 s
const int DrainAdvance = 100;    // ticks

// ---------------------------------------------------------------- operations
struct Op {
    enum Kind { Sched, Cancel, Advance, Run } kind;
    int f = 0, a = 0, when = 0, weight = 0, ticks = 0;
    std::string name;
};

const char *argName(int a) { return a == 0 ? "null" : a == 1 ? "a" : "b"; }

std::string halves(int t)
{
    char b[32];
    snprintf(b, sizeof b, "%d%s", t / 2, (t % 2) ? ".5" : "");
    return b;
}

Op mkSched(int f, int a, int when, int weight)
{
    Op o; o.kind = Op::Sched; o.f = f; o.a = a; o.when = when; o.weight = weight;
    o.name = "S(h" + std::to_string(f) + "," + argName(a) + ",+" + halves(when) + ",w" + std::to_string(weight) + ")";
    return o;
}
Op mkCancel(int f, int a)
{
    Op o; o.kind = Op::Cancel; o.f = f; o.a = a;
    o.name = "C(h" + std::to_string(f) + "," + argName(a) + ")";
    return o;
}
Op mkAdvance(int t)
{
    Op o; o.kind = Op::Advance; o.ticks = t; o.name = "T+" + halves(t);
    return o;
}
Op mkRun()
{
    Op o; o.kind = Op::Run; o.name = "R";
    return o;
}

struct Config {
    std::string name;
    std::vector<Op> ops;
    int depthQuick, depthThorough, rootDepth;
};

Config mkConfig(const std::string &name, std::vector<int> fs, std::vector<int> as, std::vector<int> whens,
                std::vector<int> weights, std::vector<int> advs, int dq, int dt, int rootDepth)
{
    Config c; c.name = name; c.depthQuick = dq; c.depthThorough = dt; c.rootDepth = rootDepth;
    for (int f : fs) for (int a : as) for (int w : whens) for (int wt : weights) c.ops.push_back(mkSched(f, a, w, wt));
    for (int f : fs) for (int a : as) if (a) c.ops.push_back(mkCancel(f, a));
    for (int f : fs) c.ops.push_back(mkCancel(f, 0));
    for (int t : advs) c.ops.push_back(mkAdvance(t));
    c.ops.push_back(mkRun());
    return c;
}

// ---------------------------------------------------------------- reference model
// (plain fixed-size data: the exploration copies and compares millions of these)
struct MEv {
    int8_t f, a, w;
    int8_t zero;      // scheduled with when=0: documented zero timestamp
    int16_t dueA;     // ticks since BaseTick; reading A: zero timestamp => -1
    int16_t dueB;     // ticks since BaseTick; reading B: schedule time + when
};
static_assert(sizeof(MEv) == 8, "MEv is packed");
const int MaxEv = 12;

struct Alt {          // pending events in scheduling order
    MEv ev[MaxEv];
    int n;
    Alt() { memset(this, 0, sizeof(*this)); }
    size_t size() const { return n; }
    const MEv &operator[](size_t i) const { return ev[i]; }
    void push(const MEv &e) { if (n >= MaxEv) abort(); ev[n++] = e; }
    void erase(int i) { for (int k = i; k + 1 < n; ++k) ev[k] = ev[k + 1]; --n; memset(&ev[n], 0, sizeof(MEv)); }
    bool operator<(const Alt &o) const { return n != o.n ? n < o.n : memcmp(ev, o.ev, sizeof(MEv) * n) < 0; }
    bool operator==(const Alt &o) const { return n == o.n && memcmp(ev, o.ev, sizeof(MEv) * n) == 0; }
};

// must alt[j] fire before alt[i] under both readings of the due time?
bool mustPrecede(const Alt &alt, size_t j, size_t i)
{
    const MEv &y = alt[j], &x = alt[i];
    const bool precA = y.dueA < x.dueA || (y.dueA == x.dueA && j < i);
    const bool precB = y.dueB < x.dueB || (y.dueB == x.dueB && j < i);
    return precA && precB;
}

struct Cancelled { int8_t f, a, byNull, afterRemoved; };

struct Stats {
    uint64_t implOps = 0, fired = 0, equalTimeFifo = 0, dueOrder = 0, notDueLeft = 0, heavyDeferred = 0,
             cancelNullMulti = 0, cancelArgDup = 0, cancelArgOthersLeft = 0, firedDupChoice = 0, drains = 0,
             cancelNullAdjacent = 0;
} gStats;
bool gCounting = false;

typedef std::vector<Alt> Alts;
void normalise(Alts &v)
{
    if (v.size() < 2) return;
    std::sort(v.begin(), v.end());
    v.erase(std::unique(v.begin(), v.end()), v.end());
}

// the copyable part of a world: clock + model
struct Model {
    int now = 0;                 // ticks since BaseTick
    Alts alts;
    Cancelled cancelled[24];     // labelling of violations only
    int ncancelled = 0;
    Model() { alts.emplace_back(); }
    void noteCancelled(int f, int a, bool byNull, bool afterRemoved) {
        for (int i = 0; i < ncancelled; ++i) {
            Cancelled &c = cancelled[i];
            if (c.f == f && c.a == a && c.byNull == byNull) { c.afterRemoved = c.afterRemoved || afterRemoved; return; }
        }
        if (ncancelled < 24) cancelled[ncancelled++] = Cancelled{(int8_t)f, (int8_t)a, (int8_t)byNull, (int8_t)afterRemoved};
    }
};

struct World {
    EventScheduler sch;
    Model m;
    bool bad = false;
    std::string key, msg;

    World() { gLog.clear(); setClock(); }

    void setClock() { current_dtime = 0.5 * (BaseTick + m.now); }
    void violation(const std::string &k, const std::string &t) { if (!bad) { bad = true; key = k; msg = t; } }

    size_t pendingCount() const { return m.alts[0].size(); }
    bool hasPending(int f, int a) const {
        const Alt &alt = m.alts[0];
        for (size_t i = 0; i < alt.size(); ++i) if (alt[i].f == f && alt[i].a == a) return true;
        return false;
    }

    // the real scheduler only (used to re-create the parent state; its model is copied)
    void applyImplOnly(const Op &o) {
        setClock();
        ++gStats.implOps;
        switch (o.kind) {
        case Op::Sched: sch.schedule("verif event", handler(o.f), argPtr(o.a), 0.5 * o.when, o.weight, false); break;
        case Op::Cancel: sch.cancel(handler(o.f), argPtr(o.a)); break;
        case Op::Advance: m.now += o.ticks; setClock(); break;
        case Op::Run: sch.checkEvents(0); AsyncCallQueue::Instance().fire(); gLog.clear(); break;
        }
    }

    void apply(const Op &o) {
        setClock();
        ++gStats.implOps;
        switch (o.kind) {
        case Op::Sched: {
            sch.schedule("verif event", handler(o.f), argPtr(o.a), 0.5 * o.when, o.weight, false);
            const MEv e{(int8_t)o.f, (int8_t)o.a, (int8_t)o.weight, (int8_t)(o.when == 0), (int16_t)(o.when == 0 ? -1 : m.now + o.when), (int16_t)(m.now + o.when)};
            for (Alt &alt : m.alts) alt.push(e);
            break;
        }
        case Op::Cancel:
            sch.cancel(handler(o.f), argPtr(o.a));
            if (o.a) cancelOne(o.f, o.a); else cancelAll(o.f);
            break;
        case Op::Advance:
            m.now += o.ticks;
            setClock();
            break;
        case Op::Run:
            runOnce();
            break;
        }
    }

    void cancelOne(int f, int a) {
        Alts next;
        size_t matches = 0, others = 0;
        for (const Alt &alt : m.alts) {
            matches = 0; others = 0;
            for (size_t i = 0; i < alt.size(); ++i) {
                if (alt[i].f == f && alt[i].a == a) {
                    ++matches;
                    next.push_back(alt); next.back().erase(i);
                } else ++others;
            }
        }
        if (gCounting) { if (matches > 1) ++gStats.cancelArgDup; if (others) ++gStats.cancelArgOthersLeft; }
        m.noteCancelled(f, a, false, false);
        normalise(next);
        m.alts.swap(next);
    }

    void cancelAll(int f) {
        // labelling only: which events sit directly behind a removed one in due order (A reading)?
        bool multi = false, adjacentAny = false;
        for (const Alt &alt : m.alts) {
            int order[MaxEv];
            for (size_t i = 0; i < alt.size(); ++i) order[i] = i;
            std::stable_sort(order, order + alt.size(), [&](int x, int y) { return alt[x].dueA < alt[y].dueA; });
            size_t removed = 0;
            bool prevRemoved = false, adjacent = false;
            // simulate a scan that steps over the element following each removed one
            for (size_t k = 0; k < alt.size(); ++k) {
                const MEv &e = alt[order[k]];
                if (e.f != f) { prevRemoved = false; continue; }
                ++removed;
                const bool skipped = prevRemoved;
                m.noteCancelled(e.f, e.a, true, skipped);
                if (skipped) adjacent = true;
                prevRemoved = !skipped;
            }
            if (removed > 1) multi = true;
            if (adjacent) adjacentAny = true;
        }
        if (gCounting) { if (multi) ++gStats.cancelNullMulti; if (adjacentAny) ++gStats.cancelNullAdjacent; }
        for (Alt &alt : m.alts)
            for (int i = alt.n - 1; i >= 0; --i)
                if (alt[i].f == f) alt.erase(i);
        normalise(m.alts);
    }

    void runOnce() {
        gLog.clear();
        sch.checkEvents(0);
        AsyncCallQueue::Instance().fire();
        for (const Fired &fe : gLog) {
            noteFired(fe);
            if (bad) return;
        }
        if (gCounting) {
            const Alt &alt = m.alts[0];
            bool notDue = false, due = false;
            for (size_t i = 0; i < alt.size(); ++i) { if (alt[i].dueA > m.now) notDue = true; else due = true; }
            if (notDue) ++gStats.notDueLeft;
            if (due) ++gStats.heavyDeferred;
        }
    }

    void noteFired(const Fired &fe) {
        ++gStats.fired;
        Alts next;
        size_t choices = 0;
        for (const Alt &alt : m.alts) {
            for (size_t i = 0; i < alt.size(); ++i) {
                if (alt[i].f != fe.f || alt[i].a != fe.a) continue;
                if (alt[i].dueA > m.now) continue;                 // would be early
                bool blocked = false;
                for (size_t j = 0; j < alt.size() && !blocked; ++j)
                    if (j != i && mustPrecede(alt, j, i)) blocked = true;
                if (blocked) continue;
                if (gCounting) {
                    for (size_t j = 0; j < alt.size(); ++j) {
                        if (j == i) continue;
                        if (mustPrecede(alt, i, j)) {
                            if (alt[j].dueA == alt[i].dueA && alt[j].dueB == alt[i].dueB) ++gStats.equalTimeFifo;
                            else if (alt[j].dueA <= m.now) ++gStats.dueOrder;
                        }
                    }
                }
                ++choices;
                next.push_back(alt); next.back().erase(i);
            }
        }
        if (gCounting && choices > 1) ++gStats.firedDupChoice;
        if (!next.empty()) { normalise(next); m.alts.swap(next); return; }
        classify(fe);
    }

    void classify(const Fired &fe) {
        const std::string who = "h" + std::to_string(fe.f) + "(" + argName(fe.a) + ")";
        const Alt &alt = m.alts[0];
        bool any = false, anyDue = false;
        std::string blocker;
        bool blockerEqual = false;
        for (size_t i = 0; i < alt.size(); ++i) {
            if (alt[i].f != fe.f || alt[i].a != fe.a) continue;
            any = true;
            if (alt[i].dueA > m.now) continue;
            anyDue = true;
            for (size_t j = 0; j < alt.size(); ++j)
                if (j != i && mustPrecede(alt, j, i)) {
                    blocker = "h" + std::to_string(alt[j].f) + "(" + argName(alt[j].a) + ")";
                    blockerEqual = alt[j].dueA == alt[i].dueA && alt[j].dueB == alt[i].dueB;
                }
        }
        if (!any) {
            bool byNull = false, byArg = false, afterRemoved = false;
            for (int i = 0; i < m.ncancelled; ++i) {
                const Cancelled &c = m.cancelled[i];
                if (c.f == fe.f && c.a == fe.a) { if (c.byNull) { byNull = true; afterRemoved = afterRemoved || c.afterRemoved; } else byArg = true; }
            }
            if (byNull && afterRemoved)
                violation("cancel(func,nullptr):event-queued-directly-behind-a-removed-one-survives-and-fires",
                          who + " fired although cancel(h" + std::to_string(fe.f) + ",nullptr) had cancelled every event of that callback");
            else if (byNull)
                violation("cancel(func,nullptr):cancelled-event-fires", who + " fired after cancel(h" + std::to_string(fe.f) + ",nullptr)");
            else if (byArg)
                violation("cancel(func,arg):cancelled-event-fires", who + " fired although it had been cancelled (no such event pending)");
            else
                violation("fired-event-never-scheduled", who + " fired but no such event is pending");
        } else if (!anyDue) {
            violation("fired-before-due-time", who + " fired at clock +" + halves(m.now) + " before its due time");
        } else if (blockerEqual) {
            violation("order:equal-due-times-not-in-scheduling-order", who + " fired while " + blocker + " with the same due time, scheduled earlier, was still pending");
        } else {
            violation("order:not-in-due-time-order", who + " fired while " + blocker + " with an earlier due time was still pending");
        }
    }

    // advance far enough for everything to be due, then run until the model is empty or the scheduler idles
    void drain() {
        if (gCounting) ++gStats.drains;
        m.now += DrainAdvance;
        const size_t rounds = pendingCount() + 2;
        for (size_t r = 0; r < rounds && !bad; ++r) {
            setClock();
            ++gStats.implOps;
            runOnce();
            if (sch.tasks == nullptr && gLog.empty()) break;
        }
        if (bad) return;
        bool someEmpty = false;
        for (const Alt &alt : m.alts) if (alt.size() == 0) someEmpty = true;
        if (!someEmpty) {
            const Alt &alt = m.alts[0];
            std::string left;
            for (size_t i = 0; i < alt.size(); ++i) left += " h" + std::to_string(alt[i].f) + "(" + argName(alt[i].a) + ")";
            violation(m.ncancelled ? "event-lost-after-cancelling-another" : "event-lost",
                      "scheduled, never cancelled, yet never fired although long overdue:" + left);
        }
    }

    // canonical state: the real list + the model alternatives, times relative to the clock
    void canonical(std::string &out) const {
        out.clear();
        for (ev_entry *e = sch.tasks; e; e = e->next) {
            const int rel = e->when == 0.0 ? -9999 : (int)lround((e->when - current_dtime) * 2);
            out += (char)(e->func == h1 ? 1 : 2);
            out += (char)argId(e->arg);
            out += (char)e->weight;
            out += (char)(rel & 0xff); out += (char)((rel >> 8) & 0xff);
        }
        out += (char)0x7f;
        Alts rel = m.alts;
        for (Alt &alt : rel)
            for (int i = 0; i < alt.n; ++i) {
                if (!alt.ev[i].zero) alt.ev[i].dueA -= m.now;
                alt.ev[i].dueB -= m.now;
            }
        std::sort(rel.begin(), rel.end());
        for (const Alt &alt : rel) {
            out += (char)alt.n;
            out.append((const char *)alt.ev, sizeof(MEv) * alt.n);
        }
    }
};

typedef unsigned __int128 H128;
struct H128Hash { size_t operator()(const H128 &h) const { return (size_t)(h ^ (h >> 64)); } };
typedef std::unordered_set<H128, H128Hash> StateSet;

H128 hashOf(const std::string &s)
{
    uint64_t a = 1469598103934665603ULL, b = 0x9e3779b97f4a7c15ULL;
    for (unsigned char c : s) {
        a = (a ^ c) * 1099511628211ULL;
        b = (b + c) * 0xff51afd7ed558ccdULL; b ^= b >> 29;
    }
    return ((H128)a << 64) | b;
}

typedef std::vector<uint8_t> Seq;

// The driver keeps only the first 200 failure records of a process: list every key at most 5 times
// per process so that a frequent failure class cannot crowd out a different one.
std::map<std::string, int> reported;
void failCapped(const std::string &key, const std::string &msg)
{
    if (++reported[key] <= 5) V::failKey(key, msg);
}

std::string seqName(const Config &c, const Seq &s)
{
    std::string r;
    for (size_t i = 0; i < s.size(); ++i) { if (i) r += ' '; r += c.ops[s[i]].name; }
    return r;
}

struct Explorer {
    const Config &cfg;
    const StateSet *rootSeen = nullptr;   // states already owned by the root phase
    StateSet seen;
    uint64_t transitions = 0, states = 0, violating = 0, maxAlts = 0, expanded = 0;
    bool report = true;
    bool cut = false;
    std::string sampleTrace;

    explicit Explorer(const Config &c): cfg(c) {}

    bool deadline() {
        V::State &s = V::S();
        if (s.sh->deadlineHit) return true;
        if (s.ctx.deadlineS > 0 && !s.ctx.replay && difftime(time(nullptr), s.start) > s.ctx.deadlineS) { s.sh->deadlineHit = 1; return true; }
        return false;
    }

    // replay seq on a fresh world; false if the (already validated) prefix misbehaves
    bool replay(World &w, const Seq &seq) {
        for (uint8_t o : seq) { w.apply(cfg.ops[o]); if (w.bad) return false; }
        return true;
    }

    bool isNew(const H128 &h) {
        if (rootSeen && rootSeen->count(h)) return false;
        return seen.insert(h).second;
    }

    // BFS from `root` (already a known state) until sequences reach maxDepth; new states at maxDepth
    // are appended to *frontier (if given)
    void explore(const Seq &root, int maxDepth, std::vector<Seq> *frontier) {
        std::vector<Seq> layer{root};
        std::string canon;
        {
            World w;
            gCounting = false;
            if (!replay(w, root)) { if (report) V::fail("prefix replay diverged: " + seqName(cfg, root)); return; }
            w.canonical(canon);
            seen.insert(hashOf(canon));
        }
        for (int depth = (int)root.size(); depth < maxDepth && !layer.empty(); ++depth) {
            std::vector<Seq> next;
            for (const Seq &s : layer) {
                if ((expanded++ & 0x3f) == 0 && deadline()) { cut = true; return; }
                std::vector<bool> enabled(cfg.ops.size(), true);
                Model parent;
                {
                    World w0;
                    gCounting = false;
                    if (!replay(w0, s)) { if (report) V::fail("replay diverged: " + seqName(cfg, s)); continue; }
                    for (size_t k = 0; k < cfg.ops.size(); ++k) {
                        const Op &o = cfg.ops[k];
                        if (o.kind == Op::Cancel && o.a && !w0.hasPending(o.f, o.a)) enabled[k] = false; // documented precondition
                    }
                    parent = w0.m;
                }
                for (size_t k = 0; k < cfg.ops.size(); ++k) {
                    if (!enabled[k]) continue;
                    // re-create the parent state of the real scheduler by replaying its history; the
                    // (already validated) model of that state is copied
                    World w;
                    gCounting = false;
                    for (uint8_t o : s) w.applyImplOnly(cfg.ops[o]);
                    w.m = parent;
                    gCounting = report;
                    w.apply(cfg.ops[k]);
                    ++transitions;
                    Seq t = s; t.push_back((uint8_t)k);
                    std::string how;
                    bool fresh = false;
                    if (!w.bad) {
                        if (w.m.alts.size() > maxAlts) maxAlts = w.m.alts.size();
                        w.canonical(canon);
                        fresh = isNew(hashOf(canon));
                        if (fresh) {
                            ++states;
                            w.drain();
                            how = " [then clock +" + halves(DrainAdvance) + " and R until idle]";
                        }
                    }
                    gCounting = false;
                    if (w.bad) {
                        ++violating;
                        if (report) failCapped(w.key, "trace: " + seqName(cfg, t) + how + " => " + w.msg);
                        continue;       // model and implementation have diverged: do not explore further
                    }
                    if (fresh) {
                        if (sampleTrace.empty() && t.size() >= 3 && (states % 37) == 5) sampleTrace = seqName(cfg, t);
                        if ((int)t.size() < maxDepth) next.push_back(t);
                        else if (frontier) frontier->push_back(t);
                    }
                }
            }
            layer.swap(next);
        }
    }
};

void runConfig(V::Ctx &ctx, const Config &cfg)
{
    const int depth = ctx.quick() ? cfg.depthQuick : cfg.depthThorough;
    // every shard computes the same root phase silently; the shard owning the root case reports it
    Explorer root(cfg);
    root.report = false;
    std::vector<Seq> frontier;
    root.explore(Seq(), cfg.rootDepth, &frontier);
    if (root.cut) return;

    const std::string rootDesc = cfg.name + " depth=" + std::to_string(depth) + " | root phase (sequences up to length " + std::to_string(cfg.rootDepth) + ")";
    if (V::begin_case(rootDesc)) {
        Explorer r2(cfg);
        r2.explore(Seq(), cfg.rootDepth, nullptr);
        V::count("states", r2.states + 1);
        V::count("states_root_phase", r2.states + 1);
        V::count("transitions", r2.transitions);
        V::count("transitions:" + cfg.name, r2.transitions);
        V::count("violating_transitions", r2.violating);
        V::outcome(r2.violating ? "root-with-violation" : "root-explored");
        V::end_case();
    }
    for (const Seq &f : frontier) {
        const std::string desc = cfg.name + " depth=" + std::to_string(depth) + " | " + seqName(cfg, f);
        if (!V::begin_case(desc)) continue;
        Explorer e(cfg);
        e.rootSeen = &root.seen;
        e.explore(f, depth, nullptr);
        V::count("states", e.states);
        V::count("transitions", e.transitions);
        V::count("transitions:" + cfg.name, e.transitions);
        V::count("states:" + cfg.name, e.states);
        V::count("violating_transitions", e.violating);
        V::outcome("model-alternatives<=" + std::to_string(e.maxAlts));
        if (e.cut) V::count("subtrees_cut_by_deadline");
        else V::count("subtrees_completed");
        if (!e.sampleTrace.empty()) V::sample(cfg.name + ": " + e.sampleTrace);
        V::outcome(e.cut ? "subtree-cut" : e.violating ? "subtree-with-violation" : "subtree-explored");
        V::end_case();
    }
}

void body(V::Ctx &ctx)
{
    std::vector<Config> cfgs;
    //                     name       funcs    args       when(ticks)   weights  advance  depthQ depthT rootDepth
    cfgs.push_back(mkConfig("full",   {1, 2}, {1, 2, 0}, {0, 1, 2},    {0, 1},  {1, 2},  3,     4,     2));
    cfgs.push_back(mkConfig("cancel", {1, 2}, {1, 2, 0}, {0, 2},       {0},     {2},     5,     6,     2));
    cfgs.push_back(mkConfig("time",   {1},    {1, 2},    {0, 1, 2, 3}, {0, 1},  {1, 2},  4,     5,     2));
    cfgs.push_back(mkConfig("dup",    {1},    {1},       {0, 1, 2},    {0, 1},  {1, 2},  6,     7,     3));
    for (const Config &c : cfgs)
        runConfig(ctx, c);
    V::count("impl_ops_executed", gStats.implOps);
    V::count("events_fired", gStats.fired);
    V::count("fifo_among_equal_times_observed", gStats.equalTimeFifo);
    V::count("due_time_order_observed", gStats.dueOrder);
    V::count("runs_leaving_not_yet_due_events", gStats.notDueLeft);
    V::count("runs_leaving_due_events_behind_heavy", gStats.heavyDeferred);
    V::count("cancel_null_removing_several", gStats.cancelNullMulti);
    V::count("cancel_null_with_adjacent_same_callback", gStats.cancelNullAdjacent);
    V::count("cancel_arg_among_duplicates", gStats.cancelArgDup);
    V::count("cancel_arg_leaving_others", gStats.cancelArgOthersLeft);
    V::count("firings_with_duplicate_choice", gStats.firedDupChoice);
    V::count("drain_probes", gStats.drains);
}

} // namespace

// Exact-size replacements for the five tests/stub_libmem.cc functions this link set uses (the stub hands
// out 64 KB per object, which would hide small overruns of an ev_entry from ASan and is slow).
void *Mem::AllocatorProxy::alloc() { return xmalloc(size); }
void Mem::AllocatorProxy::freeOne(void *address) { xfree(address); }
void *memReallocBuf(void *oldbuf, size_t net_size, size_t *gross_size) { void *rv = xrealloc(oldbuf, net_size); *gross_size = net_size; return rv; }
void memFreeBuf(size_t, void *buf) { xfree(buf); }
static void cxxXfree(void *ptr) { xfree(ptr); }
FREE *memFreeBufFunc(size_t) { return cxxXfree; }

VHARNESS_MAIN(body)
