// C38 — PROXY protocol headers are parsed faithfully and incrementally (E1).
// Real code: ProxyProtocol::Parse (src/proxyp/Parser.cc, Header.cc) on top of Parser::Tokenizer /
// Parser::BinaryTokenizer, recompiled from the current tree with ASan + UBSan.
//
// A reference encoder enumerates well-formed v1 and v2 headers; every header is parsed complete, followed by
// payload octets, and at EVERY prefix.  Oracles:
//  * well-formed header: accepted, fields (version, command, addresses, ports, TLVs) equal the encoded ones,
//    consumed size == header length; every proper prefix of the header asks for more input; every longer
//    prefix gives the identical result;
//  * malformed headers of the listed classes: the complete input is rejected;
//  * any input (also malformed / lenient): each prefix either asks for more, is rejected, or gives the same
//    result as the complete input.
#include "squid.h"
#include "base/TextException.h"
#include "ip/Address.h"
#include "mem/forward.h"
#include "parser/BinaryTokenizer.h"
#include "proxyp/Elements.h"
#include "proxyp/Header.h"
#include "proxyp/Parser.h"
#include "sbuf/SBuf.h"

#include "vharness.h"

#include <arpa/inet.h>
#include <string>
#include <vector>
#include <cstring>

namespace {

typedef std::string Bytes;

// ---------------------------------------------------------------- observed / expected result
struct Tlv { unsigned type; Bytes value; bool operator==(const Tlv &o) const { return type == o.type && value == o.value; } };
struct Res {
    enum Kind { NeedMore, Rejected, Parsed } kind = Rejected;
    Bytes version;
    int command = -1;
    bool hasAddresses = false;
    Bytes src, dst;             // 16 octets each (IPv4 as ::ffff:a.b.c.d), empty when there are no addresses
    bool srcV4 = false, dstV4 = false;
    unsigned sport = 0, dport = 0;
    std::vector<Tlv> tlvs;
    size_t size = 0;
    std::string error;
    bool same(const Res &o) const {
        return kind == o.kind && version == o.version && command == o.command && hasAddresses == o.hasAddresses && src == o.src && dst == o.dst &&
               srcV4 == o.srcV4 && dstV4 == o.dstV4 && sport == o.sport && dport == o.dport && tlvs == o.tlvs && size == o.size;
    }
    std::string str() const {
        if (kind == NeedMore) return "need-more";
        if (kind == Rejected) return "rejected(" + error.substr(0, 80) + ")";
        auto ip = [](const Bytes &a, bool v4) { char b[64] = "?"; if (a.size() == 16) { if (v4) inet_ntop(AF_INET, a.data() + 12, b, sizeof b); else inet_ntop(AF_INET6, a.data(), b, sizeof b); } return std::string(b); };
        std::string s = "v" + version + " cmd=" + std::to_string(command) + " size=" + std::to_string(size);
        if (hasAddresses) s += " " + ip(src, srcV4) + ":" + std::to_string(sport) + " -> " + ip(dst, dstV4) + ":" + std::to_string(dport); else s += " no-addresses";
        for (auto &t : tlvs) s += " tlv(" + std::to_string(t.type) + "," + std::to_string(t.value.size()) + ")";
        return s;
    }
};

uint64_t nParses = 0;

Res parse(const Bytes &in) {
    ++nParses;
    Res r;
    // the SBuf gets its own exact-size copy: nothing beyond the prefix exists in memory
    char *blk = (char *)malloc(in.size());
    memcpy(blk, in.data(), in.size());
    try {
        SBuf buf;
        buf.append(blk, in.size());
        free(blk); blk = nullptr;
        const auto parsed = ProxyProtocol::Parse(buf);
        r.kind = Res::Parsed;
        r.size = parsed.size;
        const auto &h = *parsed.header;
        r.version.assign(h.version().rawContent(), h.version().length());
        r.command = (int)h.command_;
        r.hasAddresses = h.hasAddresses();
        if (r.hasAddresses) {
            struct in6_addr a;
            h.sourceAddress.getInAddr(a); r.src.assign((const char *)&a, 16);
            h.destinationAddress.getInAddr(a); r.dst.assign((const char *)&a, 16);
            r.srcV4 = h.sourceAddress.isIPv4(); r.dstV4 = h.destinationAddress.isIPv4();
            r.sport = h.sourceAddress.port(); r.dport = h.destinationAddress.port();
        }
        for (const auto &t : h.tlvs) r.tlvs.push_back({t.type, Bytes(t.value.rawContent(), t.value.length())});
    } catch (const Parser::BinaryTokenizer::InsufficientInput &) {
        r.kind = Res::NeedMore;
    } catch (const std::exception &e) {
        r.kind = Res::Rejected; r.error = e.what();
    } catch (...) {
        r.kind = Res::Rejected; r.error = "(non-standard exception)";
    }
    free(blk);
    return r;
}

// ---------------------------------------------------------------- the prefix oracle, shared by all classes
enum Class { WellFormed, MustReject, Lenient };

uint64_t nPrefixNeedMore = 0, nPrefixSame = 0, nPrefixRejected = 0;

// input = header octets (+ payload).  headerLen: length of the header proper (well-formed only).
// Returns the outcome class name.
std::string check(const std::string &what, const Bytes &input, Class cls, size_t headerLen, const Res *want, const std::string &malformedClass) {
    const Res full = parse(input);
    std::string out;
    {
        static uint64_t nChecks = 0;
        ++nChecks;
        const unsigned sh = V::S().ctx.shard;
        const bool isV2 = what.compare(0, 3, "v2 ") == 0;
        // written-out samples: shard 0 shows v1 headers, shard 1 malformed inputs, the others v2 headers (the merged report keeps two per shard)
        if ((sh == 0 && cls == WellFormed && !isV2 && nChecks % 977 == 5) || (sh >= 2 && cls == WellFormed && isV2 && nChecks % 1499 == sh) ||
                (sh == 1 && cls != WellFormed && nChecks % 5 == 0))
            V::sample(what + (cls == WellFormed ? " [well-formed, " + std::to_string(input.size()) + " octets, every prefix tried]" : " [" + malformedClass + "]") + " => " + full.str());
    }
    if (cls == WellFormed) {
        Res w = *want; w.kind = Res::Parsed; w.size = headerLen;
        if (!full.same(w)) {
            const char *tag = full.kind != Res::Parsed ? (full.kind == Res::NeedMore ? "needs-more-on-complete-header" : "rejected") : full.size != w.size ? "consumed-size" :
                              (full.src != w.src || full.dst != w.dst || full.srcV4 != w.srcV4 || full.dstV4 != w.dstV4) ? "addresses" : (full.sport != w.sport || full.dport != w.dport) ? "ports" :
                              full.tlvs != w.tlvs ? "tlvs" : "version-command-flags";
            V::failKey("wellformed:" + w.version + ":" + tag + (malformedClass.empty() ? "" : ":" + malformedClass), what + ": got " + full.str() + ", expected " + w.str() + " for " + V::esc(input.substr(0, 120)));
            return std::string("wellformed-MISPARSED");
        }
        out = "wellformed-v" + w.version + "-parsed";
    } else if (cls == MustReject) {
        if (full.kind != Res::Rejected) {
            V::failKey("malformed-not-rejected:" + malformedClass, what + ": " + full.str() + " for malformed input (" + malformedClass + ") " + V::esc(input.substr(0, 140)));
            out = "malformed-NOT-REJECTED";
        } else out = "malformed-rejected";
    } else {
        out = full.kind == Res::Parsed ? "lenient-accepted:" + malformedClass : full.kind == Res::Rejected ? "lenient-rejected" : "lenient-need-more";
    }
    // every proper prefix
    for (size_t len = 0; len < input.size(); ++len) {
        const Res r = parse(input.substr(0, len));
        if (r.kind == Res::NeedMore) { ++nPrefixNeedMore; }
        else if (r.kind == Res::Rejected) {
            ++nPrefixRejected;
            if (full.kind == Res::Parsed) {
                // a prefix of an input that parses must not be rejected: the bytes arrive in pieces in real life
                V::failKey(std::string("prefix-rejected-but-complete-input-accepted:") + (cls == WellFormed ? "wellformed" : malformedClass), what + ": prefix of length " + std::to_string(len) + " is " + r.str() + " but the complete input gives " + full.str() + ": " + V::esc(input.substr(0, 120)));
                return out + "+PREFIX-REJECTED";
            }
        } else {
            ++nPrefixSame;
            if (!r.same(full)) {
                V::failKey(std::string("prefix-result-differs:") + (cls == WellFormed ? "wellformed" : malformedClass), what + ": prefix of length " + std::to_string(len) + " gives " + r.str() + " but the complete input gives " + full.str() + ": " + V::esc(input.substr(0, 120)));
                return out + "+PREFIX-DIFFERS";
            }
            if (cls == WellFormed && len < headerLen) {
                V::failKey("prefix-shorter-than-header-accepted", what + ": prefix of length " + std::to_string(len) + " < header length " + std::to_string(headerLen) + " already parsed: " + r.str());
                return out + "+SHORT-PREFIX-ACCEPTED";
            }
        }
        if (cls == WellFormed && len >= headerLen && r.kind != Res::Parsed) {
            V::failKey("complete-header-with-payload-not-parsed", what + ": prefix of length " + std::to_string(len) + " contains the whole header (" + std::to_string(headerLen) + ") but gives " + r.str());
            return out + "+COMPLETE-NOT-PARSED";
        }
    }
    return out;
}

// ---------------------------------------------------------------- reference encoders
Bytes mapped(const char *text, bool &v4) {
    Bytes b(16, '\0');
    struct in_addr a4; struct in6_addr a6;
    if (inet_pton(AF_INET, text, &a4) == 1) { b[10] = b[11] = (char)0xff; memcpy(&b[12], &a4, 4); v4 = true; }
    else if (inet_pton(AF_INET6, text, &a6) == 1) { memcpy(&b[0], &a6, 16); v4 = false;
        // an IPv4-mapped IPv6 address is, for Ip::Address, an IPv4 address
        static const unsigned char pre[12] = {0,0,0,0,0,0,0,0,0,0,0xff,0xff}; if (memcmp(&a6, pre, 12) == 0) v4 = true; }
    else abort();
    return b;
}

const Bytes Sig("\r\n\r\n\0\r\nQUIT\n", 12);
const Bytes Payload("GET / HTTP/1.1\r\nHost: x\r\n\r\nPROXY TCP4 9.9.9.9 8.8.8.8 7 6\r\n", 40);

Res wantV1(const char *src, const char *dst, unsigned sp, unsigned dp) {
    Res w; w.version = "1.0"; w.command = 1; w.hasAddresses = true;
    w.src = mapped(src, w.srcV4); w.dst = mapped(dst, w.dstV4); w.sport = sp; w.dport = dp;
    return w;
}
Res wantV1Unknown() { Res w; w.version = "1.0"; w.command = 1; w.hasAddresses = false; return w; }

void v1Case(const std::string &line, Class cls, const Res *want, const std::string &klass) {
    // complete header alone, and header followed by payload (all prefixes of both)
    V::outcome(check("v1 \"" + V::esc(line) + "\"", line, cls, line.size(), want, klass));
    V::outcome(check("v1+payload \"" + V::esc(line) + "\"", line + Payload, cls, line.size(), want, klass));
}

struct V2Spec { unsigned cmd, fam, proto; Bytes addr; std::vector<Tlv> tlvs; };

Bytes encodeV2(const V2Spec &s) {
    Bytes body = s.addr;
    for (auto &t : s.tlvs) { body += (char)t.type; body += (char)(t.value.size() >> 8); body += (char)(t.value.size() & 255); body += t.value; }
    Bytes h = Sig;
    h += (char)(0x20 | s.cmd); h += (char)((s.fam << 4) | s.proto);
    h += (char)(body.size() >> 8); h += (char)(body.size() & 255);
    return h + body;
}

// what Squid documents for v2: UNSPEC family/protocol => addresses and TLVs discarded; LOCAL => TLVs discarded;
// UNIX addresses unsupported (skipped).
Res wantV2(const V2Spec &s) {
    Res w; w.version = "2.0"; w.command = s.cmd;
    if (s.fam == 0 || s.proto == 0) { w.hasAddresses = false; return w; }
    w.hasAddresses = true;
    if (s.fam == 1) {
        w.src = Bytes(16, '\0'); w.src[10] = w.src[11] = (char)0xff; memcpy(&w.src[12], s.addr.data(), 4);
        w.dst = Bytes(16, '\0'); w.dst[10] = w.dst[11] = (char)0xff; memcpy(&w.dst[12], s.addr.data() + 4, 4);
        w.srcV4 = w.dstV4 = true;
        w.sport = ((unsigned char)s.addr[8] << 8) | (unsigned char)s.addr[9]; w.dport = ((unsigned char)s.addr[10] << 8) | (unsigned char)s.addr[11];
    } else if (s.fam == 2) {
        w.src = s.addr.substr(0, 16); w.dst = s.addr.substr(16, 16);
        static const unsigned char pre[12] = {0,0,0,0,0,0,0,0,0,0,0xff,0xff};
        w.srcV4 = memcmp(w.src.data(), pre, 12) == 0; w.dstV4 = memcmp(w.dst.data(), pre, 12) == 0;
        w.sport = ((unsigned char)s.addr[32] << 8) | (unsigned char)s.addr[33]; w.dport = ((unsigned char)s.addr[34] << 8) | (unsigned char)s.addr[35];
    } else {
        // AF_UNIX: Squid keeps default-constructed (empty) addresses
        Ip::Address none; struct in6_addr a; none.getInAddr(a);
        w.src.assign((const char *)&a, 16); w.dst = w.src; w.srcV4 = none.isIPv4(); w.dstV4 = w.srcV4; w.sport = w.dport = 0;
    }
    if (s.cmd == 1) w.tlvs = s.tlvs;
    return w;
}

std::string v2Desc(const V2Spec &s) {
    static const char *fam[] = {"UNSPEC", "INET", "INET6", "UNIX"}, *pr[] = {"UNSPEC", "STREAM", "DGRAM"};
    std::string d = std::string("v2 ") + (s.cmd ? "PROXY " : "LOCAL ") + fam[s.fam] + "/" + pr[s.proto] + " addr" + std::to_string(s.addr.size());
    for (auto &t : s.tlvs) { char b[32]; snprintf(b, sizeof b, " tlv(%02x,%zu)", t.type, t.value.size()); d += b; }
    return d;
}

void v2Case(const V2Spec &s) {
    const Bytes h = encodeV2(s);
    const Res w = wantV2(s);
    V::outcome(check(v2Desc(s), h + Payload.substr(0, 5), WellFormed, h.size(), &w, ""));
}

Bytes addrBlock(unsigned fam, unsigned variant) {
    Bytes a;
    if (fam == 1) {
        static const unsigned char v[3][12] = {{1,2,3,4, 5,6,7,8, 0,80, 0x1f,0x90}, {0,0,0,0, 255,255,255,255, 0,0, 255,255}, {127,0,0,1, 10,0,0,255, 255,255, 0,1}};
        a.assign((const char *)v[variant % 3], 12);
    } else if (fam == 2) {
        a.assign(36, '\0');
        if (variant % 3 == 0) { a[0] = 0x20; a[1] = 0x01; a[2] = 0x0d; a[3] = (char)0xb8; a[15] = 1; a[16] = (char)0xfe; a[17] = (char)0x80; a[31] = 2; a[32] = 0; a[33] = 80; a[34] = 1; a[35] = (char)0xbb; }
        else if (variant % 3 == 1) { for (int i = 0; i < 32; ++i) a[i] = (char)0xff; a[32] = a[33] = a[34] = a[35] = (char)0xff; }
        else { a[10] = a[11] = (char)0xff; a[12] = 1; a[13] = 2; a[14] = 3; a[15] = 4; a[15 + 16] = 1; /* src ::ffff:1.2.3.4, dst ::1 */ a[33] = 1; }
    } else if (fam == 3) {
        a.assign(216, '\0');
        const char *p1 = "/var/run/src.sock", *p2 = "/tmp/dst";
        memcpy(&a[0], p1, strlen(p1)); memcpy(&a[108], p2, strlen(p2));
        if (variant % 3 == 1) for (auto &c : a) c = (char)0xff;
    } else {
        a.assign(variant % 3 == 0 ? 0 : variant % 3 == 1 ? 5 : 12, (char)0x5a);
    }
    return a;
}

void body(V::Ctx &ctx)
{
    const bool quick = ctx.quick();
    Mem::Init();

    // ================= v1, well-formed
    const std::vector<const char *> a4 = {"0.0.0.0", "1.2.3.4", "127.0.0.1", "255.255.255.255", "192.168.0.1", "10.0.0.255"};
    const std::vector<const char *> a6 = {"::", "::1", "2001:db8::1", "ffff:ffff:ffff:ffff:ffff:ffff:ffff:ffff", "1:2:3:4:5:6:7:8", "fe80::a:b", "2001:DB8:0:0:0:0:0:A"};
    const std::vector<unsigned> ports = quick ? std::vector<unsigned>{0, 1, 80, 65535, 9999, 10000} : std::vector<unsigned>{0, 1, 5, 80, 443, 9999, 10000, 32768, 65534, 65535};
    for (int fam = 0; fam < 2; ++fam) {
        const auto &as = fam ? a6 : a4;
        for (const char *s : as)
            for (const char *d : as) {
                if (!V::begin_case(std::string("v1:TCP") + (fam ? "6 " : "4 ") + s + " " + d)) continue;
                for (unsigned sp : ports)
                    for (unsigned dp : ports) {
                        const std::string line = std::string("PROXY TCP") + (fam ? "6 " : "4 ") + s + " " + d + " " + std::to_string(sp) + " " + std::to_string(dp) + "\r\n";
                        const Res w = wantV1(s, d, sp, dp);
                        v1Case(line, WellFormed, &w, "");
                    }
                V::end_case();
            }
    }
    // TCP6 with IPv4-mapped IPv6 addresses (what a dual-stack listener reports for IPv4 clients) is well-formed v1 too
    if (V::begin_case("v1:TCP6 with v4-mapped addresses")) {
        for (const char *s : {"::ffff:1.2.3.4", "::ffff:192.0.2.1"})
            for (const char *d : {"::ffff:5.6.7.8", "::ffff:10.0.0.1"}) {
                const std::string line = std::string("PROXY TCP6 ") + s + " " + d + " 1025 443\r\n";
                const Res w = wantV1(s, d, 1025, 443);
                v1Case(line, WellFormed, &w, "TCP6-v4-mapped");
            }
        V::end_case();
    }
    if (V::begin_case("v1:UNKNOWN")) {
        const Res w = wantV1Unknown();
        v1Case("PROXY UNKNOWN\r\n", WellFormed, &w, "");
        v1Case("PROXY UNKNOWN ffff:f...f:ffff ffff:f...f:ffff 65535 65535\r\n", WellFormed, &w, "");
        v1Case("PROXY UNKNOWN \x01\x80\xff junk \n lone LF and \t tab\r\n", WellFormed, &w, "");
        // the longest legal lines: 105, 106, 107 octets including CRLF
        for (size_t total : {105u, 106u, 107u}) {
            std::string line = "PROXY UNKNOWN ";
            line += std::string(total - line.size() - 2, 'x') + "\r\n";
            v1Case(line, WellFormed, &w, "");
        }
        V::end_case();
    }

    // ================= v1, malformed classes that must be rejected
    struct Bad { const char *klass; std::string line; };
    std::vector<Bad> bad;
    const std::string ok4 = "PROXY TCP4 1.2.3.4 5.6.7.8 1000 2000\r\n";
    for (size_t total : {108u, 109u, 150u, 255u, 256u, 300u}) {
        std::string u = "PROXY UNKNOWN "; u += std::string(total - u.size() - 2, 'x') + "\r\n";
        bad.push_back({"v1-line-longer-than-107", u});
        std::string t = "PROXY TCP4 1.2.3.4 5.6.7.8 1000 2000"; t += std::string(total - t.size() - 2, ' ') + "\r\n";
        bad.push_back({"v1-line-longer-than-107", t});
    }
    bad.push_back({"v1-line-longer-than-107", "PROXY UNKNOWN " + std::string(400, 'y')});      // no CRLF at all within 107
    // ports that are not a decimal number in 0..65535
    for (const char *p : {"65536", "65537", "99999", "100000", "4294967296", "4294967376", "18446744073709551616", "99999999999999999999999", "-1", "+80", "", "a", " 80", "x80"}) {
        bad.push_back({"v1-bad-source-port", std::string("PROXY TCP4 1.2.3.4 5.6.7.8 ") + p + " 2000\r\n"});
        bad.push_back({"v1-bad-destination-port", std::string("PROXY TCP4 1.2.3.4 5.6.7.8 1000 ") + p + "\r\n"});
    }
    // digits followed by something else: a bad port in source position, trailing garbage in the (last) destination position
    for (const char *p : {"80x", "0x50", "8o", "80.0", "80 ", "80 81", "80\t", "80\r", "80;", "65535 65535", "80 junk"}) {
        // ("80 81" in source position makes "80 81 2000": a fifth field, i.e. garbage after the destination port again)
        const bool twoNumbers = strchr(p, ' ') && isdigit((unsigned char)strchr(p, ' ')[1]);
        bad.push_back({twoNumbers ? "v1-garbage-after-destination-port" : "v1-bad-source-port", std::string("PROXY TCP4 1.2.3.4 5.6.7.8 ") + p + " 2000\r\n"});
        bad.push_back({"v1-garbage-after-destination-port", std::string("PROXY TCP4 1.2.3.4 5.6.7.8 1000 ") + p + "\r\n"});
    }
    bad.push_back({"v1-missing-fields", "PROXY TCP4 1.2.3.4 5.6.7.8 1000\r\n"});
    bad.push_back({"v1-missing-fields", "PROXY TCP4 1.2.3.4 5.6.7.8\r\n"});
    bad.push_back({"v1-missing-fields", "PROXY TCP4 1.2.3.4\r\n"});
    bad.push_back({"v1-missing-fields", "PROXY TCP4\r\n"});
    bad.push_back({"v1-missing-fields", "PROXY TCP4 \r\n"});
    bad.push_back({"v1-missing-fields", "PROXY \r\n"});
    bad.push_back({"v1-missing-fields", "PROXY\r\n"});
    bad.push_back({"v1-family-mismatch", "PROXY TCP4 ::1 ::2 1000 2000\r\n"});
    bad.push_back({"v1-family-mismatch", "PROXY TCP4 2001:db8::1 2001:db8::2 1000 2000\r\n"});
    bad.push_back({"v1-family-mismatch", "PROXY TCP6 1.2.3.4 5.6.7.8 1000 2000\r\n"});
    bad.push_back({"v1-family-mismatch", "PROXY TCP4 1.2.3.4 ::1 1000 2000\r\n"});
    bad.push_back({"v1-family-mismatch", "PROXY TCP6 ::1 5.6.7.8 1000 2000\r\n"});
    bad.push_back({"v1-family-mismatch", "PROXY TCP6 1.2.3.4 ::1 1000 2000\r\n"});
    for (const char *f : {"TCP5", "TCP", "TCP46", "TCP 4", "tcp4", "UDP4", "unknown", "TCPx", "4", "UNIX"})
        bad.push_back({"v1-bad-protocol-keyword", std::string("PROXY ") + f + " 1.2.3.4 5.6.7.8 1000 2000\r\n"});
    bad.push_back({"v1-bad-separator", "PROXYTCP4 1.2.3.4 5.6.7.8 1000 2000\r\n"});
    bad.push_back({"v1-bad-separator", "PROXY  TCP4 1.2.3.4 5.6.7.8 1000 2000\r\n"});
    bad.push_back({"v1-bad-separator", "PROXY\tTCP4 1.2.3.4 5.6.7.8 1000 2000\r\n"});
    bad.push_back({"v1-bad-separator", "PROXY TCP4  1.2.3.4 5.6.7.8 1000 2000\r\n"});
    bad.push_back({"v1-bad-separator", "PROXY TCP4 1.2.3.4  5.6.7.8 1000 2000\r\n"});
    bad.push_back({"v1-bad-separator", "PROXY TCP4 1.2.3.4 5.6.7.8  1000 2000\r\n"});
    bad.push_back({"v1-bad-separator", "PROXY TCP4 1.2.3.4 5.6.7.8 1000  2000\r\n"});
    bad.push_back({"v1-bad-separator", "PROXY TCP4 1.2.3.4,5.6.7.8 1000 2000\r\n"});
    bad.push_back({"v1-bad-line-end", "PROXY TCP4 1.2.3.4 5.6.7.8 1000 2000\rX\n"});
    bad.push_back({"v1-bad-line-end", "PROXY TCP4 1.2.3.4 5.6.7.8 1000 2000\r\r\n"});
    for (const char *a : {"1.2.3.256", "1.2.3.4.5", "1.2.3.", "256.1.1.1", "a.b.c.d", "", "1.2.3.4:80", "...", "1..2.3"})
        bad.push_back({"v1-bad-address", std::string("PROXY TCP4 ") + a + " 5.6.7.8 1000 2000\r\n"});
    for (const char *a : {":::", "1:2:3:4:5:6:7:8:9", "12345::1", "::g", "1::2::3", "fe80::1%eth0", "[::1]"})
        bad.push_back({"v1-bad-address", std::string("PROXY TCP6 ::1 ") + a + " 1000 2000\r\n"});
    bad.push_back({"bad-magic", "PROXZ TCP4 1.2.3.4 5.6.7.8 1000 2000\r\n"});
    bad.push_back({"bad-magic", "proxy TCP4 1.2.3.4 5.6.7.8 1000 2000\r\n"});
    bad.push_back({"bad-magic", " PROXY TCP4 1.2.3.4 5.6.7.8 1000 2000\r\n"});
    bad.push_back({"bad-magic", "GET / HTTP/1.1\r\nHost: example.com\r\n\r\n"});
    for (auto &b : bad) {
        if (!V::begin_case(std::string("v1bad:") + b.klass + ":" + V::esc(b.line.substr(0, 70)) + (b.line.size() > 70 ? "...len" + std::to_string(b.line.size()) : ""))) continue;
        v1Case(b.line, MustReject, nullptr, b.klass);
        V::end_case();
    }
    // lenient spellings: acceptance is counted, not judged; if accepted the prefix oracle still applies
    struct Len { const char *klass; std::string line; };
    std::vector<Len> len = {
        {"port-leading-zeros", "PROXY TCP4 1.2.3.4 5.6.7.8 080 00\r\n"}, {"port-leading-zeros", "PROXY TCP4 1.2.3.4 5.6.7.8 0000000000000000000080 065535\r\n"},
        {"address-short-form", "PROXY TCP4 1.2.3 5.6.7.8 1 2\r\n"}, {"address-short-form", "PROXY TCP4 16909060 5.6.7.8 1 2\r\n"}, {"address-leading-zeros", "PROXY TCP4 001.002.003.004 5.6.7.8 1 2\r\n"},
        {"v4-mapped-under-TCP4", "PROXY TCP4 ::ffff:1.2.3.4 ::ffff:5.6.7.8 1 2\r\n"}, {"address-upper-hex", "PROXY TCP6 ABCD::1 ::F 1 2\r\n"},
        {"lf-inside-unknown", "PROXY UNKNOWN a\nb\r\n"},
    };
    for (auto &l : len) {
        if (!V::begin_case(std::string("v1lenient:") + l.klass + ":" + V::esc(l.line))) continue;
        v1Case(l.line, Lenient, nullptr, l.klass);
        V::end_case();
    }

    // ================= v2, well-formed: command x family x protocol x address variant x TLV list
    std::vector<Tlv> tlvPool;
    const std::vector<unsigned> ttypes = quick ? std::vector<unsigned>{0x01, 0x04, 0x20, 0xEE, 0xFF} : std::vector<unsigned>{0x00, 0x01, 0x04, 0x20, 0xEE, 0xFF};
    const std::vector<size_t> tlens = quick ? std::vector<size_t>{0, 1, 255} : std::vector<size_t>{0, 1, 2, 255, 256};
    for (unsigned t : ttypes) for (size_t l : tlens) { Bytes v(l, '\0'); for (size_t i = 0; i < l; ++i) v[i] = (char)(i * 7 + t); tlvPool.push_back({t, v}); }
    const int maxTlvs = quick ? 2 : 3;
    const size_t stride3 = 5;        // thorough: the third TLV walks through the pool with this stride (every TLV appears in third place)
    for (unsigned cmd = 0; cmd < 2; ++cmd)
        for (unsigned fam = 0; fam < 4; ++fam)
            for (unsigned proto = 0; proto < 3; ++proto)
                for (unsigned var = 0; var < 3; ++var) {
                    V2Spec s{cmd, fam, proto, addrBlock(fam, var), {}};
                    if (!V::begin_case(v2Desc(s) + " variant " + std::to_string(var) + " x TLV lists")) continue;
                    v2Case(s);
                    for (size_t i = 0; i < tlvPool.size(); ++i) {
                        s.tlvs = {tlvPool[i]};
                        v2Case(s);
                        for (size_t j = 0; j < tlvPool.size(); ++j) {
                            s.tlvs = {tlvPool[i], tlvPool[j]};
                            v2Case(s);
                            if (maxTlvs >= 3 && var == 0)
                                for (size_t k = (i + j) % stride3; k < tlvPool.size(); k += stride3) { s.tlvs = {tlvPool[i], tlvPool[j], tlvPool[k]}; v2Case(s); }
                        }
                    }
                    V::end_case();
                }
    // the largest header: a TLV filling the 16-bit length
    if (V::begin_case("v2:maximal length 65535")) {
        V2Spec s{1, 1, 1, addrBlock(1, 0), {}};
        Bytes v(65535 - 12 - 3, 'm');
        s.tlvs = {{0xEA, v}};
        const Bytes h = encodeV2(s);
        const Res w = wantV2(s);
        // all prefixes of a 64 KB header would be 2^31 octets of work: every prefix up to 600 and the last 300, plus each 997th
        const Res full = parse(h);
        Res ww = w; ww.kind = Res::Parsed; ww.size = h.size();
        if (!full.same(ww)) V::failKey("wellformed:2.0:maximal", "maximal v2 header: got " + full.str() + ", expected " + ww.str());
        for (size_t l = 0; l < h.size(); l = (l < 600 || l + 300 >= h.size()) ? l + 1 : std::min(l + 997, h.size() - 300)) {
            const Res r = parse(h.substr(0, l));
            if (r.kind != Res::NeedMore) { V::failKey("prefix-shorter-than-header-accepted", "maximal v2 header: prefix " + std::to_string(l) + " gives " + r.str()); break; }
        }
        V::outcome("wellformed-v2.0-parsed");
        V::end_case();
    }

    // ================= v2, malformed classes
    {
        V2Spec base{1, 1, 1, addrBlock(1, 0), {{0x04, Bytes("\x00\x01", 2)}}};
        const Bytes good = encodeV2(base);
        std::vector<std::pair<std::string, Bytes>> v2bad;
        for (size_t i = 0; i < 12; ++i)
            for (unsigned char flip : {0x01, 0x80, 0xFF}) { Bytes b = good; b[i] = (char)(b[i] ^ flip); v2bad.push_back({"bad-magic", b}); }
        for (unsigned ver : {0u, 1u, 3u, 15u}) { Bytes b = good; b[12] = (char)((ver << 4) | 1); v2bad.push_back({"v2-bad-version", b}); }
        for (unsigned cmd : {2u, 3u, 15u}) { Bytes b = good; b[12] = (char)(0x20 | cmd); v2bad.push_back({"v2-bad-command", b}); }
        for (unsigned fam : {4u, 8u, 15u}) { Bytes b = good; b[13] = (char)((fam << 4) | 1); v2bad.push_back({"v2-bad-family", b}); }
        for (unsigned pr : {3u, 8u, 15u}) { Bytes b = good; b[13] = (char)(0x10 | pr); v2bad.push_back({"v2-bad-protocol", b}); }
        // declared length shorter than the address block of the family
        for (unsigned fam = 1; fam <= 3; ++fam)
            for (unsigned cmd = 0; cmd < 2; ++cmd) {
                const size_t need = fam == 1 ? 12 : fam == 2 ? 36 : 216;
                for (size_t l : {(size_t)0, (size_t)1, need / 2, need - 1}) {
                    Bytes b = Sig; b += (char)(0x20 | cmd); b += (char)((fam << 4) | 1); b += (char)(l >> 8); b += (char)(l & 255); b += Bytes(l, '\x11');
                    v2bad.push_back({"v2-length-shorter-than-address-block", b + Payload});
                }
            }
        // TLV running over the declared header length / truncated TLV header
        for (size_t cut = 1; cut <= 4; ++cut) {
            V2Spec s{1, 1, 1, addrBlock(1, 0), {{0x01, Bytes("abcde", 5)}}};
            Bytes b = encodeV2(s);
            const size_t l = 12 + 3 + 5 - cut;          // the length field excludes the last `cut` octets of the TLV
            b[14] = (char)(l >> 8); b[15] = (char)(l & 255);
            v2bad.push_back({"v2-tlv-overruns-header", b + Payload});
        }
        for (size_t extra = 1; extra <= 2; ++extra) {
            Bytes b = Sig; b += (char)0x21; b += (char)0x11; const size_t l = 12 + extra; b += (char)(l >> 8); b += (char)(l & 255); b += addrBlock(1, 0); b += Bytes(extra, '\x04');
            v2bad.push_back({"v2-truncated-tlv-header", b + Payload});
        }
        { V2Spec s{1, 2, 2, addrBlock(2, 0), {{0x20, Bytes(10, 'x')}}}; Bytes b = encodeV2(s); b[16 + 36 + 1] = (char)0xFF; b[16 + 36 + 2] = (char)0xFF; v2bad.push_back({"v2-tlv-overruns-header", b + Payload}); }
        size_t n = 0;
        for (auto &b : v2bad) {
            ++n;
            if (!V::begin_case("v2bad:" + b.first + "#" + std::to_string(n))) continue;
            V::outcome(check("v2 malformed (" + b.first + ")", b.second, MustReject, 0, nullptr, b.first));
            V::end_case();
        }
    }
    V::count("parse_calls", nParses);
    V::count("prefixes_need_more", nPrefixNeedMore);
    V::count("prefixes_same_result", nPrefixSame);
    V::count("prefixes_rejected", nPrefixRejected);
}

} // namespace

VHARNESS_MAIN(body)
