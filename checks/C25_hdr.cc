// C25 — HttpHeader::parse / packInto vs an independent reference field extractor (E1).
//
// Real code: src/HttpHeader.cc (HttpHeader::parse incl. Isolate, HttpHeaderEntry::parse, packInto),
// http/ContentLengthInterpreter.cc, HttpHeaderTools.cc, mime_header.cc (headersEnd), String, MemBuf,
// as linked into tests/testHttpRequest.
#include "squid.h"
#include "HttpHeader.h"
#include "http/ContentLengthInterpreter.h"
#include "mem/forward.h"
#include "MemBuf.h"
#include "SquidConfig.h"

#include "vharness.h"

namespace {

typedef unsigned char uc;

inline bool isWs(uc c) { return c == ' ' || c == '\t' || c == '\r' || c == '\n' || c == '\v' || c == '\f'; }
inline bool isOws(uc c) { return c == ' ' || c == '\t'; }

std::string lower(std::string s) { for (char &c : s) c = tolower((uc)c); return s; }

std::string trimBy(const std::string &s, bool (*pred)(uc))
{
    size_t a = 0, b = s.size();
    while (a < b && pred(s[a])) ++a;
    while (b > a && pred(s[b-1])) --b;
    return s.substr(a, b - a);
}

// ------------------------------------------------------------------------------------------------
// Reference: what are "the block's name/value pairs", and which blocks must be rejected.
// Written from the property statement and RFC 9112 section 5, not from HttpHeader.cc.
// ------------------------------------------------------------------------------------------------
struct RefField {
    std::string name;        // bytes before the first colon, trailing whitespace removed
    std::string rawValue;    // bytes after the colon up to the end of the field's last line (untrimmed)
    std::string rawValueCrAsSp; // same, with bare CRs (not those of fold CRLFs) replaced by SP
    bool contentLength = false;
};

struct RefBlock {
    bool complete = false;   // a blank line was found
    size_t size = 0;         // bytes up to and including the blank line
    std::string mustReject;  // non-empty: a class the statement says is never accepted
    bool nameless = false;   // some line group has no colon / an empty name: no pair is defined for it
    bool wsBeforeColonInReply = false;
    bool bareCr = false, folded = false;
    std::vector<RefField> fields;
};

RefBlock refParse(const std::string &buf, const bool isRequest)
{
    RefBlock rb;
    struct Line { size_t start, contentEnd; };
    std::vector<Line> lines;
    size_t pos = 0;
    for (;;) {
        const size_t lf = buf.find('\n', pos);
        if (lf == std::string::npos) return rb; // incomplete
        size_t contentEnd = lf;
        if (contentEnd > pos && buf[contentEnd-1] == '\r') --contentEnd;
        if (contentEnd == pos) { rb.complete = true; rb.size = lf + 1; break; } // "" or CR: the blank line
        lines.push_back({pos, contentEnd});
        // a request line made only of CRs (CR+ CR LF)
        if (isRequest && contentEnd < lf) {
            bool crOnly = true;
            for (size_t i = pos; i < contentEnd; ++i) if (buf[i] != '\r') crOnly = false;
            if (crOnly && rb.mustReject.empty()) rb.mustReject = "cr-only-request-line";
        }
        pos = lf + 1;
    }
    const size_t blockEnd = pos;
    if (buf.find('\0') < blockEnd && rb.mustReject.empty()) rb.mustReject = "nul-byte";

    for (size_t i = 0; i < lines.size();) {
        size_t j = i + 1;
        while (j < lines.size() && (buf[lines[j].start] == ' ' || buf[lines[j].start] == '\t')) ++j;
        // field = lines i..j-1
        const size_t fs = lines[i].start, fe = lines[j-1].contentEnd;
        const bool folded = j - i > 1;
        bool bareCr = false;
        std::string text = buf.substr(fs, fe - fs), textSp = text;
        for (size_t l = i; l < j; ++l)
            for (size_t k = lines[l].start; k < lines[l].contentEnd; ++k)
                if (buf[k] == '\r') { bareCr = true; textSp[k - fs] = ' '; }
        if (folded) rb.folded = true;
        if (bareCr) rb.bareCr = true;
        i = j;
        const size_t colon = text.find(':');
        if (colon == std::string::npos || colon == 0) { rb.nameless = true; continue; }
        RefField f;
        f.name = text.substr(0, colon);
        bool wsBeforeColon = false;
        while (!f.name.empty() && isWs(f.name.back())) { f.name.pop_back(); wsBeforeColon = true; }
        if (f.name.empty()) { rb.nameless = true; continue; }
        if (wsBeforeColon) {
            // RFC 9112 5.1: a server MUST reject such a request; a proxy MUST remove the whitespace from a response
            if (isRequest) { if (rb.mustReject.empty()) rb.mustReject = "whitespace-before-colon"; }
            else rb.wsBeforeColonInReply = true;
        }
        const std::string lname = lower(f.name);
        f.contentLength = lname == "content-length";
        if (f.contentLength || lname == "transfer-encoding") {
            if (folded && rb.mustReject.empty()) rb.mustReject = "obs-fold-in-framing-field";
            if (bareCr && rb.mustReject.empty()) rb.mustReject = "bare-cr-in-framing-field";
        }
        f.rawValue = text.substr(colon + 1);
        f.rawValueCrAsSp = textSp.substr(colon + 1);
        rb.fields.push_back(f);
    }
    return rb;
}

// ------------------------------------------------------------------------------------------------
struct Stored { int id; std::string name, value; };

std::vector<Stored> storedOf(const HttpHeader &h)
{
    std::vector<Stored> v;
    HttpHeaderPos pos = HttpHeaderInitPos;
    while (const HttpHeaderEntry *e = h.getEntry(&pos))
        v.push_back({(int)e->id, std::string(e->name.rawContent(), e->name.length()), std::string(e->value.rawBuf() ? e->value.rawBuf() : "", e->value.size())});
    return v;
}

std::string show(const std::vector<Stored> &v)
{
    std::string s = "[";
    for (const auto &e : v) s += "(" + V::esc(e.name) + ": " + V::esc(e.value) + ")";
    return s + "]";
}

uint64_t nFoldRemnant = 0, nParse = 0, nAccepted = 0, nRejected = 0, nAcceptedFields = 0, nAcceptedFolded = 0, nAcceptedBareCr = 0, nMustRejectSeen = 0,
         nRepack = 0, nWsReplyStripped = 0, nNeedMore = 0;

struct RunResult { bool accepted = false; bool withFields = false; std::string mustReject; };

// one block, one owner, one parser mode
RunResult checkBlock(const std::string &block, const bool isRequest, const int relaxed, const size_t contextFields, const std::string &cfg)
{
    RunResult rr;
    Config.onoff.relaxed_header_parser = relaxed;
    const RefBlock ref = refParse(block, isRequest);
    rr.mustReject = ref.mustReject;

    std::vector<char> buf(block.begin(), block.end()); // parse() writes into its input in relaxed mode
    buf.push_back('\0');
    HttpHeader hdr(isRequest ? hoRequest : hoReply);
    Http::ContentLengthInterpreter clen;
    size_t hdrSize = 0xdead;
    ++nParse;
    const int rc = hdr.parse(buf.data(), block.size(), false, hdrSize, clen);

    if (!ref.complete) {
        if (rc != 0) V::fail(cfg + ": no blank line in the input but parse() returned " + std::to_string(rc));
        ++nNeedMore;
        return rr;
    }
    if (rc == 0) { V::fail(cfg + ": parse() asked for more data although the block is terminated by a blank line"); return rr; }
    if (rc < 0) { ++nRejected; if (!ref.mustReject.empty()) ++nMustRejectSeen; return rr; }

    // ---- accepted
    ++nAccepted;
    rr.accepted = true;
    if (!ref.mustReject.empty()) {
        V::fail(cfg + ": accepted a block of the never-accepted class '" + ref.mustReject + "', stored " + show(storedOf(hdr)));
        return rr;
    }
    if (hdrSize != ref.size) { V::fail(cfg + ": header block size " + std::to_string(hdrSize) + " != " + std::to_string(ref.size) + " (up to and including the first blank line)"); return rr; }

    const std::vector<Stored> all = storedOf(hdr);
    std::vector<Stored> got;
    for (const auto &e : all) if (e.id != (int)Http::HdrType::CONTENT_LENGTH) got.push_back(e); // Content-Length sanitising is C26's subject
    std::vector<const RefField *> want;
    for (const auto &f : ref.fields) if (!f.contentLength) want.push_back(&f);
    bool same = got.size() == want.size();
    std::string why;
    for (size_t i = 0; same && i < got.size(); ++i) {
        if (lower(got[i].name) != lower(want[i]->name)) { same = false; why = "name of field " + std::to_string(i); break; }
        const std::string &raw = relaxed ? want[i]->rawValueCrAsSp : want[i]->rawValue;
        if (got[i].value != trimBy(raw, isOws) && got[i].value != trimBy(raw, isWs)) { same = false; why = "value of field " + std::to_string(i) + " (block has '" + V::esc(trimBy(raw, isOws)) + "')"; }
    }
    if (!same) {
        std::string w = "[";
        for (const auto *f : want) w += "(" + V::esc(f->name) + ": " + V::esc(trimBy(f->rawValue, isOws)) + ")";
        V::fail(cfg + ": stored fields " + show(got) + " are not the block's name/value pairs " + w + "] " + why);
        return rr;
    }
    rr.withFields = got.size() > contextFields; // the token string itself contributed a stored field
    if (rr.withFields) ++nAcceptedFields;
    if (ref.folded) ++nAcceptedFolded;
    if (ref.bareCr) ++nAcceptedBareCr;
    if (ref.wsBeforeColonInReply) ++nWsReplyStripped;

    // ---- pack and re-parse: must yield the same fields
    MemBuf mb;
    mb.init();
    hdr.packInto(&mb);
    mb.append("\r\n", 2);
    std::vector<char> buf2(mb.content(), mb.content() + mb.contentSize());
    buf2.push_back('\0');
    HttpHeader hdr2(isRequest ? hoRequest : hoReply);
    Http::ContentLengthInterpreter clen2;
    size_t hdrSize2 = 0;
    ++nParse; ++nRepack;
    const int rc2 = hdr2.parse(buf2.data(), buf2.size() - 1, false, hdrSize2, clen2);
    const std::string packed(buf2.data(), buf2.size() - 1);
    if (rc2 != 1) { V::fail(cfg + ": packed fields '" + V::esc(packed) + "' are not accepted when parsed again (rc=" + std::to_string(rc2) + ")"); return rr; }
    const std::vector<Stored> again = storedOf(hdr2);
    bool eq = again.size() == all.size() && hdrSize2 == packed.size();
    for (size_t i = 0; eq && i < all.size(); ++i)
        eq = again[i].id == all[i].id && again[i].name == all[i].name && again[i].value == all[i].value;
    if (!eq) {
        const std::string msg = cfg + ": pack -> parse changed the fields: " + show(all) + " became " + show(again) + " via '" + V::esc(packed) + "'";
        bool endsWithLineTerminator = false;
        for (const auto &e : all) if (!e.value.empty() && e.value.back() == '\n') endsWithLineTerminator = true;
        if (endsWithLineTerminator) {
            // one stable key for this input class (see known_findings.d/C25.json); a few instances per shard are enough
            if (++nFoldRemnant <= 3)
                V::failKey("obs-fold-blank-continuation:value-keeps-line-terminator",
                           msg + ": the stored value ends with the line terminator of an obs-fold whose continuation line is blank, so packInto() emits an empty line inside the header block");
        } else
            V::fail(msg);
    }
    return rr;
}

const std::vector<std::string> Tokens = {
    "A", "Content-Length", "Transfer-Encoding", ":", " ", "\t", "\r\n", "\n", "\r", std::string(1, '\0'), "v", "1", "chunked", ","
};

struct Context { const char *pre, *post; };
const Context Contexts[] = {{"", ""}, {"X: y\r\n", ""}, {"", "\r\nX: y"}};
const char *const Terminators[] = {"\r\n\r\n", "\n\n"};

void tokenCase(const std::string &s)
{
    if (!V::begin_case("t:" + V::esc(s))) return;
    bool anyFields = false, anyAccepted = false;
    std::string must;
    const uint64_t before = V::S().nfail;
    for (const Context &c : Contexts)
        for (const char *term : Terminators)
            for (int isRequest = 1; isRequest >= 0; --isRequest)
                for (int relaxed = 0; relaxed < 2; ++relaxed) {
                    if (V::S().nfail != before) break; // one report per case is enough
                    const std::string block = std::string(c.pre) + s + c.post + term;
                    const std::string cfg = std::string(isRequest ? "request" : "reply") + " relaxed=" + (relaxed ? "on" : "off") + " block='" + V::esc(block) + "'";
                    const RunResult r = checkBlock(block, isRequest, relaxed, (c.pre[0] || c.post[0]) ? 1 : 0, cfg);
                    anyAccepted = anyAccepted || r.accepted;
                    anyFields = anyFields || r.withFields;
                    if (must.empty()) must = r.mustReject;
                }
    Config.onoff.relaxed_header_parser = 0;
    if (!must.empty()) V::outcome("must-reject:" + must);
    else if (anyFields) V::outcome("accepted-with-fields");
    else if (anyAccepted) V::outcome("accepted-empty");
    else V::outcome("rejected-unspecified");
    V::end_case();
}

// every token string once: "\r" followed by "\n" has the same bytes as the CRLF token and is skipped
void walk(std::string &s, int depth, int maxDepth, const std::string *last)
{
    tokenCase(s);
    if (depth == maxDepth) return;
    for (const std::string &t : Tokens) {
        if (last && *last == "\r" && t == "\n") continue;
        const size_t len = s.size();
        s += t;
        walk(s, depth + 1, maxDepth, &t);
        s.resize(len);
    }
}

void body(V::Ctx &ctx)
{
    Mem::Init();
    httpHeaderInitModule();
    std::string s;
    walk(s, 0, ctx.quick() ? 5 : 6, nullptr);

    // a few structured blocks beyond the token bound (several fields, folds in the middle, framing last)
    const char *const extra[] = {
        "Host: a\r\nAccept: */*\r\nX-Long: 1,\r\n\t2,\r\n 3\r\nConnection: close",
        "A: 1\r\nTransfer-Encoding: chunked\r\nContent-Length: 1",
        "A: 1\r\nB: 2\r\nTransfer-Encoding:\r\n chunked",
        "A: 1\r\nB: 2\r\nContent-Length: 1\r\n\t",
        "A: 1\r\nB: 2\r\nContent-Length\r\n: 1",
        "A: 1\r\nB\r: 2\r\nContent-Length: 1\r5",
        "A: 1\r\nB: 2\r\nC : 3",
        "A: 1\r\n\r\r\nB: 2",
        "A: 1\r\nB: 2\r\ncontent-length: 0\r\ncontent-length: 0\r\nC: 3",
    };
    for (const char *e : extra) tokenCase(e);

    V::count("parse_calls", nParse);
    V::count("accepted", nAccepted);
    V::count("rejected", nRejected);
    V::count("accepted_with_fields", nAcceptedFields);
    V::count("accepted_folded", nAcceptedFolded);
    V::count("accepted_bare_cr", nAcceptedBareCr);
    V::count("must_reject_rejected", nMustRejectSeen);
    V::count("repack_roundtrips", nRepack);
    V::count("reply_ws_before_colon_accepted", nWsReplyStripped);
    V::count("need_more", nNeedMore);
    V::count("known_class_fold_remnant_hits", nFoldRemnant);
}

} // namespace

VHARNESS_MAIN(body)
