"""C30 URI parsing is canonical and validates authority — E1, exhaustive product of URI components vs a reference authority splitter."""
from vverif import seq
from vverif.core import Result, HarnessError

LEVEL = 'exploration'
RULE = ('the full product scheme-prefix x userinfo x host x port x path x method: quick 6 x 3 x 12 x 14 x 6 x {GET, CONNECT}; '
        'thorough 10 x 5 x 21 x 24 x 13 x {GET, POST, OPTIONS, TRACE, CONNECT} x check_hostnames {off, on} (hosts: names, upper '
        'case, empty / leading / trailing / double dots, IPv4, bracketed and unbracketed IPv6, missing bracket, underscore, '
        'percent; ports: absent, empty, 0, 1, 80, 65535, 65536, signed, leading zeros, trailing garbage, 11 nines, 2^32+80, 2^64+k, '
        'hex), plus 14 odd targets x 4 methods. One case = one scheme+userinfo+host+port with all paths / methods inside. Each '
        'target goes through AnyP::Uri::parse; for every accepted absolute URI / CONNECT authority the host, port and the '
        're-parse of absolute() / authority(true) are checked against the written text. non-trivial = cases in which at least '
        'one form was accepted (and fully checked) plus cases rejected with a well-formed scheme and non-empty host (port or host '
        'validation decided)')
ASSUME = ['src/anyp/Uri.cc is recompiled from the scratch copy of the current tree with -fsanitize=address,undefined',
          'squid.conf defaults: check_hostnames off (thorough: also on), allow_underscore on, uri_whitespace strip, no append_domain',
          'the written port of an authority with several unbracketed colons, an unclosed bracket or text between "]" and ":" is '
          'undefined: only the range 1..65535 is asserted there',
          'an empty written port ("a:") may be rejected or mean the scheme default; a host with a trailing dot must come out without it',
          'scheme defaults the oracle knows (IANA): http 80, https 443, ftp 21, whois 43; schemes without a default need a written port',
          'targets without "://" given to non-CONNECT methods ("*", relative forms, urn:) are outside the statement: memory oracle only']
NONTRIVIAL = ['some-forms-accepted', 'all-forms-accepted']


def _build(ctx):
    return seq.build(ctx, 'tests/testURL', ['C30_uri.cc'], tree_sources=['anyp/Uri.cc'],
                     tree_flags=['-fsanitize=undefined', '-fno-sanitize-recover=undefined'])


def run(ctx):
    exe = _build(ctx)
    m = seq.run(ctx, exe)
    cov = seq.coverage_from(m, RULE, nontrivial_classes=NONTRIVIAL, min_classes=2)
    c = m['counters']
    # (the guards describe a clean run: with failures or sanitizer aborts the counters are cut short)
    if not m['deadline_hit'] and not m['failures'] and not m['crashes']:
        for k, n in (('accepted', 1000), ('rejected', 1000), ('canonical_reparsed', 1000), ('bad_port_rejected', 100),
                     ('written_port_compared', 100), ('default_port_compared', 100), ('host_lowered', 50)):
            if c.get(k, 0) < n:
                raise HarnessError('vacuity guard: counter %s = %d' % (k, c.get(k, 0)))
    for k in ('parse_calls', 'accepted', 'rejected', 'canonical_reparsed', 'bad_port_rejected'):
        cov[k] = c.get(k, 0)
    return Result(LEVEL, cov, seq.violations_from(m), ASSUME)


def replay(ctx, data):
    exe = _build(ctx)
    m = seq.replay_case(ctx, exe, data['case'])
    m.setdefault('deadline_hit', False)
    return Result(LEVEL, {}, seq.violations_from(m), ASSUME)
