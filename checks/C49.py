"""C49 In-memory object data returns exactly what was written — E1, explicit-state BFS over mem_hdr operation sequences."""
from vverif import seq
from vverif.core import Result, HarnessError

LEVEL = 'model_checking'
RULE = ('one real mem_hdr vs an interval model; every sequence of <= D operations (D = 4 quick, 5 thorough) from: write(off,len) with '
        'off in {0,1,4095,4096,4097,8192,12288} x len in {1,2,4095,4096,4097} (only when it does not overlap present data), '
        'append at endOffset (4 lengths), freeDataUpto(x) for 10 targets incl. end-1/end/end+4096, copy(off,len) from '
        '{lowest,0,4096,end-1} x {1,8192}, hasContigousContentRange for 4 ranges; after every step lowestOffset/endOffset are '
        'compared with the model and on every distinct state every page/run boundary +-1 is probed for presence, copied with 5 '
        'lengths and used as both ends of contiguity queries')
ASSUME = ['stmem.o/mem_node.o/libmem of the scratch copy of the current tree (ASan, mem_hdr_test link set); memory pooling is '
          'switched off (idle limit 0) so freed nodes go back to malloc and use-after-free is visible to ASan',
          'canonical state = splay tree in pre-order with shape, node offset/length/write_pending/data bytes, inmem_hi, element '
          'count, write counter mod 3; dropped: pool meters, the global splayLastResult (written before every read), heap addresses',
          'after freeDataUpto(x) the model forgets everything below the returned lowest offset; the oracle requires that this '
          'offset is a written byte and not above the first written byte >= x, and later probes require that everything else is '
          'still there', 'reads start only at present offsets and writes never overlap present data (anything else is fatal by design)']


def _build(ctx):
    # stmem.o / mem_node.o are plain objects of src/ on the mem_hdr_test link line: nothing in test-suite/ rebuilds them
    ctx.vbuild('src:stmem.o mem_node.o')
    return seq.build(ctx, 'mem_hdr_test', ['C49_memhdr.cc'], subdir='test-suite')


def _result(ctx, m):
    c = m['counters']
    viol = seq.violations_from(m)
    harness = [v for v in viol if v.key.startswith('HARNESS:')]
    if harness:
        raise HarnessError('%s: %s' % (harness[0].key, harness[0].what[:500]))
    depth = 0
    while c.get('shards_done_depth_%d' % (depth + 1), 0) == ctx.ncpu:
        depth += 1
    if not viol:
        for k, least in (('states_with_2plus_nodes', 100), ('states_sparse', 100), ('states_with_branching_tree', 10),
                         ('frees_that_removed_data', 100), ('short_reads_at_a_gap', 100), ('contig_true', 100), ('contig_false', 100)):
            if c.get(k, 0) < least:
                raise HarnessError('vacuity guard: %s=%s < %s' % (k, c.get(k, 0), least))
        if depth < 2 and not m['deadline_hit']:
            raise HarnessError('no depth completed')
    states = c.get('states_interior', 0) + c.get('states_leaf', 0)
    trans = c.get('transitions_interior', 0) + c.get('transitions_partitioned', 0)
    cov = {
        'states': states, 'transitions': trans, 'traces_validated_against_impl': trans,
        'states_interior_distinct': c.get('states_interior', 0),
        'states_leaf_distinct_per_shard_sum': c.get('states_leaf', 0),
        'states_observed_with_full_battery': c.get('states_observed', 0),
        'bound_completed': 'all sequences of <= %d operations from the alphabet of %d operations' % (depth, c.get('ops_in_alphabet', 0)),
        'depth_completed': depth,
        'rule': RULE, 'samples': [s for s in m['samples'] if s != 'bfs'][:8] or m['samples'],
        'exhaustive': not m['deadline_hit'], 'deadline_hit': m['deadline_hit'],
        'counters': c, 'outcome_classes': m['outcomes'],
    }
    return Result(LEVEL, cov, viol, ASSUME)


def run(ctx):
    exe = _build(ctx)
    return _result(ctx, seq.run(ctx, exe))


def replay(ctx, data):
    exe = _build(ctx)
    m = seq.replay_case(ctx, exe, data['case'])
    m.setdefault('deadline_hit', False)
    viol = seq.violations_from(m)
    if not viol and not m['outcomes']:
        raise HarnessError('replay descriptor did not run: %r' % data['case'])
    return Result(LEVEL, {}, viol, ASSUME)
