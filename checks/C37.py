"""C37 DNS message decoding is memory-safe and faithful — E1, reference encoder x truncations x single-octet mutations."""
from vverif import seq
from vverif.core import Result, HarnessError

LEVEL = 'exploration'
RULE = ('a reference encoder enumerates replies: question names of up to 3 labels over {a, bc, 63-octet label} (40 names), '
        'answer lists over 5 record types {A, AAAA, PTR, CNAME, TXT} x 4 compression styles {uncompressed, pointer, pointer to '
        'pointer, label+pointer} (also inside PTR/CNAME RDATA), header variants (flags, rcode, extra NS+OPT sections): quick = 1 '
        'header x (names <= 2 labels x lists <= 2, 3-label names x lists <= 1) + 2 headers x lists <= 1; thorough = 4 headers x lists <= 2 for all names, '
        'lists of exactly 3 for names <= 1 label x 2 headers, 2 more headers x lists <= 1; plus 18 hand-made seeds (names at the 253/254/255-octet limit, pointer loops, '
        'forward pointers, over-long names, count/length lies).  Every message is decoded intact, at every truncation and with '
        'every octet set to {00, FF, C0, 3F, 0C, +1, own offset-1}; a strict reference decoder classifies each datagram and on '
        'well-formed ones Squid\'s header, question and answer records must equal the reference; packed queries '
        '(rfc1035BuildAQuery/PTRQuery, rfc3596Build*) must decode to themselves.  non-trivial = datagrams the reference calls '
        'well-formed + malformed datagrams Squid still decoded + packed queries')
ASSUME = ['src/dns/rfc1035.cc, rfc2671.cc and rfc3596.cc are recompiled from the scratch copy of the current tree with '
          '-fsanitize=address,undefined; every datagram lives in an exact-size heap block; a decoder that does not return within '
          'the per-case alarm is killed and reported as a crash',
          'rfc1035MessageUnpack documents that it rejects qdcount != 1 and stops at a non-zero rcode (header and question are '
          'still compared); CNAME RDATA is compared as raw octets (Squid does not expand it); a name ending in a pointer to the '
          'root label may carry one trailing dot; ANCOUNT values >= 0x0C00 (multi-megabyte record arrays) are only produced for '
          'a few answer-less messages and the seeds; UBSan\'s nonnull-attribute check is off for the tree sources because rfc1035RRPack '
          'calls memcpy(dst, nullptr, 0) for the OPT record (no out-of-bounds access, not part of the statement)',
          'Config.dns.packet_max is provided through zero-filled storage (C37_config.cc), not a constructed SquidConfig']


def _build(ctx):
    return seq.build(ctx, 'tests/testMath', ['C37_dns.cc', 'C37_config.cc'],
                     tree_sources=['dns/rfc1035.cc', 'dns/rfc2671.cc', 'dns/rfc3596.cc'],
                     tree_flags=['-fsanitize=undefined', '-fno-sanitize-recover=undefined', '-fno-sanitize=nonnull-attribute'], ubsan=True)


def run(ctx):
    exe = _build(ctx)
    m = seq.run(ctx, exe)
    oc = m['outcomes']
    nontriv = [k for k in oc if ':wellformed:' in k or k.endswith('malformed:decoded') or k.startswith('packed:')]
    cov = seq.coverage_from(m, RULE, nontrivial_classes=nontriv, min_classes=8)
    cov.update({k: m['counters'].get(k, 0) for k in ('unpack_calls', 'wellformed_datagrams', 'field_by_field_comparisons',
                                                      'packed_queries', 'names_with_trailing_root_dot')})
    viol = seq.violations_from(m)
    if not m['deadline_hit'] and not m['crashes']:     # classes are assigned by the reference decoder, i.e. independent of violations
        def need(k, n):
            if oc.get(k, 0) < n:
                raise HarnessError('vacuity guard: outcome class %s seen %d times (need %d): %r' % (k, oc.get(k, 0), n, oc))
        need('intact:wellformed:answers', 1000)
        need('intact:wellformed:rcode', 100)
        need('mutated:wellformed:answers', 10000)
        need('mutated:malformed:error', 10000)
        need('truncated:malformed:error', 10000)
        need('intact:malformed:error', 5)
        if cov['packed_queries'] < 500:
            raise HarnessError('vacuity guard: only %d packed queries' % cov['packed_queries'])
    return Result(LEVEL, cov, viol, ASSUME)


def replay(ctx, data):
    exe = _build(ctx)
    m = seq.replay_case(ctx, exe, data['case'])
    m.setdefault('deadline_hit', False)
    return Result(LEVEL, {}, seq.violations_from(m), ASSUME)
