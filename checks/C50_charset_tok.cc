// C50 — CharacterSet algebra and Tokenizer run semantics vs bitset / std::string references (E1).
// Real code: src/base/CharacterSet.cc, src/parser/Tokenizer.cc of the current tree (testTokenizer link set).
#include "squid.h"
#include "base/CharacterSet.h"
#include "base/TextException.h"
#include "parser/Tokenizer.h"
#include "sbuf/SBuf.h"

#include "vharness.h"

#include <bitset>

namespace {

typedef std::bitset<256> Bits;

struct NamedSet {
    std::string name;
    CharacterSet real;
    Bits ref;
};

std::vector<NamedSet> Family;

void addFamily(const std::string &name, const CharacterSet &real, const Bits &ref)
{
    NamedSet n = {name, real, ref};
    Family.push_back(n);
}

Bits rangeBits(int lo, int hi)
{
    Bits b;
    for (int c = lo; c <= hi; ++c) b.set(c);
    return b;
}

Bits stringBits(const std::string &s)
{
    Bits b;
    for (unsigned char c : s) b.set(c);
    return b;
}

Bits readBits(const CharacterSet &s)
{
    Bits b;
    for (int c = 0; c < 256; ++c) if (s[(unsigned char)c]) b.set(c);
    return b;
}

std::string showBits(const Bits &b)
{
    std::string s = "{";
    int c = 0;
    while (c < 256) {
        if (!b[c]) { ++c; continue; }
        int e = c;
        while (e + 1 < 256 && b[e + 1]) ++e;
        char buf[32];
        if (e == c) snprintf(buf, sizeof buf, "%02x ", c); else snprintf(buf, sizeof buf, "%02x-%02x ", c, e);
        s += buf;
        c = e + 1;
    }
    return s + "}";
}

bool sameSet(const CharacterSet &s, const Bits &b) { return readBits(s) == b; }

void buildFamily(bool thorough)
{
    addFamily("empty", CharacterSet("e", ""), Bits());
    addFamily("full", CharacterSet("f", 0, 255), rangeBits(0, 255));
    for (int c : {0, 1, 127, 128, 255}) addFamily("single" + std::to_string(c), CharacterSet("s", (unsigned char)c, (unsigned char)c), rangeBits(c, c));
    addFamily("ctl", CharacterSet("r", 0, 31), rangeBits(0, 31));
    addFamily("print", CharacterSet("r", 32, 126), rangeBits(32, 126));
    addFamily("high", CharacterSet("r", 128, 255), rangeBits(128, 255));
    addFamily("low", CharacterSet("r", 0, 127), rangeBits(0, 127));
    addFamily("az", CharacterSet("r", 'a', 'z'), rangeBits('a', 'z'));
    addFamily("str-ab-ff", CharacterSet("s", "ab\xff"), stringBits("ab\xff"));
    addFamily("str-dup", CharacterSet("s", "zzzz\x01\x80"), stringBits("z\x01\x80"));
    addFamily("multi", CharacterSet("m", {{0, 5}, {250, 255}, {100, 100}}), rangeBits(0, 5) | rangeBits(250, 255) | rangeBits(100, 100));
    addFamily("overlap", CharacterSet("m", {{10, 20}, {15, 30}}), rangeBits(10, 30));
    const CharacterSet *named[] = {&CharacterSet::ALPHA, &CharacterSet::DIGIT, &CharacterSet::HEXDIG, &CharacterSet::WSP, &CharacterSet::CTL,
                                   &CharacterSet::VCHAR, &CharacterSet::TCHAR, &CharacterSet::OBSTEXT, &CharacterSet::QDTEXT, &CharacterSet::CR
                                  };
    for (auto p : named) addFamily(std::string("named-") + p->name, *p, readBits(*p));
    if (thorough) {
        static const int pts[] = {0, 1, 2, 31, 32, 126, 127, 128, 129, 254, 255};
        for (int lo : pts)
            for (int hi : pts)
                if (lo < hi) addFamily("r" + std::to_string(lo) + "-" + std::to_string(hi), CharacterSet("r", (unsigned char)lo, (unsigned char)hi), rangeBits(lo, hi));
    }
}

uint64_t nSetChecks = 0;

// all algebra on the ordered pair (A,B)
void pairCase(const NamedSet &A, const NamedSet &B)
{
    const std::string who = A.name + " , " + B.name + ": ";
    ++nSetChecks;
    if (!sameSet(A.real, A.ref)) { V::fail(who + "membership of A is " + showBits(readBits(A.real)) + " expected " + showBits(A.ref)); return; }
    {
        const CharacterSet u = A.real + B.real;
        if (!sameSet(u, A.ref | B.ref)) V::fail(who + "A+B is " + showBits(readBits(u)) + " expected " + showBits(A.ref | B.ref));
        const CharacterSet d = A.real - B.real;
        if (!sameSet(d, A.ref & ~B.ref)) V::fail(who + "A-B is " + showBits(readBits(d)) + " expected " + showBits(A.ref & ~B.ref));
        CharacterSet x = A.real;
        x += B.real;
        if (!sameSet(x, A.ref | B.ref)) V::fail(who + "A+=B is " + showBits(readBits(x)));
        x -= A.real;
        if (!sameSet(x, B.ref & ~A.ref)) V::fail(who + "(A+=B)-=A is " + showBits(readBits(x)) + " expected " + showBits(B.ref & ~A.ref));
        CharacterSet y = A.real;
        y -= B.real;
        y += B.real;
        if (!sameSet(y, A.ref | B.ref)) V::fail(who + "(A-=B)+=B is " + showBits(readBits(y)));
        const CharacterSet c = A.real.complement("c");
        if (!sameSet(c, ~A.ref)) V::fail(who + "complement(A) is " + showBits(readBits(c)));
        const CharacterSet cc = c.complement();
        if (!sameSet(cc, A.ref) || !(cc == A.real) || (cc != A.real)) V::fail(who + "complement(complement(A)) != A");
        const CharacterSet dm = (A.real + B.real).complement();
        if (!sameSet(dm, ~A.ref & ~B.ref)) V::fail(who + "complement(A+B) is " + showBits(readBits(dm)));
        if ((A.real == B.real) != (A.ref == B.ref)) V::fail(who + "A==B is wrong");
        if ((A.real != B.real) != (A.ref != B.ref)) V::fail(who + "A!=B is wrong");
        // operands untouched
        if (!sameSet(A.real, A.ref) || !sameSet(B.real, B.ref)) V::fail(who + "an operand was modified by a non-assigning operator");
        nSetChecks += 12;
    }
    // add/remove single bytes
    for (int c : {0, 1, 127, 128, 255, 97}) {
        CharacterSet x = A.real;
        Bits r = A.ref;
        x.add((unsigned char)c); r.set(c);
        if (!sameSet(x, r)) V::fail(who + "add(" + std::to_string(c) + ") gives " + showBits(readBits(x)));
        x.remove((unsigned char)c); r.reset(c);
        if (!sameSet(x, r)) V::fail(who + "remove(" + std::to_string(c) + ") gives " + showBits(readBits(x)));
        x = B.real; r = B.ref;
        x.remove((unsigned char)c); r.reset(c);
        if (!sameSet(x, r)) V::fail(who + "remove(" + std::to_string(c) + ") from B gives " + showBits(readBits(x)));
        nSetChecks += 3;
    }
    const bool trivial = A.ref.none() || B.ref.none() || A.ref.all() || B.ref.all() || A.ref == B.ref;
    V::outcome(trivial ? "charset:pair-with-empty-full-or-equal" : "charset:pair");
}

// every range [lo,hi] for one lo: constructor and addRange on top of a base set
void rangeCase(int lo)
{
    for (int hi = lo; hi < 256; ++hi) {
        const CharacterSet r("r", (unsigned char)lo, (unsigned char)hi);
        if (!sameSet(r, rangeBits(lo, hi))) { V::fail("range ctor [" + std::to_string(lo) + "," + std::to_string(hi) + "] gives " + showBits(readBits(r))); return; }
        CharacterSet x("x", "\x03\xf0");
        x.addRange((unsigned char)lo, (unsigned char)hi);
        if (!sameSet(x, rangeBits(lo, hi) | stringBits("\x03\xf0"))) { V::fail("addRange(" + std::to_string(lo) + "," + std::to_string(hi) + ") gives " + showBits(readBits(x))); return; }
        const CharacterSet c = r.complement();
        if (!sameSet(c, ~rangeBits(lo, hi))) { V::fail("complement of range [" + std::to_string(lo) + "," + std::to_string(hi) + "] gives " + showBits(readBits(c))); return; }
        nSetChecks += 3;
        V::outcome(lo == hi ? "charset:singleton" : "charset:range");
    }
}

// ------------------------------------------------------------------------------------------ Tokenizer
struct TSet { std::string name; CharacterSet real; Bits ref; };
std::vector<TSet> TSets;

void buildTokSets()
{
    auto mk = [](const std::string &name, const CharacterSet &c) { TSet t = {name, c, readBits(c)}; TSets.push_back(t); };
    mk("{a}", CharacterSet("a", "a"));
    mk("{b}", CharacterSet("b", "b"));
    mk("{a,b}", CharacterSet("ab", "ab"));
    mk("{00}", CharacterSet("nul", 0, 0));
    mk("{ff}", CharacterSet("ff", 255, 255));
    mk("{a,ff}", CharacterSet("aff", "a\xff"));
    mk("{}", CharacterSet("none", ""));
    mk("all", CharacterSet("all", 0, 255));
    mk("not{a}", CharacterSet("a", "a").complement("nota"));
}

const SBuf::size_type NPOS = SBuf::npos;

// reference tokenizer: remaining input + count of parsed bytes
struct RefTok {
    std::string buf;
    uint64_t parsed = 0;
};

size_t prefixRun(const std::string &s, const Bits &set, size_t limit)
{
    size_t k = 0;
    while (k < s.size() && k < limit && set[(unsigned char)s[k]]) ++k;
    return k;
}
size_t suffixRun(const std::string &s, const Bits &set, size_t limit)
{
    size_t k = 0;
    while (k < s.size() && k < limit && set[(unsigned char)s[s.size() - 1 - k]]) ++k;
    return k;
}

enum TOp { T_PREFIX, T_SUFFIX, T_SKIPALL, T_SKIPONE, T_SKIPONETRAIL, T_SKIPALLTRAIL, T_TOKEN, T_PREFIX_THROWING, T_SKIP_TOK, T_SKIP_CHAR,
           T_SKIPSUFFIX, T_SKIPREQUIRED, T_END
         };
const char *topName(int o)
{
    static const char *n[] = {"prefix", "suffix", "skipAll", "skipOne", "skipOneTrailing", "skipAllTrailing", "token", "prefix-or-throw", "skip(token)",
                              "skip(char)", "skipSuffix", "skipRequired"
                             };
    return n[o];
}

struct Call {
    int op;
    int set;            // index into TSets (set ops)
    size_t limit;       // prefix/suffix
    std::string tok;    // skip(token)/skipSuffix/skipRequired/skip(char)
    std::string text() const
    {
        std::string s = topName(op);
        if (op <= T_PREFIX_THROWING) s += " " + TSets[set].name;
        if (op == T_PREFIX || op == T_SUFFIX || op == T_PREFIX_THROWING) s += " limit=" + (limit == NPOS ? std::string("npos") : std::to_string(limit));
        if (op >= T_SKIP_TOK) s += " '" + V::esc(tok) + "'";
        return s;
    }
};

std::vector<Call> Calls;

void buildCalls(const std::string &alphabet)
{
    static const size_t limits[] = {NPOS, 0, 1, 2, 3, 100};
    for (int op = T_PREFIX; op <= T_PREFIX_THROWING; ++op)
        for (size_t s = 0; s < TSets.size(); ++s) {
            if (op == T_PREFIX || op == T_SUFFIX || op == T_PREFIX_THROWING) {
                for (size_t l : limits) { Call c = {op, (int)s, l, ""}; Calls.push_back(c); }
            } else {
                Call c = {op, (int)s, NPOS, ""};
                Calls.push_back(c);
            }
        }
    std::vector<std::string> toks = {""};
    for (char a : alphabet) toks.push_back(std::string(1, a));
    for (char a : alphabet) for (char b : alphabet) toks.push_back(std::string(1, a) + b);
    toks.push_back("aba");
    for (int op : {T_SKIP_TOK, T_SKIPSUFFIX, T_SKIPREQUIRED})
        for (auto &t : toks) { Call c = {op, 0, NPOS, t}; Calls.push_back(c); }
    for (char a : alphabet) { Call c = {T_SKIP_CHAR, 0, NPOS, std::string(1, a)}; Calls.push_back(c); }
    { Call c = {T_SKIP_CHAR, 0, NPOS, "z"}; Calls.push_back(c); }
}

uint64_t nTokCalls = 0;

struct Outcome {
    bool ok = false;            // boolean/"did something" result
    bool threwInsufficient = false, threwOther = false;
    uint64_t count = 0;         // numeric result (skipAll etc.)
    std::string token;          // returned token, if any
    bool hasToken = false;
};

// The reference semantics (maximal or length-limited runs; nothing else changes)
Outcome refApply(RefTok &t, const Call &c)
{
    Outcome o;
    const Bits &set = TSets[c.set].ref;
    std::string &s = t.buf;
    switch (c.op) {
    case T_PREFIX: {
        const size_t k = prefixRun(s, set, c.limit == NPOS ? (size_t)-1 : c.limit);
        if (k) { o.ok = true; o.hasToken = true; o.token = s.substr(0, k); s.erase(0, k); t.parsed += k; }
        break;
    }
    case T_PREFIX_THROWING: {
        if (s.empty()) { o.threwInsufficient = true; break; }
        const size_t k = prefixRun(s, set, c.limit == NPOS ? (size_t)-1 : c.limit);
        if (!k) { o.threwOther = true; break; }
        o.token = s.substr(0, k); s.erase(0, k); t.parsed += k;
        if (s.empty()) { o.threwInsufficient = true; break; }   // the run may continue in data not yet received
        o.ok = true; o.hasToken = true;
        break;
    }
    case T_SUFFIX: {
        const size_t k = suffixRun(s, set, c.limit == NPOS ? (size_t)-1 : c.limit);
        if (k) { o.ok = true; o.hasToken = true; o.token = s.substr(s.size() - k); s.erase(s.size() - k); t.parsed += k; }
        break;
    }
    case T_SKIPALL: {
        const size_t k = prefixRun(s, set, (size_t)-1);
        o.count = k; o.ok = k > 0; s.erase(0, k); t.parsed += k;
        break;
    }
    case T_SKIPONE: {
        const size_t k = prefixRun(s, set, 1);
        o.ok = k > 0; s.erase(0, k); t.parsed += k;
        break;
    }
    case T_SKIPONETRAIL: {
        const size_t k = suffixRun(s, set, 1);
        o.ok = k > 0; s.erase(s.size() - k); t.parsed += k;
        break;
    }
    case T_SKIPALLTRAIL: {
        const size_t k = suffixRun(s, set, (size_t)-1);
        o.count = k; o.ok = k > 0; s.erase(s.size() - k); t.parsed += k;
        break;
    }
    case T_TOKEN: {
        const size_t lead = prefixRun(s, set, (size_t)-1);
        size_t e = lead;
        while (e < s.size() && !set[(unsigned char)s[e]]) ++e;
        if (e == s.size()) break;               // no delimiter after the token: nothing is consumed at all
        o.ok = true; o.hasToken = true; o.token = s.substr(lead, e - lead);
        size_t after = e;
        while (after < s.size() && set[(unsigned char)s[after]]) ++after;
        s.erase(0, after); t.parsed += after;
        break;
    }
    case T_SKIP_TOK:
        if (s.compare(0, c.tok.size(), c.tok) == 0 && s.size() >= c.tok.size()) { o.ok = !c.tok.empty(); s.erase(0, c.tok.size()); t.parsed += c.tok.size(); }
        break;
    case T_SKIP_CHAR:
        if (!s.empty() && s[0] == c.tok[0]) { o.ok = true; s.erase(0, 1); t.parsed += 1; }
        break;
    case T_SKIPSUFFIX:
        if (s.size() >= c.tok.size() && s.compare(s.size() - c.tok.size(), c.tok.size(), c.tok) == 0) { o.ok = !c.tok.empty(); s.erase(s.size() - c.tok.size()); t.parsed += c.tok.size(); }
        break;
    case T_SKIPREQUIRED:
        if (s.size() >= c.tok.size() && s.compare(0, c.tok.size(), c.tok) == 0) { o.ok = true; s.erase(0, c.tok.size()); t.parsed += c.tok.size(); }
        else if (c.tok.compare(0, s.size(), s) == 0) o.threwInsufficient = true;    // input is a proper prefix of the token
        else o.threwOther = true;
        break;
    }
    return o;
}

Outcome realApply(Parser::Tokenizer &tk, const Call &c)
{
    Outcome o;
    const CharacterSet &set = TSets[c.set].real;
    SBuf tok("UNSET");
    const SBuf arg(c.tok.data(), c.tok.size());
    try {
        switch (c.op) {
        case T_PREFIX: o.ok = tk.prefix(tok, set, c.limit); o.hasToken = o.ok; break;
        case T_PREFIX_THROWING: tok = tk.prefix("verif", set, c.limit); o.ok = true; o.hasToken = true; break;
        case T_SUFFIX: o.ok = tk.suffix(tok, set, c.limit); o.hasToken = o.ok; break;
        case T_SKIPALL: o.count = tk.skipAll(set); o.ok = o.count > 0; break;
        case T_SKIPONE: o.ok = tk.skipOne(set); break;
        case T_SKIPONETRAIL: o.ok = tk.skipOneTrailing(set); break;
        case T_SKIPALLTRAIL: o.count = tk.skipAllTrailing(set); o.ok = o.count > 0; break;
        case T_TOKEN: o.ok = tk.token(tok, set); o.hasToken = o.ok; break;
        case T_SKIP_TOK: o.ok = tk.skip(arg); break;
        case T_SKIP_CHAR: o.ok = tk.skip(c.tok[0]); break;
        case T_SKIPSUFFIX: o.ok = tk.skipSuffix(arg); break;
        case T_SKIPREQUIRED: tk.skipRequired("verif", arg); o.ok = true; break;
        }
    } catch (const Parser::InsufficientInput &) {
        o.threwInsufficient = true;
    } catch (const std::exception &) {
        o.threwOther = true;
    }
    if (o.hasToken) o.token = tok.toStdString();
    return o;
}

bool compareStep(const std::string &input, const std::string &history, const Call &c, Parser::Tokenizer &tk, RefTok &rt)
{
    ++nTokCalls;
    const size_t before = rt.buf.size();
    const Outcome ro = refApply(rt, c);
    const Outcome so = realApply(tk, c);
    const std::string who = history + c.text() + ": ";
    std::string bad;
    if (so.threwInsufficient != ro.threwInsufficient || so.threwOther != ro.threwOther)
        bad = "exception behaviour differs (real: insufficient=" + std::to_string(so.threwInsufficient) + " other=" + std::to_string(so.threwOther) +
              ", expected insufficient=" + std::to_string(ro.threwInsufficient) + " other=" + std::to_string(ro.threwOther) + ")";
    else if (so.ok != ro.ok) bad = "returned " + std::to_string(so.ok) + ", expected " + std::to_string(ro.ok);
    else if (so.count != ro.count) bad = "returned count " + std::to_string(so.count) + ", expected " + std::to_string(ro.count);
    else if (so.hasToken != ro.hasToken || (so.hasToken && so.token != ro.token))
        bad = "token '" + V::esc(so.token) + "', expected " + (ro.hasToken ? "'" + V::esc(ro.token) + "'" : std::string("none / untouched"));
    else if (tk.remaining().toStdString() != rt.buf)
        bad = "remaining '" + V::esc(tk.remaining().toStdString()) + "', expected '" + V::esc(rt.buf) + "'";
    else if (tk.parsedSize() != rt.parsed)
        bad = "parsedSize " + std::to_string(tk.parsedSize()) + ", expected " + std::to_string(rt.parsed);
    if (!bad.empty()) { V::failKey(std::string("tokenizer:") + topName(c.op), "input '" + V::esc(input) + "': " + who + bad); return false; }
    const bool consumed = rt.buf.size() != before;
    if (consumed && input.size() >= 3 && (nTokCalls % 200003) == 7)
        V::sample("input '" + V::esc(input) + "': " + who + (ro.hasToken ? "token '" + V::esc(ro.token) + "', " : std::string()) + "remaining '" + V::esc(rt.buf) + "'");
    const char *cls = before == 0 ? ":empty-input" : (consumed ? ":consumed" : (ro.threwInsufficient || ro.threwOther ? ":threw" : ":refused"));
    V::outcome(std::string("tok:") + topName(c.op) + cls);
    return true;
}

void tokCase(const std::string &input, bool pairs)
{
    const SBuf original(input.data(), input.size());
    for (size_t a = 0; a < Calls.size(); ++a) {
        Parser::Tokenizer tk(original);
        RefTok rt;
        rt.buf = input;
        if (!compareStep(input, "", Calls[a], tk, rt)) continue;
        if (original.toStdString() != input) { V::fail("the SBuf given to the Tokenizer changed under " + Calls[a].text()); return; }
        if (!pairs) continue;
        // second operation from the state the first one left (checkpoint/restore logic, parsed counter accumulation)
        for (size_t b = 0; b < Calls.size(); ++b) {
            Parser::Tokenizer tk2(tk);
            RefTok rt2 = rt;
            if (!compareStep(input, Calls[a].text() + " ; ", Calls[b], tk2, rt2)) break;
        }
    }
}

void body(V::Ctx &ctx)
{
    buildFamily(ctx.thorough());
    buildTokSets();
    const std::string alphabet = std::string("ab\0\xff", 4);
    buildCalls(alphabet);

    for (size_t i = 0; i < Family.size(); ++i)
        for (size_t j = 0; j < Family.size(); ++j)
            if (V::begin_case("cs-pair:" + Family[i].name + ":" + Family[j].name)) { pairCase(Family[i], Family[j]); V::end_case(); }
    for (int lo = 0; lo < 256; ++lo)
        if (V::begin_case("cs-range:" + std::to_string(lo))) { rangeCase(lo); V::end_case(); }

    const int L = ctx.quick() ? 6 : 8;          // single operations on every string up to L
    const int LP = ctx.quick() ? 3 : 5;         // all ordered pairs of operations on every string up to LP
    std::vector<int> idx;
    for (int len = 0; len <= L; ++len) {
        idx.assign(len, 0);
        for (;;) {
            std::string s;
            for (int i : idx) s += alphabet[i];
            if (V::begin_case("tok:" + V::esc(s))) { tokCase(s, len <= LP); V::end_case(); }
            int k = len - 1;
            while (k >= 0 && ++idx[k] == (int)alphabet.size()) { idx[k] = 0; --k; }
            if (k < 0) break;
        }
    }
    V::count("tokenizer_calls", nTokCalls);
    V::count("charset_checks", nSetChecks);
    V::count("calls_per_string", ctx.shard == 0 ? Calls.size() : 0);
    V::count("family_size", ctx.shard == 0 ? Family.size() : 0);
}

} // namespace

VHARNESS_MAIN(body)
