// Stubs for linking src/ipc/StoreMap.cc + ReadWriteLock.cc stand-alone (C55).  Everything StoreMap
// itself does runs as real code; only its references into the rest of Squid are cut here.
#include "squid.h"
#include "Store.h"
#include "store/Controller.h"
#include "store_key_md5.h"
#include "vsched/vsched.h"

#include <cstdarg>
#include <cstdio>
#include <string>

void storeAppendPrintf(StoreEntry *, const char *, ...) {}

const char *storeKeyText(const cache_key *key)
{
    static char buf[40];
    const uint64_t *k = reinterpret_cast<const uint64_t *>(key);
    snprintf(buf, sizeof(buf), "%016llx%016llx", (unsigned long long)k[0], (unsigned long long)k[1]);
    return buf;
}

// StoreMapAnchor::setKey() asks the Store whether the key is already marked for deletion elsewhere
alignas(64) static char fakeController[sizeof(Store::Controller)];
Store::Controller &Store::Root() { return *reinterpret_cast<Store::Controller *>(fakeController); }
bool Store::Controller::markedForDeletion(const cache_key *) const { return false; }

// StoreMapUpdate keeps its StoreEntry locked
void StoreEntry::lock(const char *) {}
int StoreEntry::unlock(const char *) { return 0; }
std::ostream &operator <<(std::ostream &os, const StoreEntry &) { return os << "e:harness"; }

struct C55AssertionFailed { std::string what; };

// assertion failures inside a process become a violation of the running schedule (replayable);
// in the main context (setup, invariant, final) they are thrown to the harness
void xassert(const char *msg, const char *file, int line)
{
    const std::string m = std::string("assertion failed: ") + file + ":" + std::to_string(line) + ": \"" + msg + "\"";
    if (VS::self() >= 0)
        VS::violation(m);       // does not return
    throw C55AssertionFailed{m};
}
