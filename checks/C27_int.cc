// C27 — integer parsers vs an arbitrary-precision reference (E1).
// Real code: Parser::Tokenizer::int64 / udec64 (src/parser/Tokenizer.cc) and
// httpHeaderParseOffset / httpHeaderParseInt (src/HttpHeaderTools.cc), both recompiled from the
// current tree with -fsanitize=undefined -fno-sanitize-recover (a UBSan report kills the case).
#include "squid.h"
#include "HttpHeaderTools.h"
#include "parser/Tokenizer.h"
#include "sbuf/SBuf.h"
#include "base/TextException.h"

#include "vharness.h"

#include <climits>
#include <cerrno>

typedef __int128 i128;

namespace {

int digitVal(unsigned char c)
{
    if (c >= '0' && c <= '9') return c - '0';
    if (c >= 'a' && c <= 'z') return c - 'a' + 10;
    if (c >= 'A' && c <= 'Z') return c - 'A' + 10;
    return 99;
}

struct Ref {
    bool numeral = false;     // a numeral is present at the start
    bool fits = false;        // its value fits in int64
    i128 value = 0;
    size_t consumed = 0;
    bool ambiguousPrefix = false; // "0x" not followed by a hex digit: strtoll says "0", Squid documents nothing
};

// strtoll-alike reference without leading white space: [sign] [0x] digits+, maximal run, over s[0..n)
Ref refParse(const std::string &in, int base, bool allowSign, size_t limit)
{
    Ref r;
    const std::string s = in.substr(0, limit);
    size_t p = 0;
    bool neg = false;
    if (allowSign && p < s.size() && (s[p] == '-' || s[p] == '+')) { neg = s[p] == '-'; ++p; }
    if ((base == 0 || base == 16) && p + 1 < s.size() && s[p] == '0' && (s[p+1] == 'x' || s[p+1] == 'X')) {
        if (p + 2 < s.size() && digitVal(s[p+2]) < 16) { p += 2; base = 16; }
        else { r.ambiguousPrefix = true; if (base == 0) base = 8; }
    }
    if (base == 0) base = (p < s.size() && s[p] == '0') ? 8 : 10;
    const size_t ds = p;
    i128 v = 0;
    bool huge = false;
    while (p < s.size() && digitVal(s[p]) < base) {
        v = v * base + digitVal(s[p]);
        if (v > ((i128)1 << 100)) { huge = true; v = (i128)1 << 100; }
        ++p;
    }
    if (p == ds) return r;
    r.numeral = true;
    r.consumed = p;
    r.value = neg ? -v : v;
    r.fits = !huge && r.value >= (i128)INT64_MIN && r.value <= (i128)INT64_MAX;
    return r;
}

std::string show(i128 v)
{
    if (v == 0) return "0";
    bool n = v < 0; if (n) v = -v;
    std::string s;
    while (v > 0) { s.insert(s.begin(), char('0' + (int)(v % 10))); v /= 10; }
    return (n ? "-" : "") + s;
}

uint64_t nCalls = 0;

void checkInt64(const std::string &in, int base, bool allowSign, size_t limit)
{
    ++nCalls;
    const Ref ref = refParse(in, base, allowSign, limit == SBuf::npos ? std::string::npos : limit);
    Parser::Tokenizer tok(SBuf(in.data(), in.size()));
    const int64_t sentinel = 0x5a5a5a5a5a5a5a5aLL;
    int64_t result = sentinel;
    const bool ok = tok.int64(result, base, allowSign, limit);
    const size_t consumed = in.size() - tok.remaining().length();
    char cfg[96];
    snprintf(cfg, sizeof cfg, "int64(base=%d,sign=%d,limit=%ld)", base, (int)allowSign, limit == SBuf::npos ? -1L : (long)limit);
    const bool mustFail = in.empty() || limit == 0 || !ref.numeral || !ref.fits;
    if (ok) {
        V::outcome("int64:accepted");
        if (ref.ambiguousPrefix && !(ref.numeral && ref.fits && result == (int64_t)ref.value && consumed == ref.consumed)) {
            V::fail(std::string(cfg) + " accepted a dangling 0x prefix with value/consumed different from the leading 0");
            return;
        }
        if (mustFail) { V::fail(std::string(cfg) + " succeeded (value " + show(result) + ", consumed " + std::to_string(consumed) + ") but the numeral " + (ref.numeral ? "does not fit int64: " + show(ref.value) : "is absent")); return; }
        if ((i128)result != ref.value) V::fail(std::string(cfg) + " value " + show(result) + " != exact " + show(ref.value));
        if (consumed != ref.consumed) V::fail(std::string(cfg) + " consumed " + std::to_string(consumed) + " != numeral length " + std::to_string(ref.consumed));
    } else {
        V::outcome(ref.numeral && !ref.fits ? "int64:overflow-rejected" : "int64:rejected");
        if (consumed != 0) V::fail(std::string(cfg) + " failed but consumed " + std::to_string(consumed));
        if (result != sentinel) V::fail(std::string(cfg) + " failed but modified the result");
        if (!mustFail && !ref.ambiguousPrefix)
            V::fail(std::string(cfg) + " failed although the numeral fits: exact " + show(ref.value) + ", length " + std::to_string(ref.consumed));
    }
}

void checkUdec64(const std::string &in, size_t limit)
{
    ++nCalls;
    const Ref ref = refParse(in, 10, false, limit == SBuf::npos ? std::string::npos : limit);
    Parser::Tokenizer tok(SBuf(in.data(), in.size()));
    bool threw = false, insufficient = false;
    int64_t v = -1;
    try { v = tok.udec64("verif", limit); }
    catch (const Parser::InsufficientInput &) { insufficient = true; }
    catch (...) { threw = true; }
    if (!threw && !insufficient) {
        V::outcome("udec64:accepted");
        if (!ref.numeral || !ref.fits) { V::fail("udec64 accepted " + show(v) + " but numeral absent/too big"); return; }
        if ((i128)v != ref.value) V::fail("udec64 value " + show(v) + " != " + show(ref.value));
        const size_t consumed = in.size() - tok.remaining().length();
        if (consumed != ref.consumed) V::fail("udec64 consumed " + std::to_string(consumed) + " != " + std::to_string(ref.consumed));
    } else {
        V::outcome(insufficient ? "udec64:need-more" : "udec64:rejected");
        if (insufficient && ref.numeral && ref.fits && ref.consumed < in.size())
            V::fail("udec64 reported insufficient input although the numeral is terminated");
    }
}

void checkOffset(const std::string &in)
{
    ++nCalls;
    // reference: strtoll base 10 semantics (leading isspace, optional sign), exact or fail
    size_t p = 0;
    while (p < in.size() && isspace((unsigned char)in[p])) ++p;
    const Ref ref = refParse(in.substr(p), 10, true, std::string::npos);
    int64_t value = 0x5a5a5a5a5a5a5a5aLL;
    char *end = nullptr;
    const bool ok = httpHeaderParseOffset(in.c_str(), &value, &end);
    if (ok) {
        V::outcome("offset:accepted");
        if (!ref.numeral || !ref.fits) { V::fail("httpHeaderParseOffset accepted value " + show(value) + " but the numeral is absent or does not fit"); return; }
        if ((i128)value != ref.value) V::fail("httpHeaderParseOffset value " + show(value) + " != exact " + show(ref.value));
        if ((size_t)(end - in.c_str()) != p + ref.consumed) V::fail("httpHeaderParseOffset consumed " + std::to_string(end - in.c_str()) + " != " + std::to_string(p + ref.consumed));
    } else {
        V::outcome(ref.numeral ? "offset:overflow-rejected" : "offset:rejected");
        if (ref.numeral && ref.fits) V::fail("httpHeaderParseOffset rejected a numeral that fits: " + show(ref.value));
    }
}

void checkParseInt(const std::string &in)
{
    ++nCalls;
    size_t p = 0;
    while (p < in.size() && isspace((unsigned char)in[p])) ++p;
    const Ref ref = refParse(in.substr(p), 10, true, std::string::npos);
    int value = 0x5a5a5a5a;
    const int ok = httpHeaderParseInt(in.c_str(), &value);
    if (ok) {
        V::outcome("parseInt:accepted");
        // the statement: exact value of the digits consumed, or failure; never wrap
        if (!ref.numeral) { if (value != 0 || !(p < in.size() && isdigit((unsigned char)in[p]))) V::fail("httpHeaderParseInt accepted a non-numeral as " + std::to_string(value)); return; }
        if ((i128)value != ref.value) V::failKey("httpHeaderParseInt:wraps-or-clamps-out-of-int-range", "httpHeaderParseInt returned " + std::to_string(value) + " for exact value " + show(ref.value));
    } else {
        V::outcome("parseInt:rejected");
        if (ref.numeral && ref.value >= INT_MIN && ref.value <= INT_MAX && ref.value != 0)
            V::fail("httpHeaderParseInt rejected " + show(ref.value));
    }
}

std::string toBase(unsigned __int128 v, int base, bool upper)
{
    if (v == 0) return "0";
    std::string s;
    while (v > 0) { int d = (int)(v % base); s.insert(s.begin(), d < 10 ? char('0' + d) : char((upper ? 'A' : 'a') + d - 10)); v /= base; }
    return s;
}

void runAll(const std::string &in, bool allBases)
{
    static const int bases[] = {0, 8, 10, 16, 2, 36};
    static const size_t limits[] = {SBuf::npos, 0, 1, 2, 3, 19, 20};
    const int nb = allBases ? 6 : 4;
    for (int b = 0; b < nb; ++b)
        for (int sign = 0; sign < 2; ++sign)
            for (size_t limit : limits) {
                if ((limit == 19 || limit == 20) && in.size() < 19) continue;
                checkInt64(in, bases[b], sign, limit);
            }
    checkUdec64(in, SBuf::npos);
    checkUdec64(in, 2);
    checkOffset(in);
    checkParseInt(in);
}

void body(V::Ctx &ctx)
{
    // (a) every string up to length L over a 12-symbol alphabet
    const std::string alpha = "01789afgxX+-";
    const int L = ctx.quick() ? 4 : 5;
    std::vector<int> idx;
    for (int len = 0; len <= L; ++len) {
        idx.assign(len, 0);
        for (;;) {
            std::string s;
            for (int i : idx) s += alpha[i];
            if (V::begin_case("s:" + s)) { runAll(s, false); V::end_case(); }
            int k = len - 1;
            while (k >= 0 && ++idx[k] == (int)alpha.size()) { idx[k] = 0; --k; }
            if (k < 0) break;
        }
    }
    // (b) numerals around the 64-bit limits in every base, with prefixes and suffixes
    const unsigned __int128 one = 1;
    std::vector<unsigned __int128> vals = {(one << 63) - 2, (one << 63) - 1, one << 63, (one << 63) + 1, (one << 64) - 1, one << 64, (one << 64) + 5,
                                           (one << 31) - 1, one << 31, (one << 32) - 1, one << 32, (one << 32) + 1, (one << 62), ((one << 63) - 1) / 10, ((one << 63) - 1) / 10 + 1,
                                           (one << 63) / 8, (one << 63) / 16, 99999999999999999ULL, (unsigned __int128)1000000000000000000ULL * 10, (one << 100)};
    const char *prefixes[] = {"", "0", "00", "0x", "0X", "+", "-", "-0x", "+0x", "-0", " ", " -", "\t+"};
    const char *suffixes[] = {"", "0", "z", " ", "9", "f", "x", "-", "."};
    const int bases[] = {2, 8, 10, 16, 36};
    for (int base : bases)
        for (auto v : vals)
            for (int up = 0; up < 2; ++up)
                for (const char *pre : prefixes)
                    for (const char *suf : suffixes) {
                        if (up && base <= 10) continue;
                        const std::string s = std::string(pre) + toBase(v, base, up) + suf;
                        if (V::begin_case("n:" + V::esc(s))) { runAll(s, true); V::end_case(); }
                    }
    V::count("parser_calls", nCalls);
}

} // namespace

VHARNESS_MAIN(body)
