"""C55 Shared store index exposes only complete, stable entries — E2: the real Ipc::StoreMap over real shared
segments under every interleaving (up to a preemption bound) of 2-3 processes writing, appending, aborting,
reading, deleting and updating entries whose keys collide on one anchor."""
import glob
import json
import os

from vverif import seq, sched
from vverif.core import Result, HarnessError, HOME

LEVEL = 'model_checking'
ASSUME = ['sequentially consistent interleavings; scheduling points at every std::atomic operation ("fine" scenarios: also right after '
          'it, so that the plain accesses to Anchor::key/basics and to slice payloads form steps of their own)',
          'src/ipc/StoreMap.cc and src/ipc/ReadWriteLock.cc of the current tree compiled unmodified with std::atomic substituted by a '
          'scheduler-controlled atomic; the map lives in three real Ipc::Mem::Segments (libipc.a) re-initialised before every execution',
          'harness stubs: Store::Root().markedForDeletion() = false, StoreEntry::lock/unlock no-ops, a zero-filled StoreEntry with only the '
          'plain fields StoreMapAnchor::set() reads; paranoid_hit_validation off; slice allocation is a harness free list fed by the real '
          'cleaner->noteFreeMapSlice() callback; slice payload is a harness array written before Slice::size, as MemStore does',
          'holders are tracked from the return of an open call to just before the close call',
          'executions that run into a key listed in known_findings are abandoned at that point (one example per key is reported as '
          'KNOWN-FINDING) and the exploration continues, so other violations in the same scenarios are still found']

OBJECTS = ['SquidConfig.o', 'String.o', 'tests/stub_debug.o', 'tests/stub_libmem.o', 'tests/stub_tools.o', 'tests/stub_fatal.o',
           'tests/stub_Instance.o', 'tests/stub_cbdata.o', 'tests/stub_HelperChildConfig.o']
LIBS = ['ipc/.libs/libipc.a', 'base/.libs/libbase.a', 'sbuf/.libs/libsbuf.a', 'ip/.libs/libip.a',
        '../compat/.libs/libcompatsquid.a', '../lib/.libs/libmiscutil.a']

RULE = ('operations: w/a/x = write key A (two slices / slice+startAppending+slice / appending then abortWriting), b = write colliding key B, '
        'r/q = read A and closeForReading / closeForReadingAndFreeIdle, s = read B, d = freeEntryByKey(A), f = freeEntry(home anchor), '
        'u/v = openForUpdating + fresh one-slice prefix + closeForUpdating / abortUpdating; 6 anchors, 6 slices, map initially empty or '
        'holding a complete two-slice entry A. quick: all pairs of single operations (fine steps, 1 preemption; atomic steps, 2 '
        'preemptions), all pairs of two-operation scripts over {x,r,d,u} (fine, 1), all triples over {x,r,d} (2). thorough: pairs fine 2 '
        '/ atomic 3, two-operation scripts over {a,x,r,d,u,b,q} fine 1 and over {a,x,r,d,u} atomic 2, all triples over {a,x,b,r,d,u,v} (2). Every '
        'schedule within the bound runs the real StoreMap code')


def _known_keys():
    keys = []
    for p in [os.path.join(HOME, 'known_findings.json'), os.path.join(HOME, 'known_findings.d', 'C55.json')]:
        if os.path.exists(p):
            with open(p) as f:
                keys += [x['key'] for x in json.load(f).get('findings', []) if x.get('property') == 'C55']
    return keys


def _build(ctx):
    return sched.build(ctx, 'C55_storemap.cc', ['ipc/StoreMap.cc', 'ipc/ReadWriteLock.cc'],
                       stubs=['C55_stubs.cc', 'C55_stubs2.cc'], objects=OBJECTS, libs=LIBS)


def _cleanup():
    # segments of harness children that died before ~Owner could unlink them
    for p in glob.glob('/dev/shm/squid-vC55-*'):
        try:
            os.unlink(p)
        except OSError:
            pass


def _result(ctx, m):
    c = m['counters']
    partial = m['deadline_hit'] or c.get('cap_hit')
    known = set(_known_keys())
    new = [f for f in m['failures'] if f['key'] not in known]
    if not new and not m['crashes'] and not partial:
        need = {'read_ok': 100, 'read_refused': 100, 'write_ok': 100, 'write_busy': 100, 'update_ok': 100, 'update_refused': 100,
                'deletes': 100, 'deletes_leaving_a_mark': 10, 'reader_admitted_while_appending': 10, 'readers_sharing_an_anchor': 10,
                'reads_opened_while_a_writer_was_active': 10, 'slices_freed': 100, 'context_switches': 1000}
        low = {k: c.get(k, 0) for k, v in need.items() if c.get(k, 0) < v}
        if low:
            raise HarnessError('vacuity guard: too few conflict witnesses: %r' % low)
    cov = {
        'states': c.get('states', 0), 'transitions': c.get('steps', 0),
        'traces_validated_against_impl': c.get('executions', 0),
        'scenarios': m['evaluations'], 'scenarios_completed_at_bound': c.get('scenarios_completed_at_bound', 0),
        'bound_completed': ('2 preemptions (1 in the fine-grained and two-operation scenarios)' if ctx.quick else
                            '3 preemptions for pairs at atomic granularity (2 in the fine-grained, two-operation and three-process scenarios, 1 for fine-grained two-operation scripts)')
        if not partial else 'partial',
        'executions_abandoned_at_known_findings': c.get('executions_abandoned_at_known_findings', 0),
        'steps_per_plan': {k: v for k, v in c.items() if k.startswith('plan')},
        'conflict_witnesses': {k: c.get(k, 0) for k in ('context_switches', 'read_ok', 'read_refused', 'write_ok', 'write_busy', 'update_ok',
                                                        'update_refused', 'deletes', 'deletes_leaving_a_mark', 'out_of_slices',
                                                        'reader_admitted_while_appending', 'reader_lingering_on_aborted_entry',
                                                        'readers_sharing_an_anchor', 'reads_opened_while_a_writer_was_active',
                                                        'slices_freed')},
        'rule': RULE, 'samples': m['samples'], 'exhaustive': not partial, 'outcome_classes': m['outcomes'],
    }
    return Result(LEVEL, cov, seq.violations_from(m), ASSUME)


def run(ctx):
    exe = _build(ctx)
    os.environ['C55_KNOWN'] = ';'.join(_known_keys())
    try:
        m = seq.run(ctx, exe)
    finally:
        _cleanup()
    return _result(ctx, m)


def replay(ctx, data):
    exe = _build(ctx)
    os.environ.pop('C55_KNOWN', None)
    try:
        m = seq.replay_case(ctx, exe, data['case'])     # "scenario|schedule"
    finally:
        _cleanup()
    return Result(LEVEL, {}, seq.violations_from(m), ASSUME)
