"""C33 Error pages never reflect client input unescaped — E3, bounded product trigger x field x payload.

The real ASan squid runs under the lock-step shim; the driver plays client, origin and the Basic-auth helper.
Every case sends ONE request that (a) makes Squid generate one particular error page and (b) carries ONE
markup-bearing payload with a unique nonce in ONE client-controlled position (method, URL host, path, query, a
request header value, the Basic user name).  Two template sets are used (shard parity): the stock templates of the
tree, and copies of them that additionally expand every client-influenced %code in element content, in a
double-quoted and in a single-quoted attribute (so that codes the stock pages do not use are exercised through
the same ErrorState::compileLegacyCode path).  Oracle (independent of Squid): the body is parsed with Python's
html.parser; no element or attribute name may carry the nonce, and the payload (which always contains one of
< > " ' &) must not occur verbatim anywhere in the body; the response header section must parse strictly and no
field name may carry the nonce, no field value may contain the raw payload (deny_info redirects, X-Squid-Error).
"""
import base64
import os
import re
import shutil
import signal
from html.parser import HTMLParser

from vverif import lockstep as ls
from vverif.core import Result, Violation, HarnessError

LEVEL = 'exploration'

# %codes whose expansion a client can influence (everything except pure server-side facts; %O / %L / %l / %S are
# documented as unescaped admin/helper text and are left out; FTP codes need an FTP peer)
CODES = 'aBHMopPRUuzZxmIiED'
ALLCODES_BLOCK = (
    '\n<div id="vallcodes">\n' +
    ''.join('<p class="c%s">%%%s</p>\n<span class="d%s" title="%%%s">d</span>\n<span class="s%s" title=\'%%%s\'>s</span>\n' % (c, c, c, c, c, c)
            for c in CODES) +
    '<a id="vlink" href="%U">%U</a>\n</div>\n')
REDIRECT = ('302:http://portal.test/landing?u=%u&U=%U&a=%a&m=%M&H=%H&p=%p&P=%P&R=%R&i=%i&x=%x&o=%o&B=%B')

FIELDS = ['path', 'query', 'host', 'method', 'hdr', 'ua', 'cookie', 'user']


def payloads(n):
    """(name, bytes) — every payload contains the nonce N and (except pct) at least one of < > " ' & next to it."""
    N = ('vn%dx' % n).encode()
    return [
        ('script', b'<vs' + N + b'>alert(1)</vs' + N + b'>'),
        ('dq-img', b'"><vi' + N + b' onve' + N + b'=1>'),
        ('sq-tag', b"'><vq" + N + b'>'),
        ('dq-attr', b'" onvd' + N + b'="1'),
        ('sq-attr', b"' onvm" + N + b"='1"),
        ('pre-escaped', b'&lt;vp' + N + b'&gt;'),
        ('pct', b'%3Cvu' + N + b'%3E%22%27'),
        ('utf8', b'\xc3\xa9<vw' + N + b'>\xe2\x82\xac'),
        ('ctl', b'\x01<vc' + N + b'>\x7f'),
        ('close-tags', b'</pre></blockquote></script><vx' + N + b'>'),
        ('amp', b'&vy' + N + b';<'),
    ], N


TRIGGERS = ['access-denied', 'custom-page', 'redirect', 'auth-407', 'invalid-url', 'invalid-req', 'unsup-version', 'dns-fail',
            'connect-fail', 'too-big', 'unsup-req', 'read-error', 'zero-size', 'invalid-resp', 'forwarding-denied', 'only-if-cached',
            'read-timeout']
EXPECT_PAGE = {'access-denied': 'ERR_ACCESS_DENIED', 'custom-page': 'ERR_VCUSTOM', 'auth-407': 'ERR_CACHE_ACCESS_DENIED',
               'invalid-url': 'ERR_INVALID_URL', 'invalid-req': 'ERR_INVALID_REQ', 'unsup-version': 'ERR_UNSUP_HTTPVERSION',
               'dns-fail': 'ERR_DNS_FAIL', 'connect-fail': 'ERR_CONNECT_FAIL', 'too-big': 'ERR_TOO_BIG', 'unsup-req': 'ERR_UNSUP_REQ',
               'read-error': 'ERR_READ_ERROR', 'zero-size': 'ERR_ZERO_SIZE_OBJECT', 'invalid-resp': 'ERR_INVALID_RESP',
               'forwarding-denied': 'ERR_FORWARDING_DENIED', 'only-if-cached': 'ERR_ONLY_IF_CACHED_MISS', 'read-timeout': 'ERR_READ_TIMEOUT'}


def all_cases(ctx):
    cases = []
    n = 1000
    for trig in TRIGGERS:
        for field in FIELDS:
            names = [p[0] for p in payloads(0)[0]]
            for pn in names:
                n += 1
                cases.append({'trig': trig, 'field': field, 'payload': pn, 'n': n})
    if not ctx.quick:
        # thorough: additionally two fields at once (a tag-opening payload in one, an attribute-breaking one in the other)
        for trig in TRIGGERS:
            for i, f1 in enumerate(FIELDS):
                for f2 in FIELDS[i + 1:]:
                    for p1, p2 in (('script', 'dq-img'), ('sq-attr', 'pre-escaped')):
                        n += 1
                        cases.append({'trig': trig, 'field': f1, 'payload': p1, 'n': n, 'field2': f2, 'payload2': p2})
    control = []
    for pn in [p[0] for p in payloads(0)[0]]:
        n += 1
        control.append({'trig': 'control-raw', 'field': 'hdr', 'payload': pn, 'n': n})
    if ctx.quick:
        # quick: every trigger x field with 5 of the 11 payloads, chosen so that each payload meets each trigger and field
        keep = []
        for i, c in enumerate(cases):
            names = [p[0] for p in payloads(0)[0]]
            pi = names.index(c['payload'])
            ti = TRIGGERS.index(c['trig'])
            fi = FIELDS.index(c['field'])
            if (pi + ti + fi) % 2 == 0 or c['payload'] in ('dq-img', 'script'):
                keep.append(c)
        cases = keep
    return cases + control


# ------------------------------------------------------------------ world

class ErrWorld(ls.World):
    def __init__(self, ctx, name, port_base, templates):
        self.templates = templates          # 'stock' | 'allcodes'
        self.hubpath = os.path.join(ctx.rundir, name + '.hub')
        self.hub = ls.HelperHub(self.hubpath)
        d = os.path.join(ctx.rundir, name)
        self.errdir = os.path.join(ctx.rundir, name + '.errors')
        self.closed_port = port_base + 7
        conf = '\n'.join([
            'error_directory %s' % self.errdir,
            'auth_param basic program %s %s auth' % (ls.helper_path(ctx), self.hubpath),
            'auth_param basic children 1 startup=1 idle=1 concurrency=0',
            'auth_param basic realm verif',
            'auth_param basic credentialsttl 1 hour',
            'acl authed proxy_auth REQUIRED',
            'acl hasauth req_header Proxy-Authorization .',
            'acl vdeny url_regex vdeny',
            'acl vcustom url_regex vcustom',
            'acl vredir url_regex vredir',
            'acl vnofwd url_regex vnofwd',
            'acl vcontrol url_regex vcontrol',
            'deny_info ERR_VCONTROL vcontrol',
            'deny_info ERR_VCUSTOM vcustom',
            'deny_info %s vredir' % REDIRECT,
            'http_access deny hasauth !authed',
            'http_access deny vdeny',
            'http_access deny vcustom',
            'http_access deny vredir',
            'http_access deny vcontrol',
            'miss_access deny vnofwd',
            'request_body_max_size 64 bytes',
            'email_err_data on',
            'cache_mgr admin@squid.verif',
            'dns_timeout 5 seconds',
            'connect_timeout 5 seconds',
            'read_timeout 60 seconds',
            'forward_max_tries 1',
            'retry_on_error off',
            'cache deny all',
            'strip_query_terms off',
        ]) + '\n'
        super().__init__(ctx, name, port_base, conf=conf, logformat='%>Hs %err_code %rm')
        self.make_templates(ctx)
        self.pids = []
        self.helper = None
        self.helper_buf = b''
        self.auth_answer = b'OK'
        self.origin_mode = 'ok'

    def make_templates(self, ctx):
        src = os.path.join(ctx.tree, 'errors', 'templates')
        if os.path.isdir(self.errdir):
            shutil.rmtree(self.errdir)
        os.makedirs(self.errdir)
        for f in sorted(os.listdir(src)):
            if not f.startswith('ERR_') and f != 'error-details.txt':
                continue
            with open(os.path.join(src, f), 'rb') as fp:
                t = fp.read()
            if self.templates == 'allcodes' and f.startswith('ERR_') and b'</body>' in t:
                t = t.replace(b'</body>', ALLCODES_BLOCK.encode() + b'</body>', 1)
            with open(os.path.join(self.errdir, f), 'wb') as fp:
                fp.write(t)
        with open(os.path.join(src, 'ERR_ACCESS_DENIED'), 'rb') as fp:
            t = fp.read()
        # the custom deny_info page always expands every code
        t = t.replace(b'</body>', ALLCODES_BLOCK.encode() + b'</body>', 1)
        with open(os.path.join(self.errdir, 'ERR_VCUSTOM'), 'wb') as fp:
            fp.write(t)
        # positive control: a page into which the administrator deliberately pastes a request header as-is
        # (logformat macro with the ' = no-encoding modifier).  The oracle must see the injected markup there.
        t = t.replace(b'</body>', b'<p id="vcontrol">@Squid{%\'{X-V}>h}</p>\n</body>', 1)
        with open(os.path.join(self.errdir, 'ERR_VCONTROL'), 'wb') as fp:
            fp.write(t)
        os.chmod(self.errdir, 0o755)

    def start(self):
        try:
            self.sq.start(wait_ready=False)
            for attempt in range(5):        # an overloaded machine can exceed lockstep's 60 s start-up allowance
                try:
                    self.sq.wait_ready()
                    break
                except HarnessError as e:
                    if 'not ready after' not in str(e) or attempt == 4:
                        raise
            hs = self.hub.wait_helpers(1, timeout=60)
            self.helper = hs[0][1]
            self.pids.append(int(hs[0][0].split()[1]))
        except BaseException:
            self.stop()
            raise
        return self

    def _origin_step(self, responder, ex):
        progressed = False
        if self.helper is not None:
            self.helper_buf += self.helper.take()
            while b'\n' in self.helper_buf:
                ln, self.helper_buf = self.helper_buf.split(b'\n', 1)
                self.helper.send(self.auth_answer + b'\n')
                progressed = True
        for c in self.origin.accept_all():
            self.oconns.append(ls.OriginConn(c, len(self.oconns)))
            progressed = True
        for oc in self.oconns:
            if oc.c.closed:
                continue
            if oc.c.pump():
                progressed = True
                d, oc.c.inbuf = oc.c.inbuf, b''
                oc.raw += d
                ex.origin_raw += d
                while True:
                    e = oc.raw.find(b'\r\n\r\n', oc.parsed_upto)
                    if e < 0:
                        break
                    head = oc.raw[oc.parsed_upto:e + 4]
                    oc.parsed_upto = e + 4
                    ex.origin_requests.append(head)
                    mode = self.origin_mode
                    if mode == 'rst':
                        oc.c.rst()
                        break
                    if mode == 'close':
                        oc.c.close()
                        break
                    if mode == 'garbage':
                        oc.c.send(b'HTTP/1.1 abc def\r\nContent-Length: x\r\n\r\n')
                        oc.c.close()
                        break
                    if mode == 'silent':
                        continue
                    oc.c.send(('HTTP/1.1 200 OK\r\nDate: %s\r\nContent-Length: 2\r\nConnection: close\r\n\r\n' % ls.http_date(self.sq.now_us)).encode() + b'ok')
            if oc.c.eof and not oc.c.closed:
                oc.c.close()
                progressed = True
        return progressed

    def stop(self):
        try:
            for tag, conn in self.hub.accept_all():
                p = int(tag.split()[1])
                if p not in self.pids:
                    self.pids.append(p)
        except Exception:
            pass
        for p in self.pids:
            try:
                os.kill(p, signal.SIGKILL)
            except OSError:
                pass
        try:
            if self.sq.alive():
                self.sq.kick()
        except Exception:
            pass
        try:
            super().stop()
        finally:
            self.hub.close()
            for pth in (self.hubpath,):
                try:
                    os.unlink(pth)
                except OSError:
                    pass
            shutil.rmtree(self.errdir, ignore_errors=True)


# ------------------------------------------------------------------ request construction

def build_request(w, case):
    plist, N = payloads(case['n'])
    pay = dict(plist)[case['payload']]
    trig, field = case['trig'], case['field']
    n = case['n']

    pay2 = None
    if case.get('field2'):
        pay2 = dict(payloads(case['n'] + 500000)[0])[case['payload2']]

    def val(f, benign):
        if field == f:
            return pay
        if case.get('field2') == f:
            return pay2
        return benign
    marker = {'control-raw': b'vcontrol', 'access-denied': b'vdeny', 'custom-page': b'vcustom', 'redirect': b'vredir', 'forwarding-denied': b'vnofwd'}.get(trig, b'plain')
    method = b'GET'
    version = b'HTTP/1.1'
    scheme = b'http'
    host = b'127.0.0.1'
    port = w.origin_port
    extra = []
    body = b''
    if trig == 'invalid-url':
        port = 0
    elif trig == 'unsup-version':
        version = b'HTTP/3.7'
    elif trig == 'dns-fail':
        host = b'nx%d.invalid' % n
    elif trig == 'connect-fail':
        port = w.closed_port
    elif trig == 'too-big':
        method = b'POST'
        extra.append(b'Content-Length: 100000')
    elif trig == 'unsup-req':
        method = b'POST'
        scheme = b'whois'
        extra.append(b'Content-Length: 0')
    elif trig == 'invalid-req':
        extra.append(b'Content-Length: 1, 2')
    elif trig == 'only-if-cached':
        extra.append(b'Cache-Control: only-if-cached')
    for f, pv in ((field, pay), (case.get('field2'), pay2)):
        if f == 'method':
            method = (b'G' + pv) if trig not in ('too-big', 'unsup-req') else (b'P' + pv)
        if f == 'host':
            host = (b'h' + pv + b'.' + host) if trig != 'dns-fail' else (b'nx' + pv + b'.invalid')
    path = b'/' + marker + b'/' + val('path', b'p%d' % n)
    query = b'k=' + val('query', b'q%d' % n)
    hostport = host + b':%d' % port
    url = scheme + b'://' + hostport + path + b'?' + query
    user = val('user', b'user%d' % n)
    lines = [method + b' ' + url + b' ' + version,
             b'Host: ' + hostport,
             b'User-Agent: ' + val('ua', b'agent%d' % n),
             b'X-V: ' + val('hdr', b'v%d' % n),
             b'Cookie: c=' + val('cookie', b'c%d' % n)]
    if trig == 'auth-407' or field == 'user' or True:
        lines.append(b'Proxy-Authorization: Basic ' + base64.b64encode(user + b':pw%d' % n))
    lines += extra
    return b'\r\n'.join(lines) + b'\r\n\r\n' + body, [pay] + ([pay2] if pay2 else []), [N] + ([payloads(case['n'] + 500000)[1]] if pay2 else [])


# ------------------------------------------------------------------ oracle

class Scan(HTMLParser):
    def __init__(self):
        super().__init__(convert_charrefs=True)
        self.tags = []          # (tag, [(attr, value)])

    def handle_starttag(self, tag, attrs):
        self.tags.append((tag, attrs))

    def handle_startendtag(self, tag, attrs):
        self.tags.append((tag, attrs))

    def handle_endtag(self, tag):
        self.tags.append(('/' + tag, []))


def check_response(case, raw, pays, Ns, httpref):
    """Returns (outcome, [(key, text)])."""
    outcome = None
    out = []
    for pay, N in zip(pays, Ns):
        oc, o = check_one(case, raw, pay, N, httpref)
        out += [x for x in o if x not in out]
        if outcome is None or oc.endswith(':reflected'):
            outcome = oc
    return outcome, out


def check_one(case, raw, pay, N, httpref):
    out = []
    m = httpref.parse_response(raw, 'GET', eof=True)
    trig, field = case['trig'], case['field']
    base = key_of(case)
    if not raw:
        return 'no-response', out
    if not m.head_complete or (m.error and not m.headers):
        # header section itself is broken: a CR/LF injection would look like this
        head = raw.split(b'\r\n\r\n', 1)[0]
        if N in head:
            out.append(('header-section:%s' % base, 'response header section does not parse (%s) and carries the payload nonce: %r' % (m.error, head[:400])))
        return 'unparsable-response', out
    lowN = N.decode().lower()
    for name, value in m.headers:
        if lowN in name.lower():
            out.append(('header-name:%s' % base, 'response header field name originates from the payload: %r' % name))
        v = value.encode('latin1')
        if pay in v and any(c in pay for c in b'<>"\r\n'):
            out.append(('header-value:%s:%s' % (name.lower(), base), 'response header %s reflects the payload verbatim: %r' % (name, value[:300])))
    body = m.body if m.body is not None else b''
    ctype = (m.get('content-type') or '').lower()
    page = m.get('x-squid-error') or ''
    is_page = 'text/html' in ctype and bool(page)
    if m.status in (301, 302, 303, 307, 308):
        loc = (m.get('location') or '').encode('latin1')
        if any(c in loc for c in b' <>"\'') or b'\r' in loc or b'\n' in loc:
            out.append(('location:%s' % base, 'redirect Location contains raw delimiter bytes: %r' % loc[:400]))
        outcome = 'redirect:' + ('reflected' if N in loc else 'not-reflected')
        return outcome, out
    if not is_page:
        return 'not-an-error-page:%d' % m.status, out
    pname = page.split(' ')[0]
    # (1) structure
    sc = Scan()
    try:
        sc.feed(body.decode('latin1'))
        sc.close()
    except Exception as e:     # html.parser is lenient; an exception is a harness problem
        raise HarnessError('html.parser failed on an error page: %r' % e)
    for tag, attrs in sc.tags:
        if lowN in tag.lower():
            out.append(('markup:%s:%s' % (pname, base), 'error page %s contains an element <%s> that originates from the payload' % (pname, tag)))
        for a, v in attrs:
            if lowN in (a or '').lower():
                out.append(('markup-attr:%s:%s' % (pname, base), 'error page %s contains an attribute %s= on <%s> that originates from the payload' % (pname, a, tag)))
    # (2) verbatim reflection of a payload that carries HTML metacharacters
    if any(c in pay for c in b'<>"\'&') and pay in body:
        i = body.find(pay)
        out.append(('verbatim:%s:%s' % (pname, base), 'error page %s reflects the payload verbatim (not HTML-escaped): ...%r...' % (
            pname, body[max(0, i - 60):i + len(pay) + 30])))
    # (2b) the bytes of the payload right in front of / behind the nonce, when they contain a metacharacter, must not
    # appear raw next to the nonce (catches reflections that alter other parts of the payload)
    k = pay.find(N)
    before = pay[max(0, k - 6):k]
    after = pay[k + len(N):k + len(N) + 3]
    for mt in re.finditer(re.escape(N), body):
        hit = None
        if before and any(c in before for c in b'<>"\'&') and body[max(0, mt.start() - len(before)):mt.start()] == before:
            hit = before
        elif after and any(c in after for c in b'<>"\'&') and body[mt.end():mt.end() + len(after)] == after:
            hit = after
        if hit:
            out.append(('verbatim:%s:%s' % (pname, base), 'error page %s reflects %r raw next to the nonce: ...%r...' % (
                pname, hit, body[max(0, mt.start() - 60):mt.end() + 30])))
            break
    reflected = N in body
    return 'page:%s:%s' % (pname, 'reflected' if reflected else 'not-reflected'), out


def key_of(case):
    return '%s:%s:%s%s' % (case['trig'], case['field'], case['payload'],
                           ('+%s:%s' % (case['field2'], case['payload2'])) if case.get('field2') else '')


def run_case(w, case):
    if case.get('noop'):
        return {'outcome': 'noop', 'violation': None, 'transcript': ''}
    req, pays, Ns = build_request(w, case)
    trig = case['trig']
    w.auth_answer = b'ERR' if trig == 'auth-407' else b'OK'
    w.origin_mode = {'read-error': 'rst', 'zero-size': 'close', 'invalid-resp': 'garbage', 'read-timeout': 'silent'}.get(trig, 'ok')
    c = w.sq.client()
    c.send(req)
    ex = ls.Exchange()
    idle = 0
    advanced = 0
    for step in range(60):
        w.sq.settle()
        progressed = w._origin_step(None, ex)
        if c.pump():
            progressed = True
        m = w.httpref.parse_response(c.inbuf, 'GET', eof=c.eof)
        if (m.complete and not m.error) or c.eof:
            if not progressed:
                break
        if progressed:
            idle = 0
            continue
        idle += 1
        if idle >= 2:
            # nothing moves: let virtual time pass (DNS / connect / read timeouts)
            if advanced >= 200:
                break
            w.sq.advance(4000, rounds=2)
            advanced += 4
    raw = c.inbuf
    c.close()
    w.sq.settle(1)
    w.close_origin_conns()
    outcome, vios = check_response(case, raw, pays, Ns, w.httpref)
    head = raw.split(b'\r\n\r\n', 1)[0]
    status_line = head.split(b'\r\n', 1)[0]
    xse = re.search(rb'(?im)^X-Squid-Error: ([^\r\n]*)', head)
    transcript = '%s | %s | %d bytes | %s' % (status_line.decode('latin1'), xse.group(1).decode('latin1') if xse else '-', len(raw), outcome)
    res = {'outcome': outcome, 'violation': None, 'transcript': transcript}
    want = EXPECT_PAGE.get(trig)
    if want and outcome.startswith('page:') and outcome.split(':')[1] == want:
        res['outcome'] = 'intended-' + outcome
    if trig == 'control-raw':
        # deliberately unescaped by configuration: not a violation, but the oracle has to notice it
        res['outcome'] = 'control:' + ('detected' if vios else 'missed') + ':' + case['payload']
        res['transcript'] += ' ' + res['outcome']
        return res
    if vios:
        res['violation'] = ' ;; '.join('%s || %s' % (k, t) for k, t in vios[:6]) + ' | request %r' % req[:400]
    return res


ASSUME = ['the real squid binary (ASan build of the current tree) runs under the lock-step/virtual-time shim; client, origin and the '
          'Basic-auth helper are played by the driver',
          'error pages are the English stock templates of the tree (errors/templates) and copies of them that additionally expand the '
          'client-influenced %codes a B H M o p P R U u z Z x m I i E D in element content, a double-quoted and a single-quoted attribute; '
          '%O %L %l %S (documented as unescaped admin/helper text) and the FTP codes (no FTP peer) are not exercised',
          'Python html.parser decides what is an element / attribute; nonces are unique per case, so markup carrying the nonce can only '
          'come from the payload']
RULE = ('product of 17 error triggers (access denied, custom deny_info page, deny_info redirect, 407, invalid URL, invalid request, '
        'unsupported HTTP version, DNS failure, connect failure, request too big, unsupported request, read error, zero-size reply, '
        'invalid response, forwarding denied (miss_access), only-if-cached miss, read timeout) x 8 client-controlled fields (URL path, query, host, method, '
        'X-V / User-Agent / Cookie value, Basic user name) x 11 markup payloads (quick: about half of the products, every payload with '
        'every trigger and field; thorough: plus every pair of fields carrying two payloads at once) x 2 template sets (stock / all-codes, by shard); non-trivial = cases answered with a Squid-generated '
        'error page or redirect in which the payload nonce was reflected in some encoding')


def run(ctx):
    ls.build_squid(ctx)
    nshards = max(2, min(ctx.ncpu, 6 if ctx.quick else 8))
    base_cases = all_cases(ctx)
    # shard s uses template set s % 2; every case is run with both sets
    per = [[] for _ in range(nshards)]
    for tset in (0, 1):
        shards = [s for s in range(nshards) if s % 2 == tset]
        for i, c in enumerate(base_cases):
            cc = dict(c)
            cc['tset'] = 'stock' if tset == 0 else 'allcodes'
            per[shards[i % len(shards)]].append(cc)
    mlen = max(len(p) for p in per)
    cases = []
    for k in range(mlen):
        for s in range(nshards):
            cases.append(per[s][k] if k < len(per[s]) else {'noop': True, 'trig': 'noop', 'field': '', 'payload': '', 'n': 0})

    def make_world(ctx_, shard):
        return ErrWorld(ctx_, 'w%d' % shard, ls.port_base_for_check(ctx_.pid, shard), 'stock' if shard % 2 == 0 else 'allcodes')

    def rc(w, case):
        if not case.get('noop') and case['tset'] != w.templates:
            raise HarnessError('case for template set %s arrived at a %s instance' % (case['tset'], w.templates))
        return run_case(w, case)
    r = ls.run_cases(ctx, cases, rc, make_world, key_of=lambda c: 'noop' if c.get('noop') else key_of(c) + ':' + c['tset'], nshards=nshards)
    oc = dict((k, v) for k, v in r['outcomes'].items() if k != 'noop')
    evals = sum(oc.values())
    total = 2 * len(base_cases)
    reflected = sum(v for k, v in oc.items() if k.endswith(':reflected') or k.startswith('control:detected'))
    intended = sum(v for k, v in oc.items() if k.startswith('intended-'))
    pages = sorted(set(k.split(':')[1] for k in oc if k.startswith('intended-page:') or k.startswith('page:')))
    vio = []
    seen = set()
    for k, what, c in r['violations']:
        for part in what.split(' | request ')[0].split(' ;; '):
            vkey, _, text = part.partition(' || ')
            vkey = vkey + ':' + c.get('tset', '')
            if vkey in seen:
                continue
            seen.add(vkey)
            vio.append(Violation(vkey, '[case %s, %s templates] %s | request %s' % (k, c.get('tset'), text, what.split(' | request ')[-1][:500]), {'case': c}))
    obs = []
    for k, what, c in r['crashes']:
        vio.append(Violation('crash:' + k, 'squid crashed/asserted during case %s: %s' % (k, what), {'case': c}))
    ctl_detected = sum(v for k, v in oc.items() if k.startswith('control:detected'))
    ctl_missed = sorted(k for k in oc if k.startswith('control:missed'))
    if not r['deadline_hit']:
        # positive control: raw reflection configured by the administrator must be recognised for every payload that
        # carries a raw metacharacter (all but the %-encoded one)
        if ctl_detected < 2 * 10 or ctl_missed != ['control:missed:pct']:
            raise HarnessError('oracle self-test failed: deliberately unescaped reflection detected in %d control cases, missed in %r' % (ctl_detected, ctl_missed))
    if not r['deadline_hit'] and not vio:
        if reflected < evals // 4 or intended < evals // 3 or len(pages) < 10:
            raise HarnessError('vacuity guard: reflected=%d intended=%d of %d, pages=%r, outcomes=%r' % (reflected, intended, evals, pages, oc))
    cov = {'evaluations': evals, 'distinct_nontrivial': reflected, 'rule': RULE, 'samples': [s for s in r['samples'] if not s['case'].get('noop')],
           'outcome_classes': oc, 'exhaustive': not r['deadline_hit'] and evals == total, 'cases_total': total,
           'error_pages_seen': pages, 'positive_control_detected': ctl_detected, 'positive_control_missed': ctl_missed, 'cases_with_intended_page': intended, 'kicks': r['kicks'], 'determinism_replays': r['replays']}
    return Result(LEVEL, cov, vio, ASSUME, obs)


def replay(ctx, data):
    ls.build_squid(ctx)
    case = data['case']
    w = ErrWorld(ctx, 'w0', ls.port_base_for_check(ctx.pid, 0), case.get('tset', 'stock'))
    w.start()
    try:
        r = run_case(w, case)
        print(r['transcript'])
    finally:
        w.stop()
    v = []
    if r['violation']:
        for part in r['violation'].split(' | request ')[0].split(' ;; '):
            vkey, _, text = part.partition(' || ')
            v.append(Violation(vkey + ':' + case.get('tset', ''), text, data))
    return Result(LEVEL, {}, v, ASSUME)
