"""C26 Content-Length is accepted only when unambiguous — E1, exhaustive value grid through HttpHeader::parse."""
from vverif import seq
from vverif.core import Result, HarnessError

LEVEL = 'exploration'
RULE = ('every combination of Content-Length fields built from a grid of 14 values (quick; 22 thorough: 0 1 5 05 empty SP HTAB +5 -5 5a a '
        '2^63-1 2^63 2^64+5 [23-digit 5, "5 5", 0x5, "5;q", 5.0, -0, 5 HTAB, fullwidth 6]): one field with a list of <= 3 values, two fields '
        '(<= 2 x <= 2 values; thorough also a comma-separated list of 3 x <= 2 over the 14-value grid), three single-value fields; list separators ",", ", ", " ,"; each combination x 3 '
        'layouts (alone / between other fields / lower+upper-case names without SP) x {request, reply 200, reply 204, reply 100} x '
        'relaxed_header_parser {off, on} x {without, with Transfer-Encoding: chunked}. Oracle = the statement: a length is used only if it '
        'is the decimal every value spells (valid 1*DIGIT <= 2^63-1, all equal) and, when there are several values, only with relaxed parsing; '
        'one valid value must be used; equal duplicates must be used with relaxed parsing and be bad framing without; invalid or differing '
        'values must be bad framing (block rejected or conflictingContentLength()); with Transfer-Encoding or a 1xx/204 status Content-Length '
        'must not be used. non-trivial = combinations containing at least one digit')
ASSUME = ['tests/testHttpRequest link set: real ContentLengthInterpreter, HttpHeader.cc, HttpHeaderTools.cc, StrList.cc, String',
          '"framing length taken" is observed as callers do: parse() accepted, conflictingContentLength() false, has(Content-Length), getInt64()',
          '"bad framing" = parse() rejects the block or conflictingContentLength() is set (HttpRequest.cc and http.cc act on that flag)',
          'empty list elements ("5,", "5,,5") are not covered by the statement: such a field may be used (if everything else is one decimal) or be bad framing']


def _build(ctx):
    return seq.build(ctx, 'tests/testHttpRequest', ['C26_clen.cc'])


def run(ctx):
    exe = _build(ctx)
    m = seq.run(ctx, exe)
    oc, cnt = m['outcomes'], m['counters']
    # vacuity guards apply to complete runs without (unknown) violations
    if not m['deadline_hit'] and not m['failures'] and not m['crashes']:
        for c, least in (('length_taken', 1000), ('bad_framing', 1000), ('rejected', 1000), ('conflict_flag', 1000), ('overridden_by_te_or_status', 1000),
                         ('duplicates_accepted_relaxed', 100), ('duplicates_refused_strict', 100), ('sanitised_to_one_entry', 100)):
            if cnt.get(c, 0) < least:
                raise HarnessError('vacuity guard: counter %s = %d < %d' % (c, cnt.get(c, 0), least))
    nontriv = [k for k in oc if k.startswith('num:')]
    cov = seq.coverage_from(m, RULE, nontrivial_classes=nontriv, min_classes=1 if m['deadline_hit'] else 5)
    cov['parse_calls'] = cnt.get('parse_calls', 0)
    return Result(LEVEL, cov, seq.violations_from(m), ASSUME)


def replay(ctx, data):
    exe = _build(ctx)
    m = seq.replay_case(ctx, exe, data['case'])
    m.setdefault('deadline_hit', False)
    return Result(LEVEL, {}, seq.violations_from(m), ASSUME)
