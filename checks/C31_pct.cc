// C31 — percent-encoding round trips (E1).
// Real code: AnyP::Uri::Encode / Decode (src/anyp/Uri.cc) and rfc1738_do_escape / rfc1738_unescape
// (lib/rfc1738.cc), both recompiled from the current tree with ASan+UBSan.
// Memory oracle: inputs live in exact-size heap blocks; rfc1738_do_escape's static result buffer is an
// exact-size xcalloc block (3n+1 for the longest input so far; strings are enumerated in increasing
// length); rfc1738_unescape works in place in an exact-size block.
#include "squid.h"
#include "anyp/Uri.h"
#include "base/CharacterSet.h"
#include "rfc1738.h"
#include "sbuf/SBuf.h"

#include "vharness.h"

namespace {

struct NamedSet { const char *name; CharacterSet set; };
std::vector<NamedSet> *sets = nullptr;

void initSets()
{
    sets = new std::vector<NamedSet>;
    sets->push_back({"unreserved", CharacterSet::RFC3986_UNRESERVED()});      // Squid's own RFC 3986 unreserved set
    // what Uri::absolute() uses for userinfo: unreserved / sub-delims / ":" (without "%")
    sets->push_back({"userinfo", (CharacterSet("ui", ":-._~!$&'()*+,;=") + CharacterSet::ALPHA + CharacterSet::DIGIT).rename("userinfo")});
    sets->push_back({"none", CharacterSet("none", "")});
    sets->push_back({"all-but-percent", CharacterSet("pct", "%").complement("all-but-percent")});
}

int hexv(unsigned char c)
{
    if (c >= '0' && c <= '9') return c - '0';
    if (c >= 'a' && c <= 'f') return c - 'a' + 10;
    if (c >= 'A' && c <= 'F') return c - 'A' + 10;
    return -1;
}

// reference percent-decoder; false if some "%" is not followed by two hex digits
bool refDecode(const std::string &s, std::string &out)
{
    for (size_t i = 0; i < s.size(); ++i) {
        if (s[i] != '%') { out += s[i]; continue; }
        if (!(i + 2 < s.size())) return false;
        const int a = hexv(s[i + 1]), b = hexv(s[i + 2]);
        if (a < 0 || b < 0) return false;
        out += (char)(a << 4 | b);
        i += 2;
    }
    return true;
}

std::string str(const SBuf &b) { return std::string(b.rawContent(), b.length()); }

uint64_t nEncode = 0, nDecode = 0, nEscape = 0, nUnescape = 0, nTriplets = 0, nGrow = 0;
size_t longestEscaped = 0;

// AnyP::Uri::Encode + Decode on one byte string; returns the number of triplets produced with the unreserved set
unsigned checkUri(const std::string &s, const std::string &label)
{
    unsigned trip = 0;
    char *in = (char *)malloc(s.size() ? s.size() : 1);          // exact size, no terminator
    memcpy(in, s.data(), s.size());
    for (const NamedSet &ns : *sets) {
        ++nEncode;
        SBuf raw;
        raw.append(in, s.size());
        const SBuf enc = AnyP::Uri::Encode(raw, ns.set);
        const std::string e = str(enc);
        bool okAlpha = true;
        for (size_t i = 0; i < e.size(); ++i) {
            const unsigned char c = e[i];
            if (c == '%') {
                if (!(i + 2 < e.size()) || hexv(e[i + 1]) < 0 || hexv(e[i + 2]) < 0) { okAlpha = false; break; }
                if (&ns == &(*sets)[0]) ++trip;     // counted for the "unreserved" set only
                i += 2;
            } else if (!ns.set[c]) { okAlpha = false; break; }
        }
        if (!okAlpha) { V::fail("Encode(" + label + ", " + ns.name + ") = \"" + V::esc(e.substr(0, 120)) + "\" contains a character outside the ignored set that is not part of a %XX triplet"); continue; }
        ++nDecode;
        const auto dec = AnyP::Uri::Decode(enc);
        if (!dec) { V::fail("Decode(Encode(" + label + ", " + ns.name + ") = \"" + V::esc(e.substr(0, 120)) + "\") failed"); continue; }
        if (str(*dec) != s) V::fail("Decode(Encode(" + label + ", " + ns.name + ") = \"" + V::esc(e.substr(0, 120)) + "\") = \"" + V::esc(str(*dec).substr(0, 120)) + "\", not the original");
    }
    free(in);
    nTriplets += trip;
    return trip;
}

const int roundTripFlags[] = {RFC1738_ESCAPE_UNSAFE | RFC1738_ESCAPE_CTRLS /* rfc1738_escape */, RFC1738_ESCAPE_ALL /* rfc1738_escape_part */,
                              RFC1738_ESCAPE_UNSAFE, RFC1738_ESCAPE_UNSAFE | RFC1738_ESCAPE_RESERVED, RFC1738_ESCAPE_ALL | RFC1738_ESCAPE_NOSPACE
                             };
// these leave "%" alone, so only the memory oracle and "unescaping does not grow" apply
const int otherFlags[] = {RFC1738_ESCAPE_UNESCAPED /* rfc1738_escape_unescaped */, RFC1738_ESCAPE_CTRLS, RFC1738_ESCAPE_RESERVED, 0};

// in-place unescape in an exact-size block; returns the result
std::string unescapeExact(const std::string &s)
{
    ++nUnescape;
    char *b = (char *)malloc(s.size() + 1);
    memcpy(b, s.c_str(), s.size() + 1);
    rfc1738_unescape(b);
    const std::string r(b);
    free(b);
    return r;
}

// legacy escaping of one NUL-free string; returns the number of triplets produced by rfc1738_escape
unsigned checkLegacy(const std::string &s, const std::string &label)
{
    unsigned trip = 0;
    char *in = (char *)malloc(s.size() + 1);
    memcpy(in, s.c_str(), s.size() + 1);
    if (s.size() > longestEscaped) { longestEscaped = s.size(); ++nGrow; }
    for (int f : roundTripFlags) {
        ++nEscape;
        const std::string e = rfc1738_do_escape(in, f);
        if (f == roundTripFlags[0]) for (char c : e) if (c == '%') ++trip;
        if (e.size() > 3 * s.size()) V::fail("rfc1738_do_escape(" + label + ", " + std::to_string(f) + ") is longer than 3 x input");
        const std::string back = unescapeExact(e);
        if (back != s) V::fail("rfc1738_unescape(rfc1738_do_escape(" + label + ", flags=" + std::to_string(f) + ") = \"" + V::esc(e.substr(0, 120)) + "\") = \"" + V::esc(back.substr(0, 120)) + "\", not the original");
    }
    for (int f : otherFlags) {
        ++nEscape;
        const std::string e = rfc1738_do_escape(in, f);
        const std::string back = unescapeExact(e);
        if (back.size() > e.size()) V::fail("rfc1738_unescape grew its input");
    }
    free(in);
    nTriplets += trip;
    return trip;
}

void one(const std::string &s, unsigned &trip)
{
    const std::string label = "\"" + V::esc(s) + "\"";
    trip += checkUri(s, label);
    if (s.find('\0') == std::string::npos) trip += checkLegacy(s, label);
}

void enumStrings(const std::string &alpha, int maxLen, const std::function<void(const std::string &)> &f)
{
    std::vector<int> idx;
    for (int len = 0; len <= maxLen; ++len) {
        idx.assign(len, 0);
        for (;;) {
            std::string s;
            for (int i : idx) s += alpha[i];
            f(s);
            int k = len - 1;
            while (k >= 0 && ++idx[k] == (int)alpha.size()) { idx[k] = 0; --k; }
            if (k < 0) break;
        }
    }
}

void body(V::Ctx &ctx)
{
    initSets();
    // (a) all byte strings of length 0, 1, 2
    {
        unsigned t = 0;
        if (V::begin_case("e:")) { one("", t); V::outcome("nothing-to-encode"); V::end_case(); }
    }
    for (int a = 0; a < 256; ++a) {
        const std::string s(1, (char)a);
        if (V::begin_case("e:" + V::esc(s))) { unsigned t = 0; one(s, t); V::outcome(t ? "encoded-something" : "nothing-to-encode"); V::end_case(); }
    }
    for (int a = 0; a < 256; ++a)
        for (int b = 0; b < 256; ++b) {
            std::string s; s += (char)a; s += (char)b;
            if (V::begin_case("e:" + V::esc(s))) { unsigned t = 0; one(s, t); V::outcome(t ? "encoded-something" : "nothing-to-encode"); V::end_case(); }
        }
    // (b) length 3: quick = over a 41-symbol alphabet, thorough = all 2^24 (third byte varied inside the case)
    std::string alpha3 = std::string("%04AafgGz <>\"#{}|\\^~[]`';/?:@=&+-._") + '\x01' + '\x1f' + '\x7f' + '\x80' + '\xff';
    alpha3 += '\0';
    std::string all;
    for (int a = 0; a < 256; ++a) all += (char)a;
    const std::string &A = ctx.quick() ? alpha3 : all;
    for (char a : A)
        for (char b : A) {
            std::string d; d += a; d += b;
            if (!V::begin_case("e3:" + V::esc(d) + "*")) continue;
            unsigned t = 0;
            for (char c : A) { std::string s = d; s += c; one(s, t); }
            V::outcome(t ? "encoded-something" : "nothing-to-encode");
            V::end_case();
        }
    // (c) Decode / unescape on every string up to N over a "%"-heavy alphabet
    const std::string dalpha = std::string("%04gaFx") + '\x80';
    enumStrings(dalpha, ctx.quick() ? 5 : 7, [&](const std::string &s) {
        if (!V::begin_case("d:" + V::esc(s))) return;
        ++nDecode;
        SBuf in;
        in.append(s.data(), s.size());
        const auto dec = AnyP::Uri::Decode(in);
        std::string want;
        const bool valid = refDecode(s, want);
        if (valid) {
            if (!dec) V::fail("Decode(\"" + V::esc(s) + "\") failed although every % is followed by two hex digits");
            else if (str(*dec) != want) V::fail("Decode(\"" + V::esc(s) + "\") = \"" + V::esc(str(*dec)) + "\", expected \"" + V::esc(want) + "\"");
        }
        const std::string u = unescapeExact(s);     // arbitrary, possibly malformed input: memory oracle + never grows
        if (u.size() > s.size()) V::fail("rfc1738_unescape(\"" + V::esc(s) + "\") grew its input");
        const bool hasPct = s.find('%') != std::string::npos;
        V::outcome(!hasPct ? "decode:no-percent" : valid ? "decode:well-formed-triplets" : dec ? "decode:malformed-accepted" : "decode:malformed-rejected");
        V::end_case();
    });
    // (d) long strings, lengths going up, down and up again
    const size_t lens[] = {100, 4096, 10, 4095, 4097, 1, ctx.quick() ? (size_t)5000 : (size_t)65535};
    const char *units[] = {"%", " ", "a", "\xff", "%41", "a%", "<a b>", "~", "\x01"};
    for (const char *u : units)
        for (size_t n : lens) {
            std::string s;
            while (s.size() + strlen(u) <= n) s += u;
            const std::string label = "\"" + V::esc(u) + "\" repeated to " + std::to_string(s.size()) + " bytes";
            if (!V::begin_case("L:" + label)) continue;
            unsigned t = checkUri(s, label);
            t += checkLegacy(s, label);
            V::outcome(t ? "encoded-something" : "nothing-to-encode");
            V::end_case();
        }
    V::count("encode_calls", nEncode);
    V::count("decode_calls", nDecode);
    V::count("escape_calls", nEscape);
    V::count("unescape_calls", nUnescape);
    V::count("triplets_produced", nTriplets);
    V::count("escape_buffer_growths", nGrow);
}

} // namespace

VHARNESS_MAIN(body)
