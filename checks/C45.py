"""C45 http_access decisions are enforced end to end — E3, configuration sweep x complete request universe.

Every generated access section (rule lists over a pool of 8 ACLs of the types src, dst, dstdomain, port and
method, each literal possibly negated) is loaded into the real squid binary; then every request of a small
universe (3 host names x 2 origin ports x {GET, POST, CONNECT} x 2 client source addresses = 36, plus 4 requests with the extension methods SYNC and MKFOO = 40) is sent
through it.  The driver owns a listener on every origin address/port of the universe.  Oracle: a reference
first-match evaluator written from the squid.conf documentation of http_access and of the five ACL types:
allowed <=> the request arrives at the origin it names; denied => 403 access-denied and zero arrivals.
"""
import os
import re
import signal
import socket
import time

from vverif import lockstep as ls
from vverif import httpref
from vverif.core import Result, Violation, HarnessError

LEVEL = 'exploration'

# ------------------------------------------------------------------ universe
HOSTS = [('a.test', '127.0.0.3'), ('b.a.test', '127.0.0.4'), ('c.test', '127.0.0.5')]
HOSTIP = dict(HOSTS)
PORTS = ['P1', 'P2']                    # symbolic; real numbers are per shard (port_base+1, port_base+2)
METHODS = ['GET', 'POST', 'CONNECT']
SOURCES = ['127.0.0.1', '127.0.0.2']


def universe():
    return [{'src': s, 'host': h, 'port': p, 'method': m} for s in SOURCES for h, _ in HOSTS for p in PORTS for m in METHODS]


# Two extension methods Squid has no code for (all of them are METHOD_OTHER internally and differ only by name):
# the method ACL below lists SYNC, so a SYNC request must match it and a MKFOO request must not.
EXT_METHODS = ['SYNC', 'MKFOO']
UNIVERSE = universe() + [{'src': '127.0.0.1', 'host': 'a.test', 'port': 'P1', 'method': m} for m in EXT_METHODS] \
                      + [{'src': '127.0.0.2', 'host': 'c.test', 'port': 'P2', 'method': m} for m in EXT_METHODS]

# ------------------------------------------------------------------ ACL pool: name -> (squid.conf text, reference predicate)
# The predicates are written from the ACL documentation in squid.conf.documented (acl src / dst / dstdomain / port /
# method), not from Squid's code:
#   src ip-address/mask        clients IP address
#   dst ip-address/mask        URL host's IP address
#   dstdomain .foo.com         matches foo.com and every host below it; without the leading dot: that exact name only
#   port 80                    destination TCP port
#   method GET                 request method


def _ip(s):
    a, b, c, d = (int(x) for x in s.split('.'))
    return (a << 24) | (b << 16) | (c << 8) | d


def _in_net(ip, net, bits):
    mask = (0xFFFFFFFF << (32 - bits)) & 0xFFFFFFFF
    return (_ip(ip) & mask) == (_ip(net) & mask)


def _dom(pattern, host):
    host = host.lower().rstrip('.')
    if pattern.startswith('.'):
        return host == pattern[1:] or host.endswith(pattern)
    return host == pattern


POOL = [
    ('s1', 'src 127.0.0.1', lambda r: _in_net(r['src'], '127.0.0.1', 32)),
    ('dB', 'dst 127.0.0.4', lambda r: _in_net(HOSTIP[r['host']], '127.0.0.4', 32)),
    ('dBC', 'dst 127.0.0.4/30', lambda r: _in_net(HOSTIP[r['host']], '127.0.0.4', 30)),
    ('domA', 'dstdomain .a.test', lambda r: _dom('.a.test', r['host'])),
    ('domAx', 'dstdomain a.test', lambda r: _dom('a.test', r['host'])),
    ('p1', 'port P1', lambda r: r['port'] == 'P1'),
    ('mG', 'method GET SYNC', lambda r: r['method'] in ('GET', 'SYNC')),
    ('mC', 'method CONNECT', lambda r: r['method'] == 'CONNECT'),
]
POOLD = {n: (t, f) for n, t, f in POOL}
LITERALS = [n for n, _, _ in POOL] + ['!' + n for n, _, _ in POOL]


def lit_match(lit, req):
    neg = lit.startswith('!')
    v = POOLD[lit.lstrip('!')][1](req)
    return (not v) if neg else v


def ref_allowed(rules, req):
    """Reference evaluation of an http_access section.  rules: list of (action, [literal, ...]).
    squid.conf.documented, http_access: rules are checked in order, the first rule all of whose ACLs match decides;
    "If there are no access lines present, the default is to deny the request.  If none of the access lines cause a
    match, the default is the opposite of the last line in the list." """
    if not rules:
        return False
    for action, lits in rules:
        if all(lit_match(l, req) for l in lits):
            return action == 'allow'
    return rules[-1][0] != 'allow'


def conf_text(rules, p1, p2):
    L = ['cache deny all']
    for n, t, _ in POOL:
        L.append('acl %s %s' % (n, t.replace('P1', str(p1)).replace('P2', str(p2))))
    for action, lits in rules:
        L.append('http_access %s %s' % (action, ' '.join(lits)))
    return '\n'.join(L)


def rules_key(rules):
    return '; '.join('%s %s' % (a, ' '.join(l)) for a, l in rules) or '(no http_access lines)'


# ------------------------------------------------------------------ configuration spaces

def rules1():
    return [(a, [l]) for a in ('allow', 'deny') for l in LITERALS]


def rules2(ordered):
    """Rules with two literals over different ACL names (unordered: the pool order; ordered: both orders), plus the
    contradictory pair x !x (never matches)."""
    out = []
    names = [n for n, _, _ in POOL]
    for a in ('allow', 'deny'):
        for i, x in enumerate(names):
            for j, y in enumerate(names):
                if i == j or (not ordered and j < i):
                    continue
                for sx in ('', '!'):
                    for sy in ('', '!'):
                        out.append((a, [sx + x, sy + y]))
        for x in names:
            out.append((a, [x, '!' + x]))
            if ordered:
                out.append((a, ['!' + x, x]))
    return out


def config_space(tier):
    """Deterministic list of (class, rules), in this order (a deadline cut therefore leaves whole classes complete):
       L0    no http_access line at all
       L1    one rule, one literal                                  (32)
       L2    one rule, two literals over different ACLs, or x !x    (quick: unordered pairs 240; thorough: both orders 480)
       L11d  two single-literal rules with different actions        (512)
       L11s  two single-literal rules with the same action          (512, thorough only)
       L12   two rules, 1+2 literals (unordered pair)               (7680, thorough only)
       L21   two rules, 2+1 literals (unordered pair)               (7680, thorough only)
    """
    R1 = rules1()
    R2 = rules2(False)
    out = [('L0', [])]
    out += [('L1', [r]) for r in R1]
    out += [('L2', [r]) for r in (R2 if tier == 'quick' else rules2(True))]
    out += [('L11d', [r, s]) for r in R1 for s in R1 if r[0] != s[0]]
    if tier != 'quick':
        out += [('L11s', [r, s]) for r in R1 for s in R1 if r[0] == s[0]]
        out += [('L12', [r, s]) for r in R1 for s in R2]
        out += [('L21', [s, r]) for r in R1 for s in R2]
    return out


# ------------------------------------------------------------------ the world: squid + 6 origin listeners

class CWorld:
    def __init__(self, ctx, shard, name=None):
        self.ctx = ctx
        self.shard = shard
        self.pb = ls.port_base_for_check(ctx.pid, shard)
        self.p1, self.p2 = self.pb + 1, self.pb + 2
        self.sq = None
        self.listeners = {}
        self.name = name or ('w%d' % shard)
        self.seq = 0
        self.reconfigs = 0
        self.starts = 0
        self.oconns = []

    def portnum(self, sym):
        return self.p1 if sym == 'P1' else self.p2

    def open_listeners(self):
        for h, ip in HOSTS:
            for sym in PORTS:
                self.listeners[(h, sym)] = ls.Listener(self.portnum(sym), host=ip)

    def start(self, rules):
        if not self.listeners:
            self.open_listeners()
        if self.sq is not None:
            self.sq.cleanup()
        for attempt in range(5):
            self.sq = ls.Squid(self.ctx, self.name, self.pb, conf=conf_text(rules, self.p1, self.p2), default_acl=False)
            os.makedirs(self.sq.dir, exist_ok=True)
            self.sq.set_hosts(HOSTIP)
            try:
                self.sq.start()
                break
            except HarnessError as e:
                # on an overloaded machine the (real-time) 60 s start-up allowance of the engine can expire
                self.sq.cleanup()
                if attempt == 4 or 'not ready after' not in str(e):
                    raise
        self.starts += 1
        self.rules = rules
        self.logpos = 0
        self.new_log()
        return self

    def new_log(self):
        """Text appended to cache.log since the last call (the log grows with every reconfiguration)."""
        try:
            with open(os.path.join(self.sq.dir, 'cache.log'), 'rb') as f:
                f.seek(self.logpos)
                d = f.read()
        except OSError:
            return ''
        self.logpos += len(d)
        return d.decode('latin1')

    def problems(self):
        """Crash / assertion / sanitizer evidence since the last call."""
        probs = ['sanitizer: ' + r[:1500] for r in self.sq.asan_reports()]
        for m in re.finditer(r'^.*(assertion failed|FATAL:|dying from an unhandled exception|Received Segment Violation).*$', self.new_log(), re.M):
            probs.append('cache.log: ' + m.group(0)[:300])
        if not self.sq.alive():
            probs.append('squid exited with status %s' % self.sq.proc.returncode)
        return probs

    def reconfigure(self, rules):
        """Load another access section into the running instance (SIGHUP) and bring it to a fixed point."""
        sq = self.sq
        sq.conf_extra = conf_text(rules, self.p1, self.p2)
        sq.write_conf()
        sq._chown()
        self.new_log()
        sq.signal(signal.SIGHUP)
        seen = ''
        for i in range(60):
            sq.advance(50, rounds=1)
            if not sq.alive():
                raise HarnessError('squid exited during reconfiguration: ' + sq.cache_log()[-1200:])
            seen += self.new_log()
            if 'Accepting HTTP Socket connections' in seen:
                break
        else:
            raise HarnessError('reconfiguration did not finish: ' + sq.cache_log()[-1200:])
        if 'Reconfiguring Squid Cache' not in seen or re.search(r'FATAL|ERROR|WARNING', seen):
            raise HarnessError('unexpected cache.log content during reconfiguration: ' + seen[-1200:])
        sq.advance(50, rounds=2)
        self.reconfigs += 1
        self.rules = rules

    def stop(self):
        try:
            if self.sq is not None:
                self.sq.cleanup()
        finally:
            for oc in self.oconns:
                oc['c'].close()
            for l in self.listeners.values():
                l.close()
            self.listeners = {}

    # ---- one batch of requests, all in flight together
    def client(self, src):
        s = socket.socket(socket.AF_INET, socket.SOCK_STREAM)
        # IP_BIND_ADDRESS_NO_PORT (Linux): pick the source port at connect() time, where only the 4-tuple has to be
        # unique; a plain bind((src, 0)) draws from one pool of ~28 k ports per source address for ALL destinations
        # and runs dry (EADDRINUSE) when a fast machine makes more connections than that within TIME_WAIT
        try:
            s.setsockopt(socket.IPPROTO_IP, 24, 1)
        except OSError:
            pass
        s.bind((src, 0))
        s.connect(('127.0.0.1', self.sq.http_port))
        return ls.Conn(s)

    def run_requests(self, reqs, max_steps=60):
        """Send all reqs (dicts of the universe) concurrently; returns one observation per request:
        {'status': int, 'err': X-Squid-Error value or '', 'arrivals': [(host, portsym), ...], 'wrong': [...]}"""
        sq = self.sq
        st = []
        for r in reqs:
            self.seq += 1
            tag = 'k%dz' % self.seq
            hp = '%s:%d' % (r['host'], self.portnum(r['port']))
            if r['method'] == 'CONNECT':
                raw = 'CONNECT %s HTTP/1.1\r\nHost: %s\r\n\r\n' % (hp, hp)
            elif r['method'] == 'POST':
                raw = 'POST http://%s/%s HTTP/1.1\r\nHost: %s\r\nContent-Length: 3\r\n\r\nabc' % (hp, tag, hp)
            else:
                raw = '%s http://%s/%s HTTP/1.1\r\nHost: %s\r\n\r\n' % (r['method'], hp, tag, hp)
            c = self.client(r['src'])
            c.send(raw.encode('latin1'))
            st.append({'req': r, 'tag': tag, 'c': c, 'resp': None, 'tagsent': False, 'arrivals': [], 'done': False, 'raw': raw})
        bytag = {s['tag']: s for s in st}
        idle = 0
        for step in range(max_steps):
            sq.settle()
            progressed = False
            for key, l in self.listeners.items():
                for c in l.accept_all():
                    self.oconns.append({'c': c, 'at': key, 'raw': b'', 'upto': 0})
                    progressed = True
            for oc in self.oconns:
                c = oc['c']
                if c.closed:
                    continue
                if c.pump():
                    progressed = True
                    oc['raw'] += c.inbuf
                    c.inbuf = b''
                    while oc['upto'] < len(oc['raw']):
                        rest = oc['raw'][oc['upto']:]
                        if rest.startswith(b'TUN '):
                            nl = rest.find(b'\n')
                            if nl < 0:
                                break
                            t = rest[4:nl].decode('latin1')
                            oc['upto'] += nl + 1
                            if t in bytag:
                                bytag[t]['arrivals'].append(('CONNECT',) + oc['at'])
                            else:
                                raise HarnessError('origin got an unknown tunnel tag %r' % t)
                            c.send(b'ACK ' + t.encode() + b'\n')
                            continue
                        m = httpref.parse_request(rest)
                        if m.error:
                            raise HarnessError('origin received malformed request: %r (%s)' % (rest[:200], m.error))
                        if not m.complete:
                            break
                        oc['upto'] += m.consumed
                        t = m.target.decode('latin1').rsplit('/', 1)[-1]
                        if t not in bytag:
                            raise HarnessError('origin got a request with an unknown tag: %r' % m.start)
                        bytag[t]['arrivals'].append((m.method.decode('latin1'),) + oc['at'])
                        body = ('origin-%s' % t).encode()
                        c.send(('HTTP/1.1 200 OK\r\nDate: %s\r\nContent-Length: %d\r\nCache-Control: no-store\r\n\r\n' % (
                            ls.http_date(sq.now_us), len(body))).encode() + body)
                if c.eof and not c.closed:
                    c.close()
                    progressed = True
            alldone = True
            for s in st:
                c = s['c']
                if c.pump():
                    progressed = True
                if s['done']:
                    continue
                meth = s['req']['method']
                m = httpref.parse_response(c.inbuf, meth, eof=c.eof)
                if m.error and m.head_complete:
                    raise HarnessError('client received malformed response: %r (%s)' % (c.inbuf[:200], m.error))
                if m.complete and not m.error:
                    s['resp'] = m
                    if meth == 'CONNECT' and 200 <= m.status < 300:
                        if not s['tagsent']:
                            c.send(('TUN %s\n' % s['tag']).encode())
                            s['tagsent'] = True
                            progressed = True
                        if c.inbuf[m.consumed:].startswith(b'ACK '):
                            s['done'] = True
                    else:
                        s['done'] = True
                elif c.eof:
                    s['done'] = True
                if not s['done']:
                    alldone = False
            if alldone and not progressed:
                break
            if not progressed:
                idle += 1
                if idle >= 3:
                    break
            else:
                idle = 0
        out = []
        for s in st:
            m = s['resp']
            r = s['req']
            good = (r['method'], r['host'], r['port'])
            out.append({'status': m.status if m else 0,
                        'err': (m.get('X-Squid-Error', '') if m else ''),
                        'arrivals': [a for a in s['arrivals'] if a == good],
                        'wrong': [a for a in s['arrivals'] if a != good],
                        'eof': s['c'].eof, 'bytes': len(s['c'].inbuf)})
            s['c'].close()
        for oc in self.oconns:
            oc['c'].close()
        self.oconns = []
        sq.settle(1)
        for l in self.listeners.values():
            for c in l.accept_all():      # nothing may arrive after the batch
                c.close()
                raise HarnessError('late origin connection after the batch was closed')
        return out


def judge(rules, req, ob):
    """Returns (outcome class, violation text or None)."""
    allowed = ref_allowed(rules, req)
    if ob['wrong']:
        raise HarnessError('request %r arrived at another origin/with another method: %r' % (req, ob['wrong']))
    if allowed:
        if not ob['arrivals']:
            return 'allowed', 'reference evaluation allows the request but it never reached the origin (client status %s %s)' % (ob['status'], ob['err'])
        if ob['status'] != 200:
            raise HarnessError('request %r was forwarded but the client saw status %s' % (req, ob['status']))
        return 'allowed', None
    if ob['arrivals']:
        return 'denied', 'reference evaluation denies the request but it reached the origin %d time(s) (client status %s)' % (len(ob['arrivals']), ob['status'])
    if ob['status'] != 403 or not ob['err'].startswith('ERR_ACCESS_DENIED'):
        return 'denied', 'denied request was not answered with a 403 access-denied error: status %s, X-Squid-Error %r' % (ob['status'], ob['err'])
    return 'denied', None


def req_key(r):
    return '%s %s:%s from %s' % (r['method'], r['host'], r['port'], r['src'])


# ------------------------------------------------------------------ sweep

ASSUME = ['the real squid binary (ASan build of the current tree) runs under the lock-step/virtual-time shim; clients (bound to '
          '127.0.0.1 / 127.0.0.2) and the six origin listeners (127.0.0.3-5 x 2 ports) are played by the driver',
          'configurations after the first of an instance are loaded with SIGHUP (squid -k reconfigure path: the real parser builds '
          'the access list again); per shard some configurations are run both on an instance started directly with them and after a '
          'reconfiguration (thorough: two separate instances) and must give the same transcript',
          'the 40 requests of a configuration are in flight together; every reported violation is reproduced alone on a fresh instance',
          'host names resolve through hosts_file; unresolvable destinations, IPv6, deny_info, authentication and external ACLs are outside the bound']
RULE = ('a configuration is non-trivial when, by observation, at least one request of the universe was forwarded and at least one was '
        'denied under it (the rule list discriminates inside the universe); evaluations counts (configuration, request) executions')
RESTART_EVERY = 300
MAX_VIOLATIONS_PER_SHARD = 5


def transcript_of(obs):
    return [(o['status'], o['err'], len(o['arrivals'])) for o in obs]


def eval_config(w, rules):
    """Run the whole universe under the loaded configuration; returns (transcript, [(req, text)], per-request classes)."""
    obs = w.run_requests(UNIVERSE)
    bad = []
    classes = []
    for r, ob in zip(UNIVERSE, obs):
        cls, v = judge(rules, r, ob)
        classes.append(cls)
        if v:
            bad.append((r, v))
    return transcript_of(obs), bad, classes


def confirm(ctx, shard, rules, req):
    """Re-run one request alone on a fresh instance started with that configuration (= what replay does)."""
    w = CWorld(ctx, shard, name='c%d' % shard)
    try:
        w.start(rules)
        ob = w.run_requests([req])[0]
        cls, v = judge(rules, req, ob)
        probs = w.problems()
        return v, ob, probs
    finally:
        w.stop()


def make_worker(ctx, det_n):
    t_end = ctx.t0 + ctx.deadline_s - 25

    def worker(shard, items):
        res = {'configs': 0, 'evaluations': 0, 'nontrivial': 0, 'allowed': 0, 'denied': 0, 'violations': [], 'crashes': [],
               'deadline_hit': False, 'starts': 0, 'reconfigs': 0, 'kicks': 0, 'vectors': set(), 'classes': {}, 'samples': [],
               'det_checked': 0, 'default_decided': 0, 'dims': {}, 'watchdog_retries': 0}
        # determinism / start-vs-reconfigure obligation: det_n configurations spread over this shard's list are first run on
        # instances started directly with them
        det = {}
        idxs = sorted(set((len(items) * (2 * k + 1)) // (2 * det_n) for k in range(det_n))) if (items and det_n) else []
        first_tr = None           # det_n == 0 (quick): the configuration the instance was started with is loaded once more by
        #                           reconfiguration after the sweep and must give the same transcript (saves one start per shard)
        for i in idxs:
            for attempt in range(2):
                w0 = CWorld(ctx, shard, name='d%d' % shard)
                try:
                    w0.start(items[i][1])
                    det[i] = eval_config(w0, items[i][1])[0]
                    res['kicks'] += w0.sq.kicks
                    res['starts'] += 1
                    break
                except HarnessError as e:
                    if attempt or 'watchdog' not in str(e):
                        raise
                    res['watchdog_retries'] += 1
                finally:
                    w0.stop()
        w = CWorld(ctx, shard)
        try:
            since = 0
            for n, (cls, rules) in enumerate(items):
                if time.time() > t_end:
                    res['deadline_hit'] = True
                    break
                for attempt in range(2):
                    try:
                        if w.sq is None or since >= RESTART_EVERY:
                            if w.sq is not None:
                                res['kicks'] += w.sq.kicks
                            w.start(rules)
                            since = 0
                        else:
                            w.reconfigure(rules)
                        since += 1
                        tr, bad, classes = eval_config(w, rules)
                        probs = w.problems()
                        break
                    except HarnessError as e:
                        # the engine's real-time watchdog (20 s) can expire on an overloaded machine: that is a machinery
                        # problem, so the configuration is tried once more on a fresh instance before giving up
                        if attempt or 'watchdog' not in str(e):
                            raise
                        res['watchdog_retries'] += 1
                        res['starts'] += w.starts
                        res['reconfigs'] += w.reconfigs
                        w.stop()
                        w = CWorld(ctx, shard)
                res['configs'] += 1
                res['evaluations'] += len(UNIVERSE)
                res['classes'][cls] = res['classes'].get(cls, 0) + 1
                if n == 0 and w.starts == 1 and w.reconfigs == 0:
                    first_tr = tr
                if n in det:
                    if det[n] != tr:
                        raise HarnessError('nondeterminism: configuration [%s] gave different transcripts when started directly and '
                                           'when loaded by reconfiguration:\n%r\n%r' % (rules_key(rules), det[n], tr))
                    res['det_checked'] += 1
                na = sum(1 for t in tr if t[2] > 0)
                nd = sum(1 for t in tr if t[0] == 403 and t[2] == 0)
                res['allowed'] += na
                res['denied'] += nd
                if na and nd:
                    res['nontrivial'] += 1
                res['vectors'].add(''.join('1' if t[2] > 0 else '0' for t in tr))
                for r, t in zip(UNIVERSE, tr):
                    for dim in ('src', 'host', 'port', 'method'):
                        k = '%s=%s:%s' % (dim, r[dim], 'fwd' if t[2] > 0 else 'deny')
                        res['dims'][k] = res['dims'].get(k, 0) + 1
                if rules and any(not any(all(lit_match(l, r) for l in lits) for _, lits in rules) for r in UNIVERSE):
                    res['default_decided'] += 1
                if n == 0 or n == ((1 + 3 * shard) if shard % 2 == 0 else len(items) - 1 - shard):
                    res['samples'][:] = []        # the first configuration of the shard, replaced by a later one when reached
                    res['samples'].append({'http_access': rules_key(rules), 'forwarded': na, 'denied_403': nd,
                                           'forwarded_requests': [req_key(r) for r, t in zip(UNIVERSE, tr) if t[2] > 0][:6]})
                if probs:
                    res['crashes'].append((rules_key(rules), '; '.join(probs)[:2500], rules))
                    w.start(rules)
                    since = 1
                if bad:
                    # the confirmation instance uses this shard's port block: take the sweep instance down first
                    res['kicks'] += w.sq.kicks
                    res['starts'] += w.starts
                    res['reconfigs'] += w.reconfigs
                    w.stop()
                    w = CWorld(ctx, shard)
                for req, text in bad[:2]:
                    v2, ob2, probs2 = confirm(ctx, shard, rules, req)
                    res['starts'] += 1
                    if not v2:
                        v3, ob3, probs3 = confirm(ctx, shard, rules, req)
                        res['starts'] += 1
                        if not v3:
                            raise HarnessError('violation not reproducible alone on a fresh instance: [%s] %s: %s' % (
                                rules_key(rules), req_key(req), text))
                        v2 = v3
                    res['violations'].append(('[%s] %s' % (rules_key(rules), req_key(req)), v2, {'rules': rules, 'req': req}))
                if len(res['violations']) >= MAX_VIOLATIONS_PER_SHARD:
                    res['deadline_hit'] = True
                    res['stopped_after_violations'] = True
                    break
            if not det_n and first_tr is not None and len(items) > 1 and not res['deadline_hit'] and not res['violations'] \
                    and w.sq is not None and w.starts == 1 and time.time() < t_end:
                w.reconfigure(items[0][1])
                tr2 = eval_config(w, items[0][1])[0]
                if tr2 != first_tr:
                    raise HarnessError('nondeterminism: configuration [%s] gave different transcripts when started directly and '
                                       'when loaded by reconfiguration:\n%r\n%r' % (rules_key(items[0][1]), first_tr, tr2))
                res['det_checked'] += 1
        finally:
            if w.sq is not None:
                res['kicks'] += w.sq.kicks
            res['starts'] += w.starts
            res['reconfigs'] += w.reconfigs
            w.stop()
        res['vectors'] = sorted(res['vectors'])
        return res
    return worker


def run(ctx):
    ls.build_squid(ctx)
    # reference self-test: the evaluator on hand-computed cases from the documentation
    g = {'src': '127.0.0.1', 'host': 'b.a.test', 'port': 'P2', 'method': 'GET'}
    assert ref_allowed([], g) is False
    assert ref_allowed([('deny', ['mC'])], g) is True and ref_allowed([('allow', ['mC'])], g) is False
    assert ref_allowed([('allow', ['domA', '!p1']), ('deny', ['s1'])], g) is True
    assert ref_allowed([('deny', ['domAx']), ('deny', ['dB'])], g) is False
    space = config_space(ctx.tier)
    det_n = 0 if ctx.quick else 3
    parts = ls.run_sharded(ctx, make_worker(ctx, det_n), space)
    parts = [p for p in parts if p]
    tot = lambda k: sum(p[k] for p in parts)
    vectors = set()
    classes, dims = {}, {}
    for p in parts:
        vectors.update(p['vectors'])
        for k, v in p['classes'].items():
            classes[k] = classes.get(k, 0) + v
        for k, v in p['dims'].items():
            dims[k] = dims.get(k, 0) + v
    vio = []
    for p in parts:
        vio += [Violation(k, what, rp) for k, what, rp in p['violations']]
        vio += [Violation('crash:[%s]' % k, 'squid crashed/asserted while serving the universe under [%s]: %s' % (k, what), {'rules': rules, 'req': None})
                for k, what, rules in p['crashes']]
    deadline_hit = any(p['deadline_hit'] for p in parts)
    configs = tot('configs')
    if not vio:
        if tot('allowed') == 0 or tot('denied') == 0 or tot('nontrivial') < configs // 4:
            raise HarnessError('vacuity guard: forwarded %d, denied %d, discriminating configurations %d of %d' % (
                tot('allowed'), tot('denied'), tot('nontrivial'), configs))
        if tot('default_decided') == 0:
            raise HarnessError('vacuity guard: no configuration in which the implicit default decided a request')
        want = ['%s=%s:%s' % (d, r[d], o) for r in UNIVERSE for d in ('src', 'host', 'port', 'method') for o in ('fwd', 'deny')]
        missing = sorted(set(k for k in want if not dims.get(k)))
        if missing and not deadline_hit:
            raise HarnessError('vacuity guard: never observed %r' % missing)
        if tot('det_checked') < len(parts) and not deadline_hit and not tot('watchdog_retries'):
            raise HarnessError('determinism obligation not exercised in every shard')
    samples = []
    for p in parts:
        samples += p['samples'][:1]
    complete = (not deadline_hit) and configs == len(space)
    class_total = {}
    for c, _ in space:
        class_total[c] = class_total.get(c, 0) + 1
    classes_complete = [c for c in class_total if classes.get(c, 0) == class_total[c]]
    cov = {'evaluations': tot('evaluations'), 'distinct_nontrivial': tot('nontrivial'), 'rule': RULE, 'samples': samples[:6],
           'exhaustive': complete, 'configurations': configs, 'configurations_total': len(space), 'configuration_classes_run': classes, 'configuration_classes_total': class_total,
           'configuration_classes_complete': classes_complete,
           'subspace': ('L0 no rule; L1 every single rule with 1 literal (16 literals x allow/deny); L2 every single rule with 2 literals '
                        'over different ACLs or x !x (%s); L11d every list of 2 single-literal rules with different actions%s; '
                        'each configuration x all 40 requests' % (
                            'unordered pairs' if ctx.quick else 'both orders',
                            '' if ctx.quick else '; L11s the same with equal actions; L12/L21 every list of 2 rules with 1+2 / 2+1 literals')),
           'requests_forwarded': tot('allowed'), 'requests_denied_403': tot('denied'), 'distinct_decision_vectors': len(vectors),
           'configs_where_implicit_default_decided': tot('default_decided'), 'instance_starts': tot('starts'),
           'reconfigurations': tot('reconfigs'), 'start_vs_reconfigure_crosschecks': tot('det_checked'), 'kicks': tot('kicks'),
           'watchdog_retries': tot('watchdog_retries')}
    return Result(LEVEL, cov, vio, ASSUME)


def replay(ctx, data):
    ls.build_squid(ctx)
    rules = [(a, list(l)) for a, l in data['rules']]
    vio = []
    if data.get('req'):
        v, ob, probs = confirm(ctx, 0, rules, data['req'])
        print('[%s] %s -> %r %r' % (rules_key(rules), req_key(data['req']), ob, probs))
        if v:
            vio.append(Violation('[%s] %s' % (rules_key(rules), req_key(data['req'])), v, data))
    else:
        w = CWorld(ctx, 0)
        try:
            w.start(rules)
            tr, bad, _ = eval_config(w, rules)
            probs = w.problems()
            print(tr, probs)
            if probs:
                vio.append(Violation('crash:[%s]' % rules_key(rules), '; '.join(probs)[:2500], data))
        finally:
            w.stop()
    return Result(LEVEL, {}, vio, ASSUME)
