"""C36 Base64 coding round-trips and decodes Basic credentials safely — E1, exhaustive over short byte strings / texts."""
from vverif import seq, seqx
from vverif.core import Result, HarnessError

LEVEL = 'exploration'
RULE = ('(a) every byte string of length <= 2 and every length-3 string over 40 byte values (quick) / every byte string of '
        'length <= 3 (thorough), plus 4 byte patterns of every length 4..300 (quick) / 4..1100 (thorough) and 8191/8192/8193: '
        'encode with update+final in one piece and cut at every (long strings: 17 spread) position, encode_raw, then decode in one '
        'piece and cut at every position, all destination buffers exactly API-sized heap blocks; '
        '(b) every text of length <= 5 (quick) / 6 (thorough) over {A Q B / + = - _ SP LF NUL 0x80} decoded in one piece and at '
        'every cut, classified by an RFC 4648 reference recogniser (canonical => must decode to the reference bytes, malformed '
        '=> must be rejected, white space / non-zero slack bits => either); both run on lib/base64.cc of the tree and on the '
        'base64 implementation the configured build links; (c) the NUL-free texts of (b) up to length 4/5 and every cleartext of '
        '<= 5/6 tokens over {u S : p SP 0xE9 UTF-8-e-acute LF} through Auth::Basic::Config::decode in 5 header spellings x '
        'casesensitive x utf8 x realm: user name = text before the first colon, password = text after it. '
        'non-trivial = every codec round trip + every text both decoders classified + every Basic decode')
ASSUME = ['lib/base64.cc is compiled from the scratch copy of the current tree with HAVE_NETTLE_BASE64_H undefined (the '
          'configured build itself uses libnettle, which is exercised too and through which Basic decoding runs)',
          'src/auth/*.cc and src/auth/basic/*.cc are recompiled from the tree with -fsanitize=address,undefined and replace '
          'tests/stub_libauth.o in the tests/testCacheManager link set; the user caches of the other schemes are stubbed',
          'credentials containing NUL are skipped (a header value is a C string); cleartext with CR/LF may be rejected; an empty '
          'password may be reported as absent (documented); white space inside base64 and non-canonical slack bits may be '
          'accepted or rejected']
AUTH = ['auth/basic/Config.cc', 'auth/basic/User.cc', 'auth/basic/UserRequest.cc', 'auth/basic/Scheme.cc', 'auth/User.cc',
        'auth/UserRequest.cc', 'auth/SchemeConfig.cc', 'auth/Scheme.cc', 'auth/CredentialsCache.cc', 'auth/Gadgets.cc',
        'auth/Config.cc', 'auth/State.cc', 'auth/toUtf.cc', 'auth/CredentialState.cc', 'auth/Type.cc', 'auth/SchemesConfig.cc']


def _build(ctx):
    import os
    return seqx.build(ctx, 'tests/testCacheManager', ['C36_b64.cc', 'C36_tree.cc', 'C36_stubs.cc'],
                      drop_objects=[r'stub_libauth\.o$'], tree_sources=AUTH,
                      tree_flags=['-fsanitize=undefined', '-fno-sanitize-recover=undefined'], ubsan=True,
                      extra_cxx=['-I' + os.path.join(ctx.home, 'checks')])


def run(ctx):
    exe = _build(ctx)
    m = seq.run(ctx, exe)
    oc = m['outcomes']
    cov = seq.coverage_from(m, RULE, min_classes=8)
    cov.update({k: m['counters'].get(k, 0) for k in ('encode_calls', 'decode_calls', 'basic_decode_calls')})
    viol = seq.violations_from(m)
    if not m['deadline_hit'] and not m['crashes']:
        # vacuity guards count the cases that were *tried* per category (good and bad outcome together), so they hold
        # with or without violations; a crashed child loses its counters, hence not after crashes
        def need(what, n, *classes):
            got = sum(v for k, v in oc.items() if k in classes)
            if got < n:
                raise HarnessError('vacuity guard: %s: %d cases (need %d): %r' % (what, got, n, oc))
        need('codec round trips', 100000, 'codec:roundtrip')
        for impl in ('tree-lib-base64', [k.split(':')[0] for k in oc if k.startswith('configured-')][0]):
            need(impl + ' canonical texts', 100, impl + ':valid-decoded', impl + ':valid-MISHANDLED')
            need(impl + ' malformed texts', 10000, impl + ':malformed-rejected', impl + ':malformed-ACCEPTED')
            need(impl + ' lenient texts', 100, impl + ':lenient-decoded', impl + ':lenient-rejected', impl + ':lenient-MISHANDLED')
        need('Basic user:password', 10000, 'basic:user-and-password', 'basic:user-and-password-with-colon', 'basic:WRONG-USER', 'basic:WRONG-PASS')
        need('Basic password containing a colon (or the failure that hides it)', 1000, 'basic:user-and-password-with-colon', 'basic:WRONG-USER', 'basic:WRONG-PASS')
        need('Basic without password', 1000, 'basic:user-without-password', 'basic:user-with-empty-password')
        need('Basic malformed base64', 1000, 'basic:malformed-rejected', 'basic:malformed-ACCEPTED')
    return Result(LEVEL, cov, viol, ASSUME)


def replay(ctx, data):
    exe = _build(ctx)
    m = seq.replay_case(ctx, exe, data['case'])
    m.setdefault('deadline_hit', False)
    return Result(LEVEL, {}, seq.violations_from(m), ASSUME)
