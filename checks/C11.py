"""C11 Responses that are forbidden to be stored are never served from cache — E3, bounded input product.

One client + one origin around the real squid binary (lock-step, memory cache on, default refresh rules).
Every case uses its own URL: request 1 is answered by the origin with the case's Cache-Control / freshness
headers (a store attempt), then request 2 for the same URL follows.  The origin counts arrivals and puts the
arrival number into every body.

Oracle (computed from the CASE SPEC, never from Squid's parse): if the statement forbids storing --
response carried no-store or private, or request 1 carried Cache-Control: no-store, or request 1 carried
Authorization and the response had none of public / must-revalidate / s-maxage -- then request 2 must arrive
at the origin (a conditional revalidation counts as arriving).  Every case is run twice: with an origin that
answers revalidations with a new 200, and with one that answers 304 when the validator matches.  For no-store /
private / request no-store the stored body of arrival 1 must never be handed out again, not even after a 304 (it
must not have been stored); for the Authorization clause a reuse that the origin itself approved with a 304 to
request 2 is accepted and only counted.  Nothing is asserted for storable cases (they only feed the vacuity guard: a healthy number
of them must be answered without contacting the origin, otherwise the cache was not working at all).
"""
import itertools
import re
import time

from vverif import lockstep as ls
from vverif.core import Result, Violation, HarnessError

LEVEL = 'exploration'

DIRECTIVES = ['no-store', 'private', 'public', 'must-revalidate', 's-maxage=60', 'max-age=60', 'no-cache']

# Response Cache-Control spellings that all carry the directive no-store resp. private (RFC 9111 5.2:
# directive names are case-insensitive, #list syntax with OWS / empty elements, several field lines are
# one list, arguments may be token or quoted-string; a quoted-string may contain commas and escaped quotes).
RESP_SYNTAX = [
    ('ns-plain', ['Cache-Control: max-age=60, no-store']),
    ('ns-first', ['Cache-Control: no-store, max-age=60']),
    ('ns-mixed-case', ['Cache-Control: max-age=60, No-Store']),
    ('ns-upper', ['Cache-Control: max-age=60, NO-STORE']),
    ('ns-nospace', ['Cache-Control: max-age=60,no-store']),
    ('ns-ows', ['Cache-Control:   max-age=60 ,  no-store  ']),
    ('ns-tab', ['Cache-Control: max-age=60,\tno-store']),
    ('ns-trailing-comma', ['Cache-Control: max-age=60, no-store,']),
    ('ns-leading-comma', ['Cache-Control: , no-store, max-age=60']),
    ('ns-empty-elements', ['Cache-Control: max-age=60, , ,no-store']),
    ('ns-dup-directive', ['Cache-Control: no-store, max-age=60, no-store']),
    ('ns-second-field', ['Cache-Control: max-age=60', 'Cache-Control: no-store']),
    ('ns-first-field', ['Cache-Control: no-store', 'Cache-Control: max-age=60']),
    ('ns-second-field-after-public', ['Cache-Control: public, max-age=60', 'Cache-Control: no-store']),
    ('ns-lc-field-name', ['cache-control: max-age=60, no-store']),
    ('ns-uc-field-name', ['CACHE-CONTROL: max-age=60, no-store']),
    ('ns-no-space-after-colon', ['Cache-Control:max-age=60,no-store']),
    ('ns-after-quoted-comma', ['Cache-Control: max-age=60, ext="a, b", no-store']),
    ('ns-after-quoted-escape', ['Cache-Control: max-age=60, ext="a\\"", no-store']),
    ('ns-after-unknown', ['Cache-Control: max-age=60, vfoo=bar, vbaz, no-store']),
    ('ns-only', ['Cache-Control: no-store']),
    ('ns-alone-with-expires', ['Cache-Control: no-store']),          # freshness from Expires only
    ('pv-plain', ['Cache-Control: max-age=60, private']),
    ('pv-first', ['Cache-Control: private, max-age=60']),
    ('pv-mixed-case', ['Cache-Control: max-age=60, Private']),
    ('pv-upper', ['Cache-Control: max-age=60, PRIVATE']),
    ('pv-nospace', ['Cache-Control: max-age=60,private']),
    ('pv-ows', ['Cache-Control:  max-age=60  ,   private ']),
    ('pv-trailing-comma', ['Cache-Control: max-age=60, private,']),
    ('pv-empty-elements', ['Cache-Control: ,, private ,, max-age=60']),
    ('pv-quoted-arg', ['Cache-Control: max-age=60, private="x"']),
    ('pv-quoted-arg-field', ['Cache-Control: max-age=60, private="set-cookie"']),
    ('pv-quoted-arg-list', ['Cache-Control: max-age=60, private="set-cookie, x-foo"']),
    ('pv-quoted-arg-first', ['Cache-Control: private="x", max-age=60']),
    ('pv-empty-quoted-arg', ['Cache-Control: max-age=60, private=""']),
    ('pv-token-arg', ['Cache-Control: max-age=60, private=x']),
    ('pv-dup-directive', ['Cache-Control: private, max-age=60, private="x"']),
    ('pv-second-field', ['Cache-Control: max-age=60', 'Cache-Control: private']),
    ('pv-second-field-after-public', ['Cache-Control: public, max-age=60', 'Cache-Control: private']),
    ('pv-lc-field-name', ['cache-control: private, max-age=60']),
    ('pv-after-quoted-comma', ['Cache-Control: max-age=60, ext="a, b", private']),
    ('pv-public-then-private', ['Cache-Control: public, s-maxage=60, private']),
    ('pv-and-ns', ['Cache-Control: private, no-store']),
]

# Request Cache-Control spellings that all carry no-store
REQ_SYNTAX = [
    ('rq-plain', ['Cache-Control: no-store']),
    ('rq-mixed-case', ['Cache-Control: No-Store']),
    ('rq-upper', ['CACHE-CONTROL: NO-STORE']),
    ('rq-nospace', ['Cache-Control:no-store']),
    ('rq-ows', ['Cache-Control:    no-store   ']),
    ('rq-with-max-age', ['Cache-Control: max-age=600, no-store']),
    ('rq-first', ['Cache-Control: no-store, max-age=600']),
    ('rq-trailing-comma', ['Cache-Control: no-store,']),
    ('rq-empty-elements', ['Cache-Control: ,, no-store']),
    ('rq-second-field', ['Cache-Control: max-age=600', 'Cache-Control: no-store']),
    ('rq-first-field', ['Cache-Control: no-store', 'Cache-Control: max-stale=5']),
    ('rq-after-unknown', ['Cache-Control: vfoo="a, b", no-store']),
    ('rq-dup', ['Cache-Control: no-store, no-store']),
]

FRESH_Q = ['none', 'exp+lm']
FRESH_T = ['none', 'exp+lm', 'lm', 'exp']
REQ2_T = ['same', 'bare', 'other-auth']
STATUS_T = [203, 300, 301, 404, 410]
REASONS = {200: 'OK', 203: 'Non-Authoritative Information', 300: 'Multiple Choices', 301: 'Moved Permanently',
           404: 'Not Found', 410: 'Gone'}


def all_cases(tier):
    cases = []
    n = [0]

    def add(**kw):
        for reval in ('200', '304'):
            n[0] += 1
            c = {'n': n[0], 'kind': 'product', 'cc': [], 'lines': None, 'req_lines': None, 'req_ns': False, 'auth': False,
                 'fresh': 'none', 'status': 200, 'req2': 'same', 'syntax': None, 'reval': reval}
            c.update(kw)
            cases.append(c)

    subsets = []
    for r in range(len(DIRECTIVES) + 1):
        for comb in itertools.combinations(DIRECTIVES, r):
            subsets.append(list(comb))
    assert len(subsets) == 128
    fresh = FRESH_Q if tier == 'quick' else FRESH_T
    req2s = ['same'] if tier == 'quick' else REQ2_T
    for cc in subsets:
        for req_ns in (False, True):
            for auth in (False, True):
                for fr in fresh:
                    for r2 in req2s:
                        if r2 == 'other-auth' and not auth:
                            continue
                        if r2 == 'bare' and not (auth or req_ns):
                            continue          # identical to 'same'
                        add(cc=cc, req_ns=req_ns, auth=auth, fresh=fr, req2=r2)
    # syntax variants of the forbidding directives (otherwise perfectly cachable responses)
    for name, lines in RESP_SYNTAX:
        for auth in ((False,) if tier == 'quick' else (False, True)):
            add(kind='resp-syntax', syntax=name, lines=lines, auth=auth,
                fresh='exp' if name == 'ns-alone-with-expires' else 'exp+lm')
    for name, lines in REQ_SYNTAX:
        for cc in (['max-age=60'],) if tier == 'quick' else (['max-age=60'], ['public', 's-maxage=60'], []):
            add(kind='req-syntax', syntax=name, req_lines=lines, req_ns=True, cc=cc, fresh='exp+lm')
    if tier != 'quick':
        # other cachable status codes
        for st in STATUS_T:
            for cc in subsets:
                for req_ns in (False, True):
                    for auth in (False, True):
                        add(kind='status', cc=cc, req_ns=req_ns, auth=auth, fresh='exp+lm', status=st)
    return cases


def forbidden_reasons(case):
    """Why the statement forbids serving this response from cache (from the case spec only)."""
    why = []
    if case['lines'] is not None:
        why.append('resp:' + ('private' if case['syntax'].startswith('pv') else 'no-store'))
        if case['syntax'] == 'pv-and-ns':
            why.append('resp:no-store')
        shared_ok = False    # the syntax variants never carry public/must-revalidate/s-maxage except the *-after-public ones
        if 'public' in ' '.join(case['lines']).lower():
            shared_ok = True
    else:
        if 'no-store' in case['cc']:
            why.append('resp:no-store')
        if 'private' in case['cc']:
            why.append('resp:private')
        shared_ok = any(d in case['cc'] for d in ('public', 'must-revalidate', 's-maxage=60'))
    if case['req_ns']:
        why.append('req:no-store')
    if case['auth'] and not shared_ok:
        why.append('auth-without-shared-permission')
    return why


def _start_with_retries(sq, attempts=4):
    """Instance start-up is bounded by a 60 s real-time limit in lockstep.wait_ready; on an overloaded machine
    (ASan start-up + squid -z) that limit is occasionally exceeded.  A failed start is machinery, so retry it."""
    for i in range(attempts):
        try:
            return sq.start()
        except HarnessError as e:
            if i == attempts - 1 or not re.search(r'not ready after|exited during start-up|squid -z failed|watchdog', str(e)):
                raise
            sq.kill()
            time.sleep(2 + 3 * i)


class RetryWorld(ls.World):
    def start(self):
        _start_with_retries(self.sq)
        return self


def make_world(ctx, shard):
    return RetryWorld(ctx, 'w%d' % shard, ls.port_base_for_check(ctx.pid, shard), memory_cache=True)


def _request(w, case, which):
    path = '/c11/%d' % case['n']
    lines = []
    variant = 'same' if which == 1 else case['req2']
    if case['auth'] and variant != 'bare':
        lines.append('Authorization: Basic %s' % ('dXNlcjpwYXNz' if variant == 'same' else 'b3RoZXI6cGFzcw=='))
    if case['req_ns'] and variant != 'bare':
        lines += case['req_lines'] if case['req_lines'] else ['Cache-Control: no-store']
    req = 'GET %s HTTP/1.1\r\nHost: %s\r\n' % (w.url(path), w.hostport()) + ''.join(l + '\r\n' for l in lines) + '\r\n'
    return req.encode('latin1')


def run_case(w, case):
    arrivals = []

    etag = '"c11-%d"' % case['n']
    lm = ls.http_date(w.sq.now_us - 30 * 86400 * 1_000_000)

    def responder(m):
        k = len(arrivals) + 1
        arrivals.append(m)
        body = b'c11-%d-arrival-%d' % (case['n'], k)
        now = w.sq.now_us
        st = case['status']
        inm, ims = m.get('if-none-match'), m.get('if-modified-since')
        not_modified = (case['reval'] == '304' and k > 1 and
                        ((inm is not None and etag in inm) or (inm is None and ims is not None and ims == lm)))
        if not_modified:
            h = ['HTTP/1.1 304 Not Modified', 'Date: ' + ls.http_date(now), 'ETag: ' + etag]
        else:
            h = ['HTTP/1.1 %d %s' % (st, REASONS[st]), 'Date: ' + ls.http_date(now), 'Content-Type: text/plain',
                 'Content-Length: %d' % len(body), 'ETag: ' + etag]
        if st in (300, 301):
            h.append('Location: http://127.0.0.1:%d/elsewhere' % w.origin_port)
        if case['lines'] is not None:
            h += case['lines']
        elif case['cc']:
            h.append('Cache-Control: ' + ', '.join(case['cc']))
        if case['fresh'] in ('exp+lm', 'exp'):
            h.append('Expires: ' + ls.http_date(now + 3600 * 1_000_000))
        if case['fresh'] in ('exp+lm', 'lm'):
            h.append('Last-Modified: ' + lm)
        return ('\r\n'.join(h) + '\r\n\r\n').encode('latin1') + (b'' if not_modified else body)

    ex1 = w.fetch(_request(w, case, 1), responder)
    a1 = len(arrivals)
    w.close_origin_conns()
    ex2 = w.fetch(_request(w, case, 2), responder)
    a2 = len(arrivals) - a1
    w.close_origin_conns()
    transcript = 'O1:%s\nC1:%s\nO2:%s\nC2:%s' % tuple(
        x.decode('latin1') for x in (ex1.origin_raw, ex1.client_bytes, ex2.origin_raw, ex2.client_bytes))
    r1, r2 = ex1.response, ex2.response
    ok1 = r1 is not None and not r1.error and r1.complete and r1.status == case['status'] and a1 >= 1
    ok2 = r2 is not None and not r2.error and r2.complete
    why = forbidden_reasons(case)
    violation = None
    a2 = a2 if ok1 else 0
    if not ok1:
        outcome = 'first-request-not-served(status %s, arrivals %d)' % (r1.status if r1 else None, a1)
    elif not ok2:
        outcome = 'second-request-incomplete'
    else:
        body1 = b'c11-%d-arrival-1' % case['n']
        replayed = (r2.body == body1)
        if a2 == 0:
            outcome = 'forbidden:SERVED-FROM-CACHE' if why else 'storable:served-from-cache'
        else:
            cond = any(m.has('if-modified-since') or m.has('if-none-match') for m in arrivals[a1:])
            outcome = ('forbidden' if why else 'storable') + (':revalidated' if cond else ':refetched')
            if replayed:
                outcome += '+STORED-BODY-SERVED' if why else '+stored-body-served'
        if why and a2 == 0:
            violation = ('request 2 was answered without contacting the origin (status %d, body %r) although storing was forbidden by %s; '
                         'response headers of request 1: %s; request-1 extras: %s' % (
                             r2.status, r2.body[:40], '+'.join(why), _resp_cc(case), _req_desc(case)))
        elif why and replayed:
            origin_said_304 = case['reval'] == '304' and a2 > 0
            if why == ['auth-without-shared-permission'] and origin_said_304:
                # The Authorization clause is about answering without the origin: here the origin received request 2
                # (with request 2's credentials) and itself answered 304, i.e. it approved the reuse.  Not a violation
                # of the statement; counted separately (Squid stores authenticated responses that carry a bare
                # no-cache and revalidates them on every use).
                outcome = 'forbidden(auth):revalidated-and-reused-after-origin-304'
            else:
                violation = ('request 2 reached the origin (%d arrival(s), %s) but the client was then given the stored body of arrival 1 '
                             'from cache although storing was forbidden by %s; response headers of request 1: %s; request-1 extras: %s' % (
                                 a2, 'answered 304 Not Modified' if origin_said_304 else 'answered 200 with a new body',
                                 '+'.join(why), _resp_cc(case), _req_desc(case)))
    return {'outcome': outcome, 'violation': violation, 'transcript': transcript}


def _resp_cc(case):
    return repr(case['lines'] if case['lines'] is not None else ['Cache-Control: ' + ', '.join(case['cc'])] if case['cc'] else [])


def _req_desc(case):
    d = []
    if case['auth']:
        d.append('Authorization')
    if case['req_ns']:
        d.append(repr(case['req_lines'] or ['Cache-Control: no-store']))
    return ' '.join(d) or 'none'


def key_of(case):
    why = '+'.join(forbidden_reasons(case)) or 'storable'
    if case['kind'] in ('resp-syntax', 'req-syntax'):
        return '%s:%s:auth=%d:%s:reval=%s' % (case['kind'], case['syntax'], case['auth'], ','.join(case['cc']), case['reval'])
    return '%s:[%s]:cc=%s:fresh=%s:status=%d:req2=%s:reval=%s' % (case['kind'], why, ','.join(case['cc']) or '-', case['fresh'],
                                                                   case['status'], case['req2'], case['reval'])


ASSUME = ['the real squid binary (ASan build of the current tree) runs under the lock-step/virtual-time shim with its default refresh rules '
          '(no refresh_pattern, no cache deny), memory cache on; client and origin are played by the driver',
          'every case uses its own URL on one reused instance per shard; the origin numbers its arrivals per case, so "reached the origin" '
          'is observed directly and a replayed first body is recognisable',
          'the oracle is computed from the case specification (which directives were sent), not from Squid\'s parse of them']
RULE = ('quick: every subset of {no-store, private, public, must-revalidate, s-maxage=60, max-age=60, no-cache} (128) x request '
        '{plain, Cache-Control: no-store} x Authorization {absent, present} x freshness {none, Expires+Last-Modified}, plus %d response and %d '
        'request spellings of no-store/private, each with an origin that answers revalidations with 200 and with one that answers 304; thorough adds freshness {Last-Modified only, Expires only}, a different second request '
        '{bare, other credentials}, 5 more cachable status codes and the spellings under Authorization / other response directives; '
        'non-trivial = cases in which request 1 was forwarded and answered with the planted status and request 2 got a complete '
        'response (so the store decision and the hit path both ran)' % (len(RESP_SYNTAX), len(REQ_SYNTAX)))


def build(ctx):
    """Build step; time spent waiting for the shared build lock (other checks building) is not charged
    to the exploration deadline."""
    t = time.time()
    ls.build_squid(ctx)
    waited = time.time() - t
    if waited > 20:
        ctx.deadline_s += waited - 20
    return waited


def run(ctx):
    build_s = build(ctx)
    cases = all_cases(ctx.tier)
    r = ls.run_cases(ctx, cases, run_case, make_world, key_of=key_of, determinism_n=8)
    oc = r['outcomes']
    nontrivial = sum(v for k, v in oc.items() if k.startswith('forbidden') or k.startswith('storable'))
    hits = oc.get('storable:served-from-cache', 0)
    forb = sum(v for k, v in oc.items() if k.startswith('forbidden'))
    complete = not r['deadline_hit'] and r['evaluations'] == len(cases)
    if complete:
        if nontrivial < len(cases) * 9 // 10:
            raise HarnessError('vacuity guard: only %d of %d cases ran both requests to completion: %r' % (nontrivial, len(cases), oc))
        if hits < 50:
            raise HarnessError('vacuity guard: only %d storable cases were answered from cache (cache not working?): %r' % (hits, oc))
        if forb < 200:
            raise HarnessError('vacuity guard: only %d forbidden-to-store cases ran: %r' % (forb, oc))
    vio = [Violation(k, what, {'case': c}) for k, what, c in r['violations']]
    # C11 does not forbid crashes: a sanitizer report / assertion / exit during a case is an observation
    obs = ['squid problem during %s: %s' % (k, what[:300]) for k, what, c in r['crashes']]
    cov = {'evaluations': r['evaluations'], 'distinct_nontrivial': nontrivial, 'rule': RULE, 'samples': r['samples'],
           'outcome_classes': oc, 'exhaustive': complete, 'kicks': r['kicks'], 'determinism_replays': r['replays'],
           'cases_total': len(cases), 'forbidden_cases_run': forb, 'storable_cases_served_from_cache': hits,
           'transactions': 2 * r['evaluations'], 'build_step_s': round(build_s, 1)}
    return Result(LEVEL, cov, vio, ASSUME, obs)


def replay(ctx, data):
    ls.build_squid(ctx)
    w = make_world(ctx, 0)
    w.start()
    try:
        r = run_case(w, data['case'])
        print(r['transcript'])
        print('outcome:', r['outcome'])
    finally:
        w.stop()
    v = [Violation(key_of(data['case']), r['violation'], data)] if r['violation'] else []
    return Result(LEVEL, {}, v, ASSUME)
