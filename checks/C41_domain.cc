// C41 — dstdomain-style ACL data (ACLDomainData) vs. the union of per-value matchers (E1).
// Real code: ACLDomainData::parse()/match() (src/acl/DomainData.cc), Acl::SplayInserter<char*>::Merge
// (src/acl/SplayInserter.h), matchDomainName() (src/anyp/Uri.cc), Splay<> (include/splay.h), fed through
// ConfigParser::SetCfgLine() exactly like an "acl NAME dstdomain v1 v2 ..." line.
#include "squid.h"
#include "acl/DomainData.h"
#include "ConfigParser.h"
#include "mem/forward.h"

#include "vharness.h"

#include <algorithm>

namespace {

std::string lower(std::string s)
{
    for (auto &c : s) if (c >= 'A' && c <= 'Z') c = char(c - 'A' + 'a');
    return s;
}

// The property statement: a value beginning with a dot matches that domain and all its subdomains,
// any other value matches only itself; comparison is case-insensitive.
bool refValueMatches(const std::string &valueRaw, const std::string &hostRaw)
{
    const std::string v = lower(valueRaw), h = lower(hostRaw);
    if (!v.empty() && v[0] == '.') {
        const std::string dom = v.substr(1);
        if (h == dom) return true;
        return h.size() > v.size() && h.compare(h.size() - v.size(), v.size(), v) == 0; // "<label(s)>" + ".dom"
    }
    return h == v;
}

bool refValuesOverlap(const std::string &a, const std::string &b)
{
    const std::string ra = lower(a[0] == '.' ? a.substr(1) : a), rb = lower(b[0] == '.' ? b.substr(1) : b);
    return refValueMatches(a, rb) || refValueMatches(b, ra);
}

struct Acl1 {
    ACLDomainData data;
    explicit Acl1(const std::vector<std::string> &values) {
        std::string line;
        for (const auto &v : values) { if (!line.empty()) line += ' '; line += v; }
        char *cfg = xstrdup(line.c_str());
        ConfigParser::SetCfgLine(cfg);
        data.parse();
        ConfigParser::SetCfgLine(nullptr);
        xfree(cfg);
    }
};

uint64_t nMatchCalls = 0, nHits = 0, nMisses = 0, nSubdomainHits = 0, nCaseHits = 0, nDropped = 0;

struct NodeCounter { size_t n = 0; void operator()(char *const &) { ++n; } };

void checkList(const std::vector<std::string> &values, const std::vector<std::string> &probes, const std::vector<std::string> &freshProbes)
{
    std::vector<char> want(probes.size());
    bool anyHit = false, anyMiss = false;
    for (size_t p = 0; p < probes.size(); ++p) {
        bool m = false;
        for (const auto &v : values) m = m || refValueMatches(v, probes[p]);
        want[p] = m;
        (m ? anyHit : anyMiss) = true;
    }

    {
        Acl1 acl(values);
        // number of stored values: Squid may drop redundant entries; never more than configured
        NodeCounter nc; acl.data.domains.visit(nc);
        std::vector<std::string> distinct;
        for (const auto &v : values) if (std::find(distinct.begin(), distinct.end(), lower(v)) == distinct.end()) distinct.push_back(lower(v));
        if (nc.n > distinct.size()) V::fail("the tree stores " + std::to_string(nc.n) + " values for " + std::to_string(distinct.size()) + " distinct configured values");
        if (nc.n < distinct.size()) ++nDropped;
        if (values.empty() != acl.data.empty()) V::fail("empty() disagrees with the configured list");

        // probe in forward and then in reverse order on the same object: every find() re-splays the tree,
        // so the second pass sees different tree shapes
        for (int pass = 0; pass < 2; ++pass)
            for (size_t k = 0; k < probes.size(); ++k) {
                const size_t p = pass ? probes.size() - 1 - k : k;
                ++nMatchCalls;
                const bool got = acl.data.match(probes[p].c_str());
                if (got != (bool)want[p]) {
                    V::fail(std::string("host '") + probes[p] + "' " + (got ? "matched" : "did not match") + " but the union of the listed values says " + (want[p] ? "match" : "no match") + (pass ? " (reverse probing pass)" : ""));
                    return;
                }
                if (got) {
                    ++nHits;
                    bool exact = false;
                    for (const auto &v : values) exact = exact || lower(v) == lower(probes[p]) || lower(v) == "." + lower(probes[p]);
                    if (!exact) ++nSubdomainHits;
                    if (lower(probes[p]) != probes[p]) ++nCaseHits;
                } else ++nMisses;
            }
    }

    // each hand-picked probe also against a freshly parsed (never searched) tree
    for (const auto &h : freshProbes) {
        bool m = false;
        for (const auto &v : values) m = m || refValueMatches(v, h);
        Acl1 acl(values);
        ++nMatchCalls;
        const bool got = acl.data.match(h.c_str());
        if (got != m) {
            V::fail(std::string("host '") + h + "' " + (got ? "matched" : "did not match") + " on a freshly parsed ACL but the union of the listed values says " + (m ? "match" : "no match"));
            return;
        }
    }

    bool overlap = false;
    for (size_t i = 0; i < values.size(); ++i)
        for (size_t j = i + 1; j < values.size(); ++j)
            overlap = overlap || refValuesOverlap(values[i], values[j]);
    if (values.size() < 2) V::outcome("single-or-empty");
    else if (!(anyHit && anyMiss)) V::outcome("multi:all-same-answer");
    else V::outcome(overlap ? "multi:overlapping" : "multi:disjoint");
}

void body(V::Ctx &ctx)
{
    Mem::Init();
    // squid.conf default "configuration_includes_quoted_values off" (default_all() sets both before parsing starts)
    ConfigParser::RecognizeQuotedValues = false;
    ConfigParser::StrictMode = false;

    std::vector<std::string> pool = {"a.b", ".a.b", "b", ".b", "x.a.b", "A.B", ".x.a.b", "ab", "x-a.b", ".ab", "y.a.b", ".c"};
    if (ctx.thorough()) {
        const char *more[] = {"a.c", "xa.b", ".y.a.b", "y.x.a.b", ".X.A.b", "x_a.b"};
        for (auto m : more) pool.push_back(m);
    }
    const int maxLen = ctx.quick() ? 3 : 4;

    // probe universe: every host of 1..3 (thorough: 1..4) labels over a label set, plus case / trailing-dot variants
    const std::vector<std::string> labels = {"a", "b", "c", "x", "y", "ab", "xa", "x-a", "x_a", "za"};
    const int maxLabels = ctx.quick() ? 3 : 4;
    std::vector<std::string> probes;
    std::vector<int> li;
    for (int n = 1; n <= maxLabels; ++n) {
        li.assign(n, 0);
        for (;;) {
            std::string h;
            for (int i = 0; i < n; ++i) { if (i) h += '.'; h += labels[li[i]]; }
            // hosts longer than 3 labels: keep only those ending in a configured-looking suffix to bound the universe
            if (n <= 3 || (h.size() >= 3 && (h.compare(h.size() - 3, 3, "a.b") == 0 || h.compare(h.size() - 3, 3, "a.c") == 0)))
                probes.push_back(h);
            int k = n - 1;
            while (k >= 0 && ++li[k] == (int)labels.size()) { li[k] = 0; --k; }
            if (k < 0) break;
        }
    }
    const std::vector<std::string> fresh = {"a.b", "x.a.b", "y.x.a.b", "b", "xb", "ab", "a.b.", "A.B", "x.b", "za.b", "x-a.b", "y.a.b",
                                            "X.A.B", "Y.x.A.b", "a.c", "c", "x.c", "xa.b", "x.ab", "z.y.a.b", "a", "-a.b", "b.a", "x.a.b.", "aa.b", "a..b"
                                           };
    for (const auto &h : fresh) if (std::find(probes.begin(), probes.end(), h) == probes.end()) probes.push_back(h);
    if (ctx.shard == 0) {       // counters are summed over shards
        V::setCount("probe_hosts", probes.size());
        V::setCount("value_pool", pool.size());
    }

    std::vector<int> idx;
    for (int len = 0; len <= maxLen; ++len) {
        idx.assign(len, 0);
        for (;;) {
            std::string desc = "[";
            std::vector<std::string> values;
            for (int i = 0; i < len; ++i) { values.push_back(pool[idx[i]]); if (i) desc += ' '; desc += pool[idx[i]]; }
            desc += "]";
            if (V::begin_case(desc)) { checkList(values, probes, fresh); V::end_case(); }
            int k = len - 1;
            while (k >= 0 && ++idx[k] == (int)pool.size()) { idx[k] = 0; --k; }
            if (k < 0) break;
        }
    }
    V::count("match_calls", nMatchCalls);
    V::count("hits", nHits);
    V::count("misses", nMisses);
    V::count("subdomain_hits", nSubdomainHits);
    V::count("mixed_case_hits", nCaseHits);
    V::count("lists_with_dropped_redundant_value", nDropped);
}

} // namespace

VHARNESS_MAIN(body)
