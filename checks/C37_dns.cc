// C37 — DNS message decoding is memory-safe and faithful (E1).
// Real code: rfc1035MessageUnpack and the packers rfc1035BuildAQuery / rfc1035BuildPTRQuery /
// rfc3596Build*Query (src/dns/rfc1035.cc, rfc2671.cc, rfc3596.cc), recompiled from the current tree with
// ASan + UBSan.  Every datagram handed to the decoder lives in an exact-size heap block.
//
// Generator: a reference *encoder* (names, RRs, four compression styles) enumerates well-formed replies; each
// message, plus a set of hand-made malformed seeds (pointer loops, forward pointers, ...), is also fed in
// every truncation and every single-byte mutation.  Oracle: an independent strict reference *decoder*
// classifies each datagram; if it is well-formed (one question, backward-only compression pointers, sections
// exactly filling the datagram) Squid's decoded header, question and answer records must equal the reference
// decoding; otherwise Squid must merely terminate (alarm) without a sanitizer report and return either an
// error or an internally consistent decode.
#include "squid.h"
#include "dns/rfc1035.h"
#include "dns/rfc2671.h"
#include "dns/rfc3596.h"
#include "SquidConfig.h"

#include "vharness.h"

#include <arpa/inet.h>
#include <string>
#include <vector>
#include <cstring>

namespace {

typedef std::string Bytes;

void put16(Bytes &b, unsigned v) { b += (char)(v >> 8); b += (char)(v & 255); }
void put32(Bytes &b, uint32_t v) { put16(b, v >> 16); put16(b, v & 0xffff); }
unsigned get16(const Bytes &b, size_t p) { return ((unsigned char)b[p] << 8) | (unsigned char)b[p+1]; }
uint32_t get32(const Bytes &b, size_t p) { return ((uint32_t)get16(b, p) << 16) | get16(b, p + 2); }

// ---------------------------------------------------------------- decoded form (what both sides are compared on)
struct DQuestion { Bytes name; unsigned qtype = 0, qclass = 0; };
struct DRR { Bytes name; unsigned type = 0, klass = 0; uint32_t ttl = 0; unsigned rdlength = 0; Bytes rdata; /* PTR: target name text */ };
struct DMsg {
    unsigned id = 0, qr = 0, opcode = 0, aa = 0, tc = 0, rd = 0, ra = 0, rcode = 0, qd = 0, an = 0, ns = 0, ar = 0;
    DQuestion q;
    std::vector<DRR> answers;
};

// ---------------------------------------------------------------- strict reference decoder
// name text = labels joined by '.', the root name is "".  Pointers must point strictly backwards to an offset >= 12.
bool refName(const Bytes &m, size_t &off, Bytes &text, size_t limit /* bytes of m that may be read in place */) {
    size_t p = off;
    bool jumped = false;
    size_t wire = 0;
    text.clear();
    size_t end = limit;
    for (int hops = 0; ; ) {
        if (p >= end) return false;
        const unsigned c = (unsigned char)m[p];
        if (c >= 0xC0) {
            if (p + 2 > end) return false;
            const size_t target = ((c & 0x3F) << 8) | (unsigned char)m[p+1];
            if (target >= p || target < 12) return false;          // prior occurrence only
            if (!jumped) { off = p + 2; jumped = true; }
            p = target;
            end = m.size();     // the pointed-to name lives anywhere earlier in the message
            if (++hops > 127) return false;
            continue;
        }
        if (c > 63) return false;
        if (c == 0) { ++wire; if (!jumped) off = p + 1; break; }
        if (p + 1 + c > end) return false;
        wire += c + 1;
        if (wire > 254) return false;                               // 255 octets including the root label
        if (!text.empty()) text += '.';
        text.append(m, p + 1, c);
        p += 1 + c;
    }
    return wire <= 255;
}

bool refRR(const Bytes &m, size_t &off, DRR &rr) {
    if (!refName(m, off, rr.name, m.size())) return false;
    if (off + 10 > m.size()) return false;
    rr.type = get16(m, off); rr.klass = get16(m, off + 2); rr.ttl = get32(m, off + 4); rr.rdlength = get16(m, off + 8);
    off += 10;
    if (off + rr.rdlength > m.size()) return false;
    if (rr.type == 12) {
        size_t p = off;
        if (!refName(m, p, rr.rdata, off + rr.rdlength)) return false;
        if (p != off + rr.rdlength) return false;                   // the name must fill RDATA exactly
    } else
        rr.rdata.assign(m, off, rr.rdlength);
    off += rr.rdlength;
    return true;
}

// returns "" when the datagram is a well-formed message with one question, else the reason
const char *refDecode(const Bytes &m, DMsg &d) {
    if (m.size() < 12) return "shorter than a header";
    d.id = get16(m, 0);
    const unsigned f = get16(m, 2);
    d.qr = f >> 15; d.opcode = (f >> 11) & 15; d.aa = (f >> 10) & 1; d.tc = (f >> 9) & 1; d.rd = (f >> 8) & 1; d.ra = (f >> 7) & 1; d.rcode = f & 15;
    d.qd = get16(m, 4); d.an = get16(m, 6); d.ns = get16(m, 8); d.ar = get16(m, 10);
    if (d.qd != 1) return "qdcount != 1";
    size_t off = 12;
    if (!refName(m, off, d.q.name, m.size())) return "question name";
    if (off + 4 > m.size()) return "question truncated";
    d.q.qtype = get16(m, off); d.q.qclass = get16(m, off + 2);
    off += 4;
    d.answers.clear();
    for (unsigned i = 0; i < d.an; ++i) { DRR rr; if (!refRR(m, off, rr)) return "answer RR"; d.answers.push_back(rr); }
    for (unsigned i = 0; i < d.ns + d.ar; ++i) { DRR rr; if (!refRR(m, off, rr)) return "authority/additional RR"; }
    if (off != m.size()) return "trailing octets";
    return "";
}

// ---------------------------------------------------------------- reference encoder
typedef std::vector<Bytes> Labels;
Bytes textOf(const Labels &l) { Bytes t; for (size_t i = 0; i < l.size(); ++i) { if (i) t += '.'; t += l[i]; } return t; }
void putName(Bytes &b, const Labels &l) { for (auto &x : l) { b += (char)x.size(); b += x; } b += '\0'; }
void putPtr(Bytes &b, size_t target) { b += (char)(0xC0 | (target >> 8)); b += (char)(target & 255); }

enum { tA = 1, tCNAME = 5, tPTR = 12, tTXT = 16, tAAAA = 28, tOPT = 41 };
const int Types[5] = {tA, tAAAA, tPTR, tCNAME, tTXT};
const char *TypeNames[5] = {"A", "AAAA", "PTR", "CNAME", "TXT"};
// compression styles of an RR's owner name (and of the name inside PTR/CNAME RDATA)
enum { cFull = 0, cPtrQ = 1, cPtrPtr = 2, cLabelPtr = 3 };
const char *CompNames[4] = {"full", "ptr", "ptr2ptr", "label+ptr"};

struct Kind { int type, comp; };
struct Spec { int hdr; Labels qname; std::vector<Kind> rrs; };

struct HdrVariant { unsigned id, flags; bool extraSections; };
const HdrVariant Hdrs[6] = {
    {0x1234, 0x8180, false},        // plain response, RD RA
    {0xFFFF, 0x8600, true},         // AA TC, plus one NS and one OPT record after the answers
    {0x0000, 0x8183, false},        // NXDOMAIN: answers are present on the wire but Squid stops at the rcode
    {0x8000, 0x9070 | 0x0100, false},   // opcode 2, Z bits set
    {0x0001, 0x0100, false},        // QR=0 (a query)
    {0x00FF, 0x818F, true},         // rcode 15
};

// Builds the message; `want` receives what a faithful decoder must report.
Bytes encode(const Spec &s, DMsg &want) {
    const HdrVariant &h = Hdrs[s.hdr];
    Bytes m;
    put16(m, h.id); put16(m, h.flags); put16(m, 1); put16(m, s.rrs.size()); put16(m, h.extraSections ? 1 : 0); put16(m, h.extraSections ? 1 : 0);
    want = DMsg();
    want.id = h.id; want.qr = h.flags >> 15; want.opcode = (h.flags >> 11) & 15; want.aa = (h.flags >> 10) & 1; want.tc = (h.flags >> 9) & 1;
    want.rd = (h.flags >> 8) & 1; want.ra = (h.flags >> 7) & 1; want.rcode = h.flags & 15;
    want.qd = 1; want.an = s.rrs.size(); want.ns = want.ar = h.extraSections ? 1 : 0;
    const size_t qoff = m.size();
    putName(m, s.qname);
    put16(m, tA); put16(m, 1);
    want.q.name = textOf(s.qname); want.q.qtype = tA; want.q.qclass = 1;
    size_t lastPtrAt = 0;       // offset of an earlier 2-octet pointer field (for pointer-to-pointer)
    auto emitName = [&](int comp, Bytes &text) {
        Labels full = s.qname;
        switch (comp) {
        case cFull: putName(m, s.qname); text = textOf(s.qname); break;
        case cPtrPtr:
            if (lastPtrAt) { putPtr(m, lastPtrAt); text = textOf(s.qname); break; }
            /* no earlier pointer: fall through to a direct pointer */
        case cPtrQ: lastPtrAt = m.size(); putPtr(m, qoff); text = textOf(s.qname); break;
        case cLabelPtr: m += '\1'; m += 'w'; putPtr(m, qoff); full.insert(full.begin(), "w"); text = textOf(full); break;
        }
    };
    unsigned n = 0;
    for (const Kind &k : s.rrs) {
        DRR rr;
        emitName(k.comp, rr.name);
        rr.type = k.type; rr.klass = 1;
        rr.ttl = n == 0 ? 0 : n == 1 ? 0x7fffffffu : 0xffffffffu;
        put16(m, rr.type); put16(m, rr.klass); put32(m, rr.ttl);
        const size_t lenAt = m.size();
        put16(m, 0);
        const size_t start = m.size();
        switch (k.type) {
        case tA: m += (char)192; m += (char)0; m += (char)2; m += (char)(n + 1); break;
        case tAAAA: for (int i = 0; i < 16; ++i) m += (char)(i == 0 ? 0x20 : i == 1 ? 0x01 : i == 15 ? n + 1 : i == 7 ? 0xff : 0); break;
        case tTXT: if (k.comp != cPtrQ) { m += '\3'; m += "a.b"; } break;     // comp 'ptr' doubles as "empty RDATA"
        case tPTR: case tCNAME: { Bytes t; emitName(k.comp, t); if (k.type == tPTR) rr.rdata = t; break; }
        }
        rr.rdlength = m.size() - start;
        m[lenAt] = (char)(rr.rdlength >> 8); m[lenAt + 1] = (char)(rr.rdlength & 255);
        if (k.type != tPTR) rr.rdata.assign(m, start, rr.rdlength);
        want.answers.push_back(rr);
        ++n;
    }
    if (h.extraSections) {
        putPtr(m, qoff); put16(m, 2); put16(m, 1); put32(m, 3600); put16(m, 6); m += '\2'; m += "ns"; m += '\1'; m += 'x'; m += '\0';     // NS
        m += '\0'; put16(m, tOPT); put16(m, 4096); put32(m, 0); put16(m, 0);                                                                  // OPT
    }
    return m;
}

// ---------------------------------------------------------------- the code under test
uint64_t nDecodes = 0, nWellformed = 0, nCompared = 0;

Bytes showMsg(const Bytes &m) { return V::esc(m.size() > 96 ? m.substr(0, 96) + "...(" + std::to_string(m.size()) + " octets)" : m); }

uint64_t nRootDot = 0;
// Octet-wise comparison of Squid's name buffer with the reference text.  A name whose last label is followed by
// a compression pointer to the root label comes out of Squid with one trailing '.' ("w." for labels {w}): the
// same name in fully-qualified spelling, which rfc1035QueryCompare treats as equal.  Tolerated and counted.
bool sameName(const char *buf, const Bytes &want) {
    if (want.size() + 1 >= RFC1035_MAXHOSTNAMESZ || memcmp(buf, want.data(), want.size()) != 0) return false;
    if (buf[want.size()] == 0) return true;
    if (!want.empty() && buf[want.size()] == '.' && buf[want.size() + 1] == 0) { ++nRootDot; return true; }
    return false;
}

// Feeds m to rfc1035MessageUnpack; returns an outcome class.  how: description of the datagram for messages.
struct How {     // description of a datagram, rendered only when something has to be reported
    const std::string *base; int kind; size_t pos; unsigned val;
    std::string str() const {
        char d[64] = "";
        if (kind == 1) snprintf(d, sizeof d, " truncated to %zu", pos);
        else if (kind == 2) snprintf(d, sizeof d, " with octet %zu = 0x%02x", pos, val);
        return *base + d;
    }
};

const char *decodeOne(const Bytes &m, const How &howLazy) {
    ++nDecodes;
    DMsg ref;
    const char *why = refDecode(m, ref);
    const bool wf = !*why;
    char *blk = (char *)malloc(m.size());
    memcpy(blk, m.data(), m.size());
    rfc1035_message *msg = nullptr;
    const int n = rfc1035MessageUnpack(blk, m.size(), &msg);
    const char *cls = n < 0 ? "malformed:error" : "malformed:decoded";
    std::string bad;
    // (1) internal consistency of whatever came back (touches every byte the caller would read)
    if (n >= 0 && !msg) bad = "returned " + std::to_string(n) + " without a message";
    if (msg) {
        if (!msg->query) bad = "message without query";
        else if (!memchr(msg->query->name, 0, RFC1035_MAXHOSTNAMESZ)) bad = "unterminated question name";
        if (n > 0) {
            if ((unsigned)n > msg->ancount) bad = "more records than ancount";
            for (int i = 0; i < n && bad.empty(); ++i) {
                const rfc1035_rr &rr = msg->answer[i];
                if (!memchr(rr.name, 0, RFC1035_MAXHOSTNAMESZ)) bad = "unterminated RR name";
                if (rr.rdlength && !rr.rdata) bad = "rdlength without rdata";
                if (rr.type == tPTR) { if (rr.rdata && !memchr(rr.rdata, 0, RFC1035_MAXHOSTNAMESZ)) bad = "unterminated PTR target"; }
                else { volatile unsigned sum = 0; for (unsigned k = 0; k < rr.rdlength; ++k) sum += (unsigned char)rr.rdata[k]; (void)sum; }
            }
        }
    }
    if (!bad.empty()) V::failKey("unpack:inconsistent-result", howLazy.str() + ": " + bad + " for " + showMsg(m));
    // (2) faithfulness on well-formed datagrams
    if (wf && bad.empty()) {
        ++nWellformed;
        std::string diff, tag;
        const int wantRet = ref.rcode ? -(int)ref.rcode : (int)ref.an;
        if (n != wantRet) tag = "return-value", diff = "returned " + std::to_string(n) + ", expected " + std::to_string(wantRet);
        else if (!msg) tag = "return-value", diff = "no message returned";
        else {
            ++nCompared;
            if (msg->id != ref.id || msg->qr != ref.qr || msg->opcode != ref.opcode || msg->aa != ref.aa || msg->tc != ref.tc || msg->rd != ref.rd ||
                    msg->ra != ref.ra || msg->rcode != ref.rcode || msg->qdcount != ref.qd || msg->ancount != ref.an || msg->nscount != ref.ns || msg->arcount != ref.ar)
                tag = "header", diff = "header fields differ";
            else if (!sameName(msg->query->name, ref.q.name)) tag = "question", diff = "question name \"" + V::esc(msg->query->name) + "\" != \"" + V::esc(ref.q.name) + "\"";
            else if (msg->query->qtype != ref.q.qtype || msg->query->qclass != ref.q.qclass) tag = "question", diff = "question type/class differ";
            else if (!ref.rcode)
                for (unsigned i = 0; i < ref.an && diff.empty(); ++i) {
                    const rfc1035_rr &rr = msg->answer[i];
                    const DRR &w = ref.answers[i];
                    const std::string at = "answer " + std::to_string(i) + ": ";
                    if (!sameName(rr.name, w.name)) tag = "answer-owner", diff = at + "owner \"" + V::esc(rr.name) + "\" != \"" + V::esc(w.name) + "\"";
                    else if (rr.type != w.type || rr._class != w.klass || rr.ttl != w.ttl) tag = "answer-type-class-ttl", diff = at + "type/class/ttl differ";
                    else if (w.type == tPTR) { if (!rr.rdata || !sameName(rr.rdata, w.rdata)) tag = "ptr-target", diff = at + "PTR target \"" + V::esc(rr.rdata ? rr.rdata : "(null)") + "\" != \"" + V::esc(w.rdata) + "\""; }
                    else if (rr.rdlength != w.rdlength || (w.rdlength && memcmp(rr.rdata, w.rdata.data(), w.rdlength) != 0)) tag = "rdata", diff = at + "RDATA differs (rdlength " + std::to_string(rr.rdlength) + " vs " + std::to_string(w.rdlength) + ")";
                }
        }
        if (!diff.empty()) V::failKey(std::string("unpack:unfaithful:") + (ref.rcode ? "rcode" : "ok") + ":" + tag, howLazy.str() + ": " + diff + " for well-formed " + showMsg(m));
        cls = ref.rcode ? "wellformed:rcode" : ref.an ? "wellformed:answers" : "wellformed:no-answers";
    }
    if ((howLazy.kind == 0 && (nDecodes % 1500) == 1) || (howLazy.kind == 2 && (nDecodes % 400001) == 7)) {
        std::string t = howLazy.str() + ": " + showMsg(m) + " => returned " + std::to_string(n);
        if (msg && msg->query) t += std::string(", question \"") + V::esc(msg->query->name) + "\"";
        for (int i = 0; msg && i < n && i < 3; ++i) t += std::string(i ? ", " : "; answers: ") + V::esc(msg->answer[i].name) + " type " + std::to_string(msg->answer[i].type) + (msg->answer[i].type == tPTR && msg->answer[i].rdata ? std::string(" -> ") + V::esc(msg->answer[i].rdata) : std::string());
        V::sample(t + (wf ? " [reference: well-formed, equal]" : std::string(" [reference: malformed: ") + why + "]"));
    }
    if (msg) rfc1035MessageDestroy(&msg);
    free(blk);
    return cls;
}

const unsigned char MutVals[] = {0x00, 0xFF, 0xC0, 0x3F, 0x0C};

std::map<std::string, uint64_t> localOutcomes;     // merged into V::S().outcomes at the end (saves a string per decode)
void tally(const char *prefix, const char *cls) {
    static std::map<std::pair<const char *, const char *>, uint64_t *> fast;
    uint64_t *&slot = fast[{prefix, cls}];
    if (!slot) slot = &localOutcomes[std::string(prefix) + cls];
    ++*slot;
}

// the message itself, every truncation, every single-octet mutation.
// hugeCounts: also set the high octet of ANCOUNT to 0xFF/0xC0/0x3F/0x0C (an up to 18 MB record array per decode, about a second
// under ASan: done for the answer-less messages of header 0 with names <= 1 label and for the seeds; everywhere else octet 6 is
// mutated to 0x00 and +1 only, i.e. up to 511 records).
void explore(const Bytes &m, const std::string &how, bool mustBeWellformed, const DMsg *want, bool hugeCounts, bool mutate = true) {
    if (mustBeWellformed) {
        // self-test: the independent reference decoder must agree with the reference encoder
        DMsg r;
        const char *why = refDecode(m, r);
        bool same = !*why && r.answers.size() == want->answers.size() && r.q.name == want->q.name && r.id == want->id && r.rcode == want->rcode && r.ns == want->ns && r.ar == want->ar;
        for (size_t i = 0; same && i < r.answers.size(); ++i)
            same = r.answers[i].name == want->answers[i].name && r.answers[i].type == want->answers[i].type && r.answers[i].ttl == want->answers[i].ttl &&
                   r.answers[i].rdata == want->answers[i].rdata && (r.answers[i].type == tPTR || r.answers[i].rdlength == want->answers[i].rdlength);
        if (!same) { V::fail("harness self-test: reference decoder and encoder disagree (" + std::string(why) + ") on " + how + " " + showMsg(m)); return; }
    }
    tally("intact:", decodeOne(m, How{&how, 0, 0, 0}));
    for (size_t len = 0; len < m.size(); ++len)
        tally("truncated:", decodeOne(m.substr(0, len), How{&how, 1, len, 0}));
    if (!mutate) return;
    Bytes x = m;
    for (size_t p = 0; p < m.size(); ++p) {
        const unsigned char orig = m[p];
        unsigned char vals[7];
        size_t nv = 0;
        if (p != 6 || hugeCounts) for (unsigned char v : MutVals) vals[nv++] = v; else vals[nv++] = 0;
        vals[nv++] = orig + 1;
        if (p != 6) vals[nv++] = (unsigned char)(p ? p - 1 : 0);          // after a 0xC0 octet: a pointer to itself
        for (size_t k = 0; k < nv; ++k) {
            if (vals[k] == orig) continue;
            bool dup = false;
            for (size_t j = 0; j < k; ++j) dup = dup || vals[j] == vals[k];
            if (dup) continue;
            x[p] = (char)vals[k];
            tally("mutated:", decodeOne(x, How{&how, 2, p, vals[k]}));
        }
        x[p] = (char)orig;
    }
}

std::string describe(const Spec &s) {
    std::string d = "hdr" + std::to_string(s.hdr) + " q=" + (s.qname.empty() ? std::string(".") : std::string());
    for (size_t i = 0; i < s.qname.size(); ++i) d += (i ? "." : "") + (s.qname[i].size() > 8 ? "L" + std::to_string(s.qname[i].size()) : s.qname[i]);
    for (auto &k : s.rrs) d += std::string(" ") + TypeNames[k.type == tA ? 0 : k.type == tAAAA ? 1 : k.type == tPTR ? 2 : k.type == tCNAME ? 3 : 4] + "/" + CompNames[k.comp];
    return d;
}

// ---------------------------------------------------------------- malformed seeds (termination / memory safety only)
std::vector<std::pair<std::string, Bytes>> seeds() {
    std::vector<std::pair<std::string, Bytes>> v;
    auto hdr = [](unsigned qd, unsigned an) { Bytes m; put16(m, 7); put16(m, 0x8180); put16(m, qd); put16(m, an); put16(m, 0); put16(m, 0); return m; };
    auto rrTail = [](Bytes &m, unsigned type, const Bytes &rdata) { put16(m, type); put16(m, 1); put32(m, 60); put16(m, rdata.size()); m += rdata; };
    { Bytes m = hdr(1, 1); putPtr(m, 12); put16(m, 1); put16(m, 1); v.push_back({"question name points to itself", m}); }
    { Bytes m = hdr(1, 1); m += '\1'; m += 'a'; putPtr(m, 12); put16(m, 1); put16(m, 1); v.push_back({"label then pointer back to the label (name grows forever)", m}); }
    { Bytes m = hdr(1, 1); m += '\1'; m += 'a'; m += '\0'; put16(m, 1); put16(m, 1); putPtr(m, 21); putPtr(m, 19); rrTail(m, 1, Bytes("\1\2\3\4", 4)); v.push_back({"two-pointer cycle in the answer owner", m}); }
    { Bytes m = hdr(1, 1); m += '\1'; m += 'a'; m += '\0'; put16(m, 1); put16(m, 1); putPtr(m, 35); rrTail(m, 1, Bytes("\1\2\3\4", 4)); m += '\1'; m += 'z'; m += '\0'; v.push_back({"forward pointer to a name after the record", m}); }
    { Bytes m = hdr(1, 1); m += '\1'; m += 'a'; m += '\0'; put16(m, 1); put16(m, 1); putPtr(m, 0); rrTail(m, 1, Bytes("\1\2\3\4", 4)); v.push_back({"pointer into the header", m}); }
    { Bytes m = hdr(1, 1); m += '\1'; m += 'a'; m += '\0'; put16(m, 1); put16(m, 1); putPtr(m, 12); rrTail(m, 12, Bytes("\xC0\x1F", 2)); v.push_back({"PTR RDATA pointing at itself", m}); }
    { Bytes m = hdr(1, 1); m += '\1'; m += 'a'; m += '\0'; put16(m, 1); put16(m, 1); putPtr(m, 12); rrTail(m, 12, Bytes("\1b\xC0\x0C", 4)); m[m.size() - 5] = 2; v.push_back({"PTR name longer than its rdlength", m}); }
    { Bytes m = hdr(1, 2); m += '\1'; m += 'a'; m += '\0'; put16(m, 1); put16(m, 1); putPtr(m, 12); rrTail(m, 1, Bytes("\1\2\3\4", 4)); v.push_back({"ancount 2 with one record", m}); }
    { Bytes m = hdr(0, 1); putPtr(m, 12); rrTail(m, 1, Bytes("\1\2\3\4", 4)); v.push_back({"no question", m}); }
    { Bytes m = hdr(2, 0); m += '\1'; m += 'a'; m += '\0'; put16(m, 1); put16(m, 1); putPtr(m, 12); put16(m, 28); put16(m, 1); v.push_back({"two questions", m}); }
    { Bytes m = hdr(1, 1); m += (char)0x40; m += std::string(64, 'x'); m += '\0'; put16(m, 1); put16(m, 1); putPtr(m, 12); rrTail(m, 1, Bytes("\1\2\3\4", 4)); v.push_back({"64-octet label", m}); }
    {   // a 256+-octet name assembled from four 63-octet labels plus more via a pointer chain
        Bytes m = hdr(1, 1);
        for (int i = 0; i < 4; ++i) { m += (char)63; m += std::string(63, 'a' + i); }
        m += '\0'; put16(m, 1); put16(m, 1);
        m += (char)63; m += std::string(63, 'z'); putPtr(m, 12); rrTail(m, 1, Bytes("\1\2\3\4", 4));
        v.push_back({"over-long names", m});
    }
    { Bytes m = hdr(1, 1024); m += '\0'; put16(m, 1); put16(m, 1); for (int i = 0; i < 40; ++i) { m += '\0'; rrTail(m, 1, Bytes()); } v.push_back({"ancount 1024 with 40 empty records", m}); }
    { Bytes m = hdr(1, 65535); m += '\0'; put16(m, 1); put16(m, 1); for (int i = 0; i < 3; ++i) { m += '\0'; rrTail(m, 1, Bytes()); } v.push_back({"ancount 65535 with 3 empty records (truncations only)", m}); }
    { Bytes m = hdr(1, 1); m += '\0'; put16(m, 1); put16(m, 1); m += '\0'; rrTail(m, 12, Bytes("\0", 1)); v.push_back({"root names everywhere (well-formed)", m}); }
    // names at the edge of the 255-octet wire limit / 256-octet text buffers: last label 61 (legal maximum), 62 and 63 octets,
    // as question name, as pointer-compressed owner and as uncompressed PTR target (a 256-octet heap block in Squid)
    for (int last : {61, 62, 63}) {
        Bytes name;
        for (int i = 0; i < 3; ++i) { name += (char)63; name += std::string(63, 'a' + i); }
        name += (char)last; name += std::string(last, 'd'); name += '\0';
        Bytes m = hdr(1, last == 61 ? 1 : 2); m += name; put16(m, 12); put16(m, 1);
        putPtr(m, 12); rrTail(m, 12, name);          // with last == 61 this message is well-formed: compared field by field
        if (last != 61) { m += (char)1; m += 'w'; putPtr(m, 12); rrTail(m, 12, Bytes("\xC0\x0C", 2)); }     // one more label in front: beyond every limit
        v.push_back({"names with a last label of " + std::to_string(last) + " octets after three 63-octet labels", m});
    }
    return v;
}

// ---------------------------------------------------------------- packers: a packed query decodes back to itself
uint64_t nPacked = 0;

void checkPacked(const std::string &what, const Bytes &pkt, unsigned qid, const std::string &name, unsigned qtype, long edns, const rfc1035_query &filled) {
    ++nPacked;
    DMsg r;
    const char *why = refDecode(pkt, r);
    std::string want = name;
    while (!want.empty() && want.back() == '.') want.pop_back();
    std::string diff;
    if (*why) diff = std::string("reference decoder rejects the packet: ") + why;
    else if (r.id != qid || r.qr || r.opcode || r.aa || r.tc || !r.rd || r.ra || r.rcode || r.an || r.ns || r.ar != (edns > 0 ? 1u : 0u)) diff = "header differs";
    else if (r.q.name != want) diff = "question name \"" + V::esc(r.q.name) + "\" != \"" + V::esc(want) + "\"";
    else if (r.q.qtype != qtype || r.q.qclass != 1) diff = "question type/class differ";
    if (diff.empty() && edns > 0) {
        // the OPT pseudo-record: root owner, type 41, class = advertised size, ttl 0, no RDATA
        const Bytes tail = pkt.substr(pkt.size() >= 11 ? pkt.size() - 11 : 0);
        if (tail.size() != 11 || tail[0] != 0 || get16(tail, 1) != tOPT || (long)get16(tail, 3) != edns || get32(tail, 5) != 0 || get16(tail, 9) != 0) diff = "OPT record differs";
    }
    if (diff.empty()) {
        // and Squid's own decoder must give the question back
        char *blk = (char *)malloc(pkt.size());
        memcpy(blk, pkt.data(), pkt.size());
        rfc1035_message *msg = nullptr;
        const int n = rfc1035MessageUnpack(blk, pkt.size(), &msg);
        if (n != 0 || !msg) diff = "rfc1035MessageUnpack of the packed query returned " + std::to_string(n);
        else if (msg->id != qid || msg->qdcount != 1 || msg->rd != 1 || msg->qr != 0) diff = "unpacked header differs";
        else if (rfc1035QueryCompare(&filled, msg->query) != 0) diff = std::string("unpacked question \"") + msg->query->name + "\" does not compare equal to the query struct \"" + filled.name + "\"";
        else if (!sameName(msg->query->name, want)) diff = std::string("unpacked question name \"") + msg->query->name + "\" != \"" + want + "\"";
        if (msg) rfc1035MessageDestroy(&msg);
        free(blk);
    }
    if (!diff.empty()) V::failKey("pack:" + what.substr(0, what.find('(')) + ":does-not-decode-to-itself", what + ": " + diff + "; packet " + showMsg(pkt));
    V::outcome("packed:" + what.substr(0, what.find('(')));
}

template <class F> void packBoth(const std::string &what, unsigned qid, const std::string &name, unsigned qtype, long edns, F build) {
    // first into a 512-octet block, then into a block of exactly the produced size
    char *big = (char *)malloc(512);
    memset(big, 0xA5, 512);
    rfc1035_query q1; memset(&q1, 0, sizeof q1);
    const ssize_t n = build(big, (size_t)512, &q1);
    if (n <= 0 || n > 512) { V::fail(what + ": builder returned " + std::to_string((long)n)); free(big); return; }
    const Bytes pkt(big, n);
    free(big);
    checkPacked(what, pkt, qid, name, qtype, edns, q1);
    char *exact = (char *)malloc(n);
    rfc1035_query q2; memset(&q2, 0, sizeof q2);
    const ssize_t n2 = build(exact, (size_t)n, &q2);
    if (n2 != n || memcmp(exact, pkt.data(), n) != 0) V::fail(what + ": packing into an exact-size buffer gives a different packet");
    free(exact);
}

void packers(bool quick) {
    const std::vector<std::string> labels = {"a", "bc", std::string(63, 'x'), "xn--9", "A-1", "0"};
    std::vector<std::string> hosts;
    for (auto &a : labels) {
        hosts.push_back(a);
        for (auto &b : labels) {
            hosts.push_back(a + "." + b);
            for (auto &c : labels) {
                hosts.push_back(a + "." + b + "." + c);
                if (!quick) for (auto &d : labels) if (a.size() + b.size() + c.size() + d.size() + 4 <= 253) hosts.push_back(a + "." + b + "." + c + "." + d);
            }
        }
    }
    const size_t n0 = hosts.size();
    for (size_t i = 0; i < n0; i += 7) hosts.push_back(hosts[i] + ".");          // fully qualified spelling
    const unsigned qids[] = {0, 1, 0x1234, 0xFFFF};
    const long ednss[] = {0, 512, 4096, 65535};
    size_t k = 0;
    for (auto &h : hosts) {
        const unsigned qid = qids[k % 4];
        const long edns = ednss[(k / 4) % 4];
        ++k;
        if (!V::begin_case("pack:host=" + (h.size() > 40 ? h.substr(0, 8) + "..len" + std::to_string(h.size()) + "#" + std::to_string(k) : h))) continue;
        for (long e : {edns, 0L}) {
            const long eff = e > 0 ? std::min<long>(e, SQUID_UDP_SO_RCVBUF - 1) : 0;
            packBoth("rfc1035BuildAQuery(" + h + ", edns=" + std::to_string(e) + ")", qid, h, tA, eff,
                     [&](char *b, size_t sz, rfc1035_query *q) { return rfc1035BuildAQuery(h.c_str(), b, sz, qid, q, e); });
            Config.dns.packet_max = e;
            packBoth("rfc3596BuildAQuery(" + h + ", edns=" + std::to_string(e) + ")", qid, h, tA, eff,
                     [&](char *b, size_t sz, rfc1035_query *q) { return rfc3596BuildAQuery(h.c_str(), b, sz, qid, q); });
            packBoth("rfc3596BuildAAAAQuery(" + h + ", edns=" + std::to_string(e) + ")", qid, h, tAAAA, eff,
                     [&](char *b, size_t sz, rfc1035_query *q) { return rfc3596BuildAAAAQuery(h.c_str(), b, sz, qid, q); });
        }
        V::end_case();
    }
    const unsigned octs[] = {0, 1, 9, 10, 99, 100, 127, 255};
    const int no = quick ? 4 : 8;
    for (int a = 0; a < no; ++a) {
        if (!V::begin_case("pack:ptr4=" + std::to_string(octs[a * (quick ? 2 : 1)]) + ".*")) continue;
        for (int b = 0; b < no; ++b) for (int c = 0; c < no; ++c) for (int d = 0; d < no; ++d) {
            const unsigned st = quick ? 2 : 1;
            const unsigned A = octs[a * st], B = octs[b * st], C = octs[c * st], D = octs[d * st];
            struct in_addr ia; ia.s_addr = htonl((A << 24) | (B << 16) | (C << 8) | D);
            char rev[64]; snprintf(rev, sizeof rev, "%u.%u.%u.%u.in-addr.arpa.", D, C, B, A);
            const long e = ((a + b + c + d) & 1) ? 4096 : 0;
            packBoth(std::string("rfc1035BuildPTRQuery(") + rev + ")", 77, rev, tPTR, e,
                     [&](char *buf, size_t sz, rfc1035_query *q) { return rfc1035BuildPTRQuery(ia, buf, sz, 77, q, e); });
            Config.dns.packet_max = e;
            packBoth(std::string("rfc3596BuildPTRQuery4(") + rev + ")", 78, rev, tPTR, e,
                     [&](char *buf, size_t sz, rfc1035_query *q) { return rfc3596BuildPTRQuery4(ia, buf, sz, 78, q); });
        }
        V::end_case();
    }
    const char *v6[] = {"::", "::1", "2001:db8::1", "ffff:ffff:ffff:ffff:ffff:ffff:ffff:ffff", "0123:4567:89ab:cdef:0123:4567:89ab:cdef", "fe80::a:b:c:d"};
    for (const char *t : v6) {
        if (!V::begin_case(std::string("pack:ptr6=") + t)) continue;
        struct in6_addr a6; inet_pton(AF_INET6, t, &a6);
        std::string rev;
        for (int i = 15; i >= 0; --i) { char b[8]; snprintf(b, sizeof b, "%x.%x.", a6.s6_addr[i] & 15, a6.s6_addr[i] >> 4); rev += b; }
        rev += "ip6.arpa.";
        for (long e : {0L, 1232L}) {
            Config.dns.packet_max = e;
            packBoth("rfc3596BuildPTRQuery6(" + std::string(t) + ")", 79, rev, tPTR, e,
                     [&](char *buf, size_t sz, rfc1035_query *q) { return rfc3596BuildPTRQuery6(a6, buf, sz, 79, q); });
        }
        V::end_case();
    }
}

// ---------------------------------------------------------------- enumeration
void body(V::Ctx &ctx)
{
    const bool quick = ctx.quick();
    const Bytes L63(63, 'k');
    const std::vector<Bytes> labelSet = {"a", "bc", L63};
    std::vector<Labels> names2, names3;     // up to 2 / up to 3 labels
    names2.push_back({});
    for (auto &a : labelSet) { names2.push_back({a}); for (auto &b : labelSet) names2.push_back({a, b}); }
    names3 = names2;
    for (auto &a : labelSet) for (auto &b : labelSet) for (auto &c : labelSet) names3.push_back({a, b, c});
    std::vector<Kind> kinds;
    for (int t : Types) for (int c = 0; c < 4; ++c) kinds.push_back({t, c});

    // quick:    header 0 x { names <= 2 labels x answer lists of length <= 2,  names of 3 labels x lists of length <= 1 }
    //           + headers 1,2 x all names x lists <= 1
    // thorough: headers 0-3 x { names <= 3 labels x lists <= 2 } + headers 0,1 x { names <= 1 label x lists of length 3 }
    //           + headers 4,5 x names <= 3 labels x lists <= 1
    auto runSpec = [&](Spec &s) {
        DMsg want;
        const Bytes m = encode(s, want);
        const bool small = s.hdr == 0 && s.qname.size() <= 1 && s.rrs.empty();
        explore(m, describe(s), true, &want, small);
    };
    for (int h = 0; h < (quick ? 3 : 6); ++h) {
        for (size_t ni = 0; ni < names3.size(); ++ni) {
            const size_t nl = names3[ni].size();
            int maxRR;
            if (quick) maxRR = (nl == 3 || h > 0) ? 1 : 2;
            else if (h >= 4) maxRR = 1;
            else maxRR = (nl <= 1 && h <= 1) ? 3 : 2;
            Spec s; s.hdr = h; s.qname = names3[ni];
            // one case for the empty list + one per first answer kind
            if (V::begin_case("msg:" + describe(s) + " (no answers)")) { alarm(300); runSpec(s); alarm(0); V::end_case(); }
            for (const Kind &k0 : kinds) {
                s.rrs = {k0};
                if (!V::begin_case("msg:" + describe(s) + " ...")) { s.rrs.clear(); continue; }
                alarm(900);      // a decoder that loops is killed here and reported as a crash (signal 14) of this case
                runSpec(s);
                if (maxRR >= 2)
                    for (const Kind &k1 : kinds) {
                        s.rrs = {k0, k1};
                        runSpec(s);
                        if (maxRR >= 3)
                            for (const Kind &k2 : kinds) { s.rrs = {k0, k1, k2}; runSpec(s); }
                    }
                alarm(0);
                V::end_case();
                s.rrs.clear();
            }
        }
    }
    for (auto &sd : seeds()) {
        if (!V::begin_case("seed:" + sd.first)) continue;
        alarm(600);
        explore(sd.second, "seed '" + sd.first + "'", false, nullptr, true, sd.first.find("truncations only") == std::string::npos);
        alarm(0);
        V::end_case();
    }
    packers(quick);
    for (auto &o : localOutcomes) V::S().outcomes[o.first] += o.second;
    V::count("names_with_trailing_root_dot", nRootDot);
    V::count("unpack_calls", nDecodes);
    V::count("wellformed_datagrams", nWellformed);
    V::count("field_by_field_comparisons", nCompared);
    V::count("packed_queries", nPacked);
}

} // namespace

static_assert(sizeof(SquidConfig) <= (1 << 16), "C37_config.cc storage too small");

VHARNESS_MAIN(body)
