// C26 — Content-Length interpretation (Http::ContentLengthInterpreter driven through
// HttpHeader::parse) vs the rule of the property statement (E1).
//
// Real code: src/http/ContentLengthInterpreter.cc, src/HttpHeader.cc (parse: checkField calls,
// sanitising, Transfer-Encoding / status-code overrides), HttpHeaderTools.cc (httpHeaderParseOffset),
// StrList.cc, as linked into tests/testHttpRequest.
// Observables are the ones the callers use: parse() result, has(Content-Length) + getInt64()
// (Http::Message::hdrCacheInit), conflictingContentLength() (HttpRequest.cc:661, http.cc:1351).
#include "squid.h"
#include "HttpHeader.h"
#include "http/ContentLengthInterpreter.h"
#include "http/StatusCode.h"
#include "mem/forward.h"
#include "SquidConfig.h"

#include "vharness.h"

namespace {

typedef unsigned char uc;
typedef unsigned __int128 u128;

// ---- reference -------------------------------------------------------------------------------
// A Content-Length "value" is a field value or, in a comma-separated list, one list element,
// with surrounding SP/HTAB removed.  valid = 1*DIGIT and <= 2^63-1.
struct Item { bool empty = false, valid = false; u128 value = 0; };

Item classify(std::string s)
{
    Item it;
    size_t a = 0, b = s.size();
    while (a < b && (s[a] == ' ' || s[a] == '\t')) ++a;
    while (b > a && (s[b-1] == ' ' || s[b-1] == '\t')) --b;
    s = s.substr(a, b - a);
    if (s.empty()) { it.empty = true; return it; }
    u128 v = 0;
    bool big = false;
    for (uc c : s) {
        if (c < '0' || c > '9') return it; // not a decimal
        v = v * 10 + (c - '0');
        if (v > ((u128)1 << 100)) { big = true; v = (u128)1 << 100; }
    }
    if (big || v > (u128)INT64_MAX) return it;
    it.valid = true;
    it.value = v;
    return it;
}

struct RefCl {
    size_t fields = 0, items = 0, emptyItems = 0, invalid = 0;
    bool list = false;          // some field value contains a comma
    bool allEqual = true;
    bool haveValue = false;
    u128 value = 0;
    // verdicts
    bool clean() const { return items >= 1 && invalid == 0 && allEqual; }           // every value valid, all equal
    bool single() const { return clean() && items == 1 && !list && emptyItems == 0; }
};

RefCl refInterpret(const std::vector<std::string> &fieldValues)
{
    RefCl r;
    r.fields = fieldValues.size();
    for (const std::string &fv : fieldValues) {
        std::vector<std::string> parts;
        if (fv.find(',') != std::string::npos) {
            r.list = true;
            size_t from = 0;
            for (;;) {
                const size_t c = fv.find(',', from);
                parts.push_back(fv.substr(from, c == std::string::npos ? std::string::npos : c - from));
                if (c == std::string::npos) break;
                from = c + 1;
            }
        } else
            parts.push_back(fv);
        for (const std::string &p : parts) {
            const Item it = classify(p);
            if (it.empty) {
                // an empty *field* value is invalid; an empty list element is left unspecified
                if (parts.size() == 1) { ++r.items; ++r.invalid; } else ++r.emptyItems;
                continue;
            }
            ++r.items;
            if (!it.valid) { ++r.invalid; continue; }
            if (!r.haveValue) { r.haveValue = true; r.value = it.value; }
            else if (r.value != it.value) r.allEqual = false;
        }
    }
    return r;
}

std::string show(u128 v)
{
    if (v == 0) return "0";
    std::string s;
    while (v > 0) { s.insert(s.begin(), char('0' + (int)(v % 10))); v /= 10; }
    return s;
}

// ---- driver ----------------------------------------------------------------------------------
enum Msg { M_REQUEST, M_REPLY_200, M_REPLY_204, M_REPLY_100, M_END };
const char *msgName(int m) { static const char *n[] = {"request", "reply-200", "reply-204", "reply-100"}; return n[m]; }

uint64_t nCommaOnlyIgnored = 0, nParse = 0, nTaken = 0, nBadFraming = 0, nRejected = 0, nConflictFlag = 0, nIgnored = 0, nDupAccepted = 0, nDupRefused = 0, nSanitised = 0;

// Returns an outcome label for the (strict-mode request) classification.
std::string checkOne(const std::vector<std::string> &fieldValues, const int layout, const int msg, const int relaxed, const bool withTe)
{
    Config.onoff.relaxed_header_parser = relaxed;
    // layouts: where the Content-Length fields sit among other fields / how the name is spelled
    std::string block;
    static const char *const names[] = {"Content-Length", "content-length", "CONTENT-LENGTH"};
    if (layout == 1) block += "Host: a\r\n";
    for (size_t i = 0; i < fieldValues.size(); ++i) {
        block += names[layout == 2 ? (i + 1) % 3 : 0];
        block += layout == 2 ? ":" : ": ";
        block += fieldValues[i];
        block += "\r\n";
        if (layout == 1 && i + 1 < fieldValues.size()) block += "X: 1, 2\r\n";
    }
    if (withTe) block += "Transfer-Encoding: chunked\r\n";
    if (layout == 1) block += "Z: z\r\n";
    block += "\r\n";
    const std::string cfg = std::string(msgName(msg)) + " relaxed=" + (relaxed ? "on" : "off") + (withTe ? " +TE" : "") + " block='" + V::esc(block) + "'";

    const RefCl ref = refInterpret(fieldValues);

    std::vector<char> buf(block.begin(), block.end());
    buf.push_back('\0');
    HttpHeader hdr(msg == M_REQUEST ? hoRequest : hoReply);
    Http::ContentLengthInterpreter clen;
    if (msg == M_REPLY_204) clen.applyStatusCodeRules(Http::scNoContent);
    if (msg == M_REPLY_100) clen.applyStatusCodeRules(Http::scContinue);
    size_t hdrSize = 0;
    ++nParse;
    const int rc = hdr.parse(buf.data(), block.size(), false, hdrSize, clen);
    if (rc == 0) { V::fail(cfg + ": parse() asked for more data"); return "harness"; }

    const bool rejected = rc < 0;
    const bool flagged = !rejected && hdr.conflictingContentLength();
    const bool hasCl = !rejected && hdr.has(Http::HdrType::CONTENT_LENGTH);
    const bool taken = hasCl && !flagged;
    const int64_t got = hasCl ? hdr.getInt64(Http::HdrType::CONTENT_LENGTH) : -1;
    size_t clEntries = 0;
    if (!rejected) {
        HttpHeaderPos pos = HttpHeaderInitPos;
        while (const HttpHeaderEntry *e = hdr.getEntry(&pos)) if (e->id == Http::HdrType::CONTENT_LENGTH) ++clEntries;
    }
    if (rejected) ++nRejected;
    if (flagged) ++nConflictFlag;

    const std::string seen = std::string(rejected ? "block rejected" : flagged ? "accepted with conflictingContentLength()" : hasCl ? "accepted, Content-Length=" + std::to_string(got) : "accepted without Content-Length");

    // (1) whatever else happens: a length that is taken must be the decimal every value spells
    if (taken) {
        ++nTaken;
        const bool matches = got >= 0 && ref.haveValue && ref.clean() && (u128)got == ref.value;
        if (!matches) {
            V::fail(cfg + ": " + seen + " but the field values do not all spell that decimal (valid values: " + (ref.haveValue ? show(ref.value) : "none") +
                    ", invalid values: " + std::to_string(ref.invalid) + ", all equal: " + (ref.allEqual ? "yes" : "no") + ")");
            return "violation";
        }
        if (ref.items > 1 && !relaxed) {
            V::fail(cfg + ": " + seen + " although the value is duplicated/list-like and relaxed parsing is off");
            return "violation";
        }
    }

    const bool overridden = withTe || msg == M_REPLY_204 || msg == M_REPLY_100;
    if (overridden) {
        // Transfer-Encoding (RFC 9112 6.3 #3) and 1xx/204 (6.3 #1) take the framing decision away from
        // Content-Length: it must not be used at all; whether the block is rejected is not this property's business
        if (taken) { V::fail(cfg + ": " + seen + " although " + (withTe ? "Transfer-Encoding is present" : "the status code forbids Content-Length")); return "violation"; }
        ++nIgnored;
        return rejected ? "overridden:rejected" : "overridden:ignored";
    }

    // (2) exactly one valid value: the length is taken, in both modes
    if (ref.single()) {
        if (!taken) { V::fail(cfg + ": " + seen + " although the only Content-Length value is the valid decimal " + show(ref.value)); return "violation"; }
        return "single:taken";
    }
    // (3) several values, all valid and equal (repeated fields and/or list elements)
    if (ref.clean() && ref.emptyItems == 0) {
        if (relaxed) {
            if (!taken) { V::fail(cfg + ": " + seen + " although all Content-Length values are the same valid decimal " + show(ref.value) + " and relaxed parsing is on"); return "violation"; }
            ++nDupAccepted;
            if (clEntries == 1) ++nSanitised;
            return "duplicates:taken";
        }
        if (!rejected && !flagged) { V::fail(cfg + ": " + seen + ": duplicate values must be bad framing when relaxed parsing is off"); return "violation"; }
        ++nDupRefused;
        ++nBadFraming;
        return "duplicates:bad-framing";
    }
    // (3') the same with empty list elements ("5,,5", "5,"): the statement does not say whether an empty element is a value
    if (ref.clean()) {
        if (!taken && !rejected && !flagged) { V::fail(cfg + ": " + seen + ": Content-Length present but neither used nor treated as bad framing"); return "violation"; }
        if (!taken) ++nBadFraming;
        return taken ? "empty-elements:taken" : "empty-elements:bad-framing";
    }
    // (3") nothing but empty list elements ("Content-Length: ,"): a Content-Length field is present and spells no length at all
    if (ref.items == 0) {
        if (!rejected && !flagged) {
            if (++nCommaOnlyIgnored <= 3)
                V::failKey("content-length-with-only-empty-list-elements:ignored-instead-of-bad-framing",
                           cfg + ": " + seen + " although the Content-Length field value consists of commas/whitespace only: it spells no valid decimal, so the message must be treated as having bad framing");
            return "comma-only:ignored";
        }
        ++nBadFraming;
        return "comma-only:bad-framing";
    }
    // (4) an invalid value or differing values: bad framing
    if (!rejected && !flagged) { V::fail(cfg + ": " + seen + " although " + (ref.invalid ? "a Content-Length value is not a valid non-negative decimal" : "the Content-Length values differ") + ": must be treated as bad framing"); return "violation"; }
    ++nBadFraming;
    return ref.invalid ? "invalid:bad-framing" : "conflict:bad-framing";
}

void runCase(const std::string &desc, const std::vector<std::string> &fieldValues)
{
    if (!V::begin_case(desc)) return;
    std::string klass;
    const uint64_t before = V::S().nfail;
    for (int layout = 0; layout < 3 && V::S().nfail == before; ++layout)
        for (int msg = 0; msg < M_END && V::S().nfail == before; ++msg)
            for (int relaxed = 0; relaxed < 2 && V::S().nfail == before; ++relaxed)
                for (int te = 0; te < 2 && V::S().nfail == before; ++te) {
                    if (te && layout == 2) continue;
                    const std::string k = checkOne(fieldValues, layout, msg, relaxed, te);
                    if (layout == 0 && msg == M_REQUEST && !te) klass += (relaxed ? "/relaxed-" : "strict-") + k;
                }
    Config.onoff.relaxed_header_parser = 0;
    bool hasDigit = false;
    for (const auto &fv : fieldValues) for (uc c : fv) if (c >= '0' && c <= '9') hasDigit = true;
    V::outcome((hasDigit ? "num:" : "nonnum:") + (klass.empty() ? "violation" : klass));
    V::end_case();
}

const std::vector<std::string> ItemsQuick = {
    "0", "1", "5", "05", "", " ", "\t", "+5", "-5", "5a", "a", "9223372036854775807", "9223372036854775808", "18446744073709551621"
};
const std::vector<std::string> ItemsMore = {"00000000000000000000005", "5 5", "0x5", "5;q", "5.0", "-0", "5\t", "６"};
const char *const Seps[] = {",", ", ", " ,"};

// all field values made of 1..maxItems items (lists use one separator style throughout)
std::vector<std::string> fieldValuesUpTo(const std::vector<std::string> &items, int maxItems)
{
    std::vector<std::string> out;
    for (const auto &a : items) out.push_back(a);
    if (maxItems >= 2)
        for (const char *sep : Seps)
            for (const auto &a : items)
                for (const auto &b : items) out.push_back(a + sep + b);
    if (maxItems >= 3)
        for (const char *sep : Seps)
            for (const auto &a : items)
                for (const auto &b : items)
                    for (const auto &c : items) out.push_back(a + sep + b + sep + c);
    return out;
}

void body(V::Ctx &ctx)
{
    Mem::Init();
    httpHeaderInitModule();
    std::vector<std::string> items = ItemsQuick;
    if (!ctx.quick()) items.insert(items.end(), ItemsMore.begin(), ItemsMore.end());

    const std::vector<std::string> one = fieldValuesUpTo(items, 1), two = fieldValuesUpTo(items, 2), three = fieldValuesUpTo(items, 3);
    // one field: a single value or a list of up to 3
    for (const auto &a : three) runCase("1:" + V::esc(a), {a});
    // three fields of single values
    for (const auto &a : one)
        for (const auto &b : one)
            for (const auto &c : one) runCase("3:" + V::esc(a) + "|" + V::esc(b) + "|" + V::esc(c), {a, b, c});
    // two fields, each a single value or a list of 2
    for (const auto &a : two)
        for (const auto &b : two) runCase("2:" + V::esc(a) + "|" + V::esc(b), {a, b});
    // thorough: a ","-separated list of 3 (base grid) followed by a field of up to 2
    if (!ctx.quick()) {
        const std::vector<std::string> twoBase = fieldValuesUpTo(ItemsQuick, 2);
        for (const auto &a : ItemsQuick)
            for (const auto &b : ItemsQuick)
                for (const auto &c : ItemsQuick) {
                    const std::string list = a + "," + b + "," + c;
                    for (const auto &d : twoBase) runCase("2:" + V::esc(list) + "|" + V::esc(d), {list, d});
                }
    }

    V::count("parse_calls", nParse);
    V::count("length_taken", nTaken);
    V::count("bad_framing", nBadFraming);
    V::count("rejected", nRejected);
    V::count("conflict_flag", nConflictFlag);
    V::count("overridden_by_te_or_status", nIgnored);
    V::count("duplicates_accepted_relaxed", nDupAccepted);
    V::count("duplicates_refused_strict", nDupRefused);
    V::count("sanitised_to_one_entry", nSanitised);
    V::count("comma_only_ignored", nCommaOnlyIgnored);
}

} // namespace

VHARNESS_MAIN(body)
