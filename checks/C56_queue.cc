// C56 — Ipc::OneToOneUniQueue + Ipc::QueueReader under all interleavings (E2).
// Compiled with -include vatomic_pre.h together with the unmodified src/ipc/Queue.cc of the current
// tree; push()/pop() are templates of src/ipc/Queue.h and are instantiated here, with every
// std::atomic operation in them being a scheduling point.
//
// Producer (p0): pushes items 1..k; when push() returns true it owes the consumer one notification,
//   which it posts to the harness mailbox one scheduling step later (the UDS message of
//   IpcIoFile::Notify / CollapsedForwarding::Notify).  Queue::Full is caught and the push retried once
//   the queue has room ("come back later").
// Consumer (p1): the calling protocol of CollapsedForwarding/IpcIoFile: at start clearSignal() and pop
//   until pop() returns false; then idle until a notification is in the mailbox; take it, clearSignal(),
//   pop until false; ...
// Oracle (observational): items come out as 1,2,3,... with intact contents; and at no scheduling point
//   is the consumer idle with an empty mailbox while items it has not received have been completely
//   pushed (push returned and the owed notification, if any, was posted) -- the lost wake-up state.
#include "squid.h"
#include "ipc/Queue.h"

#include "vharness.h"
#include "vsched/vsched.h"

#include <new>
#include <sstream>

namespace {

struct Item { uint32_t seq; uint32_t check; };
inline uint32_t checkOf(uint32_t seq) { return seq * 2654435761u + 12345u; }

const int MaxCap = 4;
alignas(64) char queueBuf[sizeof(Ipc::OneToOneUniQueue) + MaxCap * sizeof(Item) + 64];
alignas(64) char readerBuf[sizeof(Ipc::QueueReader)];
Ipc::OneToOneUniQueue *Q = nullptr;
Ipc::QueueReader *R = nullptr;

// scenario parameters
int Cap = 2, K = 1;
bool ConsumerStartsIdle = false;   // consumer skips its at-start sweep being already idle+blocked (a previous round ended)

// harness-side observation state (all of it is part of the hashed state)
struct Obs {
    int pushStarted;     // highest item whose push() call has begun
    int pushDone;        // highest item whose push() returned and whose owed notification was posted
    int notifyOwed;      // push() returned true and the notification is not in the mailbox yet
    int inPush;          // producer is inside push()
    int mailbox;         // notifications sent and not yet taken by the consumer
    int received;        // items received so far (they must be 1..received)
    int idle;            // consumer waits for a notification
    int producerDone;
    int consumerDone;
} obs;

// vacuity / coverage counters (not part of the state)
uint64_t nNotify = 0, nNoNotify = 0, nFull = 0, nPopFalse = 0, nPopTrue = 0, nIdle = 0, nRaceWindow = 0, nOverlap = 0, nWrap = 0;

void producer()
{
    for (int i = 1; i <= K; ++i) {
        for (;;) {
            Item it{(uint32_t)i, checkOf(i)};
            bool full = false, notify = false;
            obs.pushStarted = i;
            obs.inPush = 1;
            VS::note("push(" + std::to_string(i) + ") call");
            try {
                notify = Q->push(it, R);
            } catch (const Ipc::OneToOneUniQueue::Full &) {
                full = true;          // no scheduling point inside the handler
            }
            if (!full) {
                obs.notifyOwed = notify ? 1 : 0;
                obs.inPush = 0;
                VS::local(notify ? 11 : 12);
                VS::note(std::string("push returned ") + (notify ? "true (must notify)" : "false"));
                if (notify) {
                    ++nNotify;
                    VS::yieldPoint();        // the notification is a separate message: it arrives later
                    ++obs.mailbox;
                    obs.notifyOwed = 0;
                    VS::note("notification posted");
                } else
                    ++nNoNotify;
                obs.pushDone = i;
                if (i > Cap) ++nWrap;
                break;
            }
            ++nFull;
            obs.inPush = 0;
            obs.pushStarted = i - 1;
            VS::local(13);
            VS::note("push threw Full; will retry when there is room");
            VS::waitUntil([] { return (int)Q->theSize.v_ < Cap; });
        }
        VS::yieldPoint();   // between two pushes the producer does other work
    }
    obs.producerDone = 1;
}

void popAll()
{
    for (;;) {
        Item it{0, 0};
        const bool emptyAtCall = Q->theSize.v_ == 0;
        const bool overlapped = obs.inPush;
        const bool ok = Q->pop(it, R);
        VS::local(ok ? it.seq + 100 : 99);
        if (!ok) { ++nPopFalse; VS::note("pop returned false"); return; }
        ++nPopTrue;
        if (emptyAtCall) ++nRaceWindow;    // the queue was empty when pop() began: the item arrived during the call
        if (overlapped || obs.inPush) ++nOverlap;
        VS::note("pop -> item " + std::to_string(it.seq));
        std::ostringstream os;
        if (it.seq != (uint32_t)obs.received + 1)
            os << "consumer received item " << it.seq << " but expected item " << (obs.received + 1)
               << (it.seq <= (uint32_t)obs.received ? " (duplicate or reordered)" : " (loss, reordering or garbage)");
        else if (it.check != checkOf(it.seq))
            os << "consumer received item " << it.seq << " with corrupted contents";
        else if ((int)it.seq > obs.pushStarted)
            os << "consumer received item " << it.seq << " that has not been pushed yet";
        if (!os.str().empty()) { VS::violation(os.str()); return; }
        ++obs.received;
    }
}

void consumer()
{
    if (!ConsumerStartsIdle) {
        R->clearSignal();      // HandleNewDataAtStart()
        popAll();
    }
    for (;;) {
        obs.idle = 1;
        ++nIdle;
        VS::note("idle");
        VS::waitUntil([] { return obs.mailbox > 0 || obs.producerDone; });
        obs.idle = 0;
        if (obs.mailbox > 0) {
            --obs.mailbox;
            VS::local(21);
            VS::note("notification taken");
            R->clearSignal();  // HandleNotification()
            popAll();
            continue;
        }
        VS::local(22);
        break;                 // nothing more will ever be sent
    }
    obs.consumerDone = 1;
}

void invariant()
{
    // lost wake-up: the consumer sleeps, nothing will wake it, yet completely pushed items remain
    if (obs.idle && obs.mailbox == 0 && !obs.inPush && !obs.notifyOwed && obs.pushDone > obs.received) {
        std::ostringstream os;
        os << "lost wake-up: consumer is idle with no notification pending, producer is outside push(), but "
           << (obs.pushDone - obs.received) << " pushed item(s) were not received (pushed " << obs.pushDone
           << ", received " << obs.received << "; reader blocked=" << (int)R->popBlocked.v_ << " signal=" << (int)R->popSignal.v_ << ")";
        VS::violation(os.str());
    }
    if (obs.received > obs.pushStarted)
        VS::violation("consumer received more items than were pushed");
}

void finalCheck()
{
    std::ostringstream os;
    if (obs.received != K)
        os << "after both processes finished the consumer has received " << obs.received << " of " << K << " items";
    else if (Q->theSize.v_ != 0)
        os << "queue size is " << Q->theSize.v_ << " after all items were received";
    else {
        Item it{0, 0};
        if (Q->pop(it, R))
            os << "an extra item " << it.seq << " came out of the drained queue (duplicate)";
    }
    if (!os.str().empty())
        VS::violation(os.str());
}

void setupState()
{
    memset(queueBuf, 0xEE, sizeof(queueBuf));
    Q = new (queueBuf) Ipc::OneToOneUniQueue(sizeof(Item), Cap);
    R = new (readerBuf) Ipc::QueueReader();
    memset(&obs, 0, sizeof(obs));
    if (ConsumerStartsIdle) {
        // the state a previous complete round leaves behind: pop() found the queue empty twice
        R->block();
    }
}

void stateBytes(std::string &b)
{
    // queue: theIn, theOut, theSize, buffer; reader: the two flags.  Dropped: QueueReader::id (an
    // InstanceId debugging counter that grows with every setup), rateLimit/balance (never touched)
    b.append((const char *)&Q->theIn, sizeof(Q->theIn));
    b.append((const char *)&Q->theOut, sizeof(Q->theOut));
    b.append((const char *)&Q->theSize.v_, sizeof(Q->theSize.v_));
    b.append(Q->theBuffer, Cap * sizeof(Item));
    b.push_back((char)R->popBlocked.v_);
    b.push_back((char)R->popSignal.v_);
    b.append((const char *)&obs, sizeof(obs));
}

struct Plan { int cap, k; bool startsIdle; int bound; bool full; };

// seconds left of the tier's global deadline (the driver passes the total; V::S().start is the harness start)
double remainingS(const V::Ctx &ctx)
{
    if (ctx.deadlineS <= 0) return 0;                      // no deadline
    const double r = ctx.deadlineS - difftime(time(nullptr), V::S().start);
    return r < 2 ? -1 : r;
}

void body(V::Ctx &ctx)
{
    std::vector<Plan> plans;
    // bounded part: every capacity 1,2,4 and k = 1..capacity+1 items
    const int bound = ctx.quick() ? 2 : 3;
    for (int cap : {1, 2, 4})
        for (int k = 1; k <= cap + 1; ++k)
            for (int si = 0; si < 2; ++si)
                plans.push_back({cap, k, si == 1, bound, false});
    // complete part (no preemption bound, state-hash pruning): the small configurations
    // (quick: capacity 1,2 with k <= 2; thorough: also capacity 4, and k = 3 for the consumer that starts idle)
    for (int cap : {1, 2, 4})
        for (int k = 1; k <= 3; ++k)
            for (int si = 0; si < 2; ++si) {
                if (ctx.quick() && (cap == 4 || k > 2)) continue;
                if (k == 3 && (si == 0 || cap == 1)) continue;
                plans.push_back({cap, k, si == 1, 1000, true});
            }

    for (const auto &plan : plans) {
        std::string name = "queue cap=" + std::to_string(plan.cap) + " k=" + std::to_string(plan.k) +
                           (plan.startsIdle ? " consumer=idle-blocked" : " consumer=at-start") +
                           (plan.full ? " all-interleavings" : " bound=" + std::to_string(plan.bound));
        std::string replaySched;
        if (ctx.replay) {
            const auto bar = ctx.replayCase.find('|');
            if (ctx.replayCase.substr(0, bar) != name) { V::begin_case(name); continue; }
            replaySched = bar == std::string::npos ? "" : ctx.replayCase.substr(bar + 1);
            ctx.replayCase = name;
        }
        if (!V::begin_case(name)) continue;

        Cap = plan.cap; K = plan.k; ConsumerStartsIdle = plan.startsIdle;
        VS::Scenario sc;
        sc.name = name;
        sc.maxDeviations = plan.bound;
        sc.startBound = plan.full ? plan.bound : 0;
        sc.prune = plan.full;
        sc.spuriousCas = false;        // the queue code has no compare_exchange_weak
        sc.pointAfterAtomics = true;   // theIn/theOut/theBuffer are plain shared memory: the memcpy next to an atomic is its own step
        sc.setup = setupState;
        sc.procs.push_back(producer);
        sc.procs.push_back(consumer);
        sc.invariant = invariant;
        sc.final = finalCheck;
        sc.stateBytes = stateBytes;

        VS::Stats st;
        if (ctx.replay) {
            const bool bad = VS::replay(sc, VS::parseSchedule(replaySched), st);
            printf("%s", st.trace.c_str());
            if (bad) V::fail(st.violation);
            V::end_case();
            continue;
        }
        const double left = remainingS(ctx);
        if (left < 0) { V::S().sh->deadlineHit = 1; V::count("scenarios_skipped_at_deadline"); V::end_case(); continue; }
        VS::explore(sc, st, left);
        V::count("executions", st.executions);
        V::count("steps", st.steps);
        V::count("states", st.states);
        V::count("pruned", st.pruned);
        V::count("context_switches", st.contextSwitches);
        V::count("notifications", nNotify); nNotify = 0;
        V::count("pushes_without_notification", nNoNotify); nNoNotify = 0;
        V::count("full_thrown", nFull); nFull = 0;
        V::count("pop_false", nPopFalse); nPopFalse = 0;
        V::count("pop_true", nPopTrue); nPopTrue = 0;
        V::count("idle_periods", nIdle); nIdle = 0;
        V::count("pop_race_window_hits", nRaceWindow); nRaceWindow = 0;
        V::count("pop_overlapping_push", nOverlap); nOverlap = 0;
        V::count("wrapped_pushes", nWrap); nWrap = 0;
        if (st.capHit) V::count("cap_hit");
        if (st.boundCompleted >= plan.bound) V::count(plan.full ? "scenarios_completed_unbounded" : "scenarios_completed_at_bound");
        V::outcome(st.violated ? "violated" : (plan.full ? "explored-all-interleavings" : "explored-to-bound"));
        {
            std::ostringstream os;
            os << name << ": executions=" << st.executions << " steps=" << st.steps << " states=" << st.states;
            V::sample(os.str());
        }
        if (st.violated)
            V::fail(st.violation + " | schedule=" + VS::fmtSchedule(st.schedule) + " | replay-case=" + name + "|" + VS::fmtSchedule(st.schedule));
        V::end_case();
    }
}

} // namespace

// coroutines are created and abandoned by the hundred thousand: ASan's per-fiber fake stacks
// (use-after-return detection) would be mmap()ed and unmapped for each of them
extern "C" const char *__asan_default_options() { return "detect_stack_use_after_return=0"; }

VHARNESS_MAIN(body)
