"""C41 Domain-name ACLs match exactly the configured domain sets — E1, every ordered list over a value pool."""
from vverif import seq, seqla
from vverif.core import Result, HarnessError

LEVEL = 'exploration'
RULE = ('every ordered list (repetitions allowed, so every insertion order and every duplicate pattern) of <= 3 values '
        '(thorough: <= 4) from a pool of 12 (thorough: 18) dstdomain values built around a.b (exact names, leading-dot '
        'sets, nested sets, mixed case, "-"/"_" neighbours of the dot in the sort order) is parsed by the real '
        'ACLDomainData::parse() and probed with every host of 1..3 (thorough: selected 4-label hosts too) labels over 10 '
        'labels plus hand-picked hosts (mixed case, trailing dot, empty label), forwards and backwards on the same '
        'self-adjusting tree and on freshly parsed trees; oracle = union of per-value matchers from the property '
        'statement; non-trivial = lists of >= 2 values for which some probes match and others do not')
ASSUME = ['hosts are probed without a leading dot (matchDomainName() strips leading dots of the host; not a valid host name)',
          'warnings about redundant values are not inspected; only the match result is']


def _build(ctx):
    return seqla.build(ctx, 'tests/testCacheManager', ['C41_domain.cc'])


def run(ctx):
    exe = _build(ctx)
    m = seq.run(ctx, exe)
    cov = seq.coverage_from(m, RULE, nontrivial_classes=['multi:overlapping', 'multi:disjoint'], min_classes=3)
    c = m['counters']
    if not m['failures'] and not m['crashes']:
        for k, least in (('hits', 1000), ('misses', 1000), ('subdomain_hits', 100), ('mixed_case_hits', 1),
                         ('lists_with_dropped_redundant_value', 10)):
            if c.get(k, 0) < least:
                raise HarnessError('vacuity guard: %s = %d < %d' % (k, c.get(k, 0), least))
        for k in ('multi:overlapping', 'multi:disjoint'):
            if m['outcomes'].get(k, 0) < 50:
                raise HarnessError('vacuity guard: only %d lists of class %s' % (m['outcomes'].get(k, 0), k))
    return Result(LEVEL, cov, seq.violations_from(m), ASSUME)


def replay(ctx, data):
    exe = _build(ctx)
    m = seq.replay_case(ctx, exe, data['case'])
    m.setdefault('deadline_hit', False)
    return Result(LEVEL, {}, seq.violations_from(m), ASSUME)
