// C30 — URI parsing is canonical and validates authority (E1).
// Real code: AnyP::Uri::parse / parseHost / parsePort / absolute / authority (src/anyp/Uri.cc,
// recompiled from the current tree with ASan+UBSan) with the real UriScheme, Ip::Address, Tokenizer.
// Oracle: a reference splitter that finds the *written* authority, host and port text of the input
// (RFC 3986 section 3.2) and asserts only what the property statement says.
#include "squid.h"
#include "anyp/Uri.h"
#include "anyp/UriScheme.h"
#include "http/RequestMethod.h"
#include "mem/forward.h"
#include "sbuf/SBuf.h"
#include "SquidConfig.h"

#include "vharness.h"

#include <climits>

namespace {

struct Written {
    bool hasScheme = false;        // "<scheme>://" present
    std::string scheme;            // lower-cased
    std::string authority;
    enum PortKind { NoPort, EmptyPort, Decimal, NonNumeric, Unclear } kind = NoPort;
    std::string portText;
    unsigned __int128 portValue = 0;
};

// default ports the statement can mean ("the scheme default"): IANA registrations
int schemeDefault(const std::string &s)
{
    if (s == "http") return 80;
    if (s == "https") return 443;
    if (s == "ftp") return 21;
    if (s == "whois") return 43;
    return 0;   // none
}

void portOf(const std::string &a, Written &w)
{
    std::string rest;
    if (!a.empty() && a[0] == '[') {
        const size_t j = a.find(']');
        if (j == std::string::npos) { w.kind = Written::Unclear; return; }
        rest = a.substr(j + 1);
        if (rest.empty()) { w.kind = Written::NoPort; return; }
        if (rest[0] != ':') { w.kind = Written::Unclear; return; }
        rest = rest.substr(1);
    } else {
        const size_t first = a.find(':'), last = a.rfind(':');
        if (first == std::string::npos) { w.kind = Written::NoPort; return; }
        if (first != last) { w.kind = Written::Unclear; return; }   // unbracketed IPv6-looking text
        rest = a.substr(first + 1);
    }
    w.portText = rest;
    if (rest.empty()) { w.kind = Written::EmptyPort; return; }
    unsigned __int128 v = 0;
    for (unsigned char c : rest) {
        if (c < '0' || c > '9') { w.kind = Written::NonNumeric; return; }
        v = v * 10 + (c - '0');
        if (v > ((unsigned __int128)1 << 100)) v = (unsigned __int128)1 << 100;
    }
    w.kind = Written::Decimal;
    w.portValue = v;
}

Written refSplit(bool connect, const std::string &u)
{
    Written w;
    std::string a;
    if (connect) a = u;
    else {
        const size_t c = u.find("://");
        if (c == std::string::npos) return w;
        for (size_t i = 0; i < c; ++i) w.scheme += (char)tolower((unsigned char)u[i]);
        w.hasScheme = true;
        size_t e = c + 3;
        while (e < u.size() && !strchr("/?#", u[e]) && !isspace((unsigned char)u[e])) ++e;
        a = u.substr(c + 3, e - (c + 3));
        const size_t at = a.rfind('@');
        if (at != std::string::npos) a = a.substr(at + 1);
    }
    w.authority = a;
    portOf(a, w);
    return w;
}

std::string str(const SBuf &b) { return std::string(b.rawContent(), b.length()); }

std::string normalisePath(const std::string &p)
{
    std::string o;
    for (unsigned char c : p) {
        if (isalnum(c) || (c && strchr("-._~:/?#[]@!$&'()*+,;=%", c))) o += (char)c;
        else { char b[8]; snprintf(b, sizeof b, "%%%02X", c); o += b; }
    }
    return o;
}

std::set<std::string> keysEmitted;
void failOnce(const std::string &key, const std::string &msg)
{
    if (keysEmitted.insert(key).second) V::failKey(key, msg);
    V::count("failures_with_key:" + key);
}

uint64_t nParse = 0, nAccepted = 0, nRejected = 0, nReparsed = 0, nBadPortRejected = 0, nPortEqual = 0, nDefaultPort = 0, nHostLowered = 0;

const char *methodName(Http::MethodType m)
{
    switch (m) {
    case Http::METHOD_GET: return "GET";
    case Http::METHOD_POST: return "POST";
    case Http::METHOD_OPTIONS: return "OPTIONS";
    case Http::METHOD_TRACE: return "TRACE";
    case Http::METHOD_CONNECT: return "CONNECT";
    default: return "?";
    }
}

// returns: 0 rejected, 1 accepted
int checkOne(Http::MethodType mt, const std::string &u)
{
    ++nParse;
    const bool connect = mt == Http::METHOD_CONNECT;
    const HttpRequestMethod method(mt);
    const Written w = refSplit(connect, u);
    AnyP::Uri uri;
    char *exact = (char *)malloc(u.size() ? u.size() : 1);    // exact-size input block
    memcpy(exact, u.data(), u.size());
    SBuf raw;
    raw.append(exact, u.size());
    free(exact);
    const bool ok = uri.parse(method, raw);
    const std::string what = std::string(methodName(mt)) + " \"" + V::esc(u) + "\"";
    const bool badPort = w.kind == Written::NonNumeric || (w.kind == Written::Decimal && (w.portValue < 1 || w.portValue > 65535));
    if (!ok) {
        ++nRejected;
        if (badPort) ++nBadPortRejected;
        return 0;
    }
    ++nAccepted;
    if (!connect && !w.hasScheme) return 1;     // "*" and other non-absolute forms: outside the statement
    const std::string host = uri.host();
    const int port = uri.port().has_value() ? (int)*uri.port() : -1;
    const std::string ctx = what + " accepted as scheme=" + str(uri.getScheme().image()) + " host=\"" + V::esc(host) + "\" port=" + std::to_string(port) +
                            " path=\"" + V::esc(str(uri.path())) + "\": ";
    // --- port
    if (w.kind == Written::NonNumeric) { failOnce("port:non-numeric-accepted", ctx + "the written port \"" + V::esc(w.portText) + "\" is not a decimal number"); return 1; }
    if (badPort) {
        const char *sub = w.portValue == 0 ? "zero" : w.portValue <= (unsigned __int128)INT_MAX ? "above-65535" : "wraps-int";
        failOnce(std::string("port:out-of-range-accepted:") + sub, ctx + "the written port " + w.portText + " is outside 1..65535");
        return 1;
    }
    if (port < 1 || port > 65535) { V::fail(ctx + "port outside 1..65535"); return 1; }
    if (w.kind == Written::Decimal) {
        ++nPortEqual;
        if ((unsigned __int128)port != w.portValue) V::fail(ctx + "port differs from the written decimal port " + w.portText);
    } else if (w.kind == Written::NoPort || w.kind == Written::EmptyPort) {
        ++nDefaultPort;
        const int d = connect ? 0 : schemeDefault(w.scheme);
        if (!d) V::fail(ctx + "no port is written and the scheme has no default port");
        else if (port != d) V::fail(ctx + "no port is written but the port is not the scheme default " + std::to_string(d));
    }
    // --- host
    if (host.empty()) { failOnce("host:empty-accepted", ctx + "empty host (an authority that consists of a port only)"); return 1; }
    bool lowered = false;
    for (unsigned char c : host) if (c >= 'A' && c <= 'Z') { V::fail(ctx + "host is not lower-case"); break; }
    for (unsigned char c : w.authority) if (c >= 'A' && c <= 'Z') lowered = true;
    if (lowered) ++nHostLowered;
    if (!host.empty() && host[0] != '[') {
        if (host[0] == '.' || host.find("..") != std::string::npos || host.back() == '.') V::fail(ctx + "host has an empty label");
    }
    // --- canonical form parses back to the same thing
    ++nReparsed;
    const std::string canon = connect ? str(uri.authority(true)) : str(uri.absolute());
    AnyP::Uri again;
    SBuf craw;
    craw.append(canon.data(), canon.size());
    if (!again.parse(method, craw)) { V::fail(ctx + "its canonical form \"" + V::esc(canon) + "\" is rejected"); return 1; }
    const int port2 = again.port().has_value() ? (int)*again.port() : -1;
    // "the same path": equal up to percent-encoding of bytes that are not URI characters at all (RFC 3986
    // 2.1/2.2: encoding those is plain normalisation); reserved characters must survive as they are
    const std::string p1 = normalisePath(str(uri.path())), p2 = normalisePath(str(again.path()));
    std::string delimEncoded;      // p1 as it would look with its "?" and "#" delimiters percent-encoded
    for (char c : p1) { if (c == '?') delimEncoded += "%3F"; else if (c == '#') delimEncoded += "%23"; else delimEncoded += c; }
    const bool restSame = str(again.getScheme().image()) == str(uri.getScheme().image()) && std::string(again.host()) == host && port2 == port;
    if (restSame && p1 != p2 && p2 == delimEncoded)
        failOnce("canonical:query-delimiter-percent-encoded", ctx + "its canonical form \"" + V::esc(canon) + "\" has the \"?\" (or \"#\") delimiter percent-encoded, "
                 "so it parses back with the different path \"" + V::esc(str(again.path())) + "\"");
    else if (!restSame || p1 != p2)
        V::fail(ctx + "its canonical form \"" + V::esc(canon) + "\" parses as scheme=" + str(again.getScheme().image()) + " host=\"" + V::esc(again.host()) +
                "\" port=" + std::to_string(port2) + " path=\"" + V::esc(str(again.path())) + "\"");
    return 1;
}

void body(V::Ctx &ctx)
{
    Mem::Init();
    AnyP::UriScheme::Init();
    Config.onoff.allow_underscore = 1;      // squid.conf defaults
    Config.onoff.check_hostnames = 0;
    Config.uri_whitespace = URI_WHITESPACE_STRIP;

    const bool q = ctx.quick();
    std::vector<std::string> schemes = {"http://", "HTTP://", "https://", "ftp://", "x://", ""};
    std::vector<std::string> users = {"", "u@", "u:p@"};
    std::vector<std::string> hosts = {"a", "A.b", "a..b", ".a", "a.", "1.2.3.4", "[::1]", "[::1", "", "a_b", "%41", "[::FFFF:1.2.3.4]"};
    std::vector<std::string> ports = {"", ":", ":0", ":1", ":80", ":65535", ":65536", ":-1", ":+80", ":080", ":8x", ":99999999999", ":4294967376", ":443"};
    std::vector<std::string> paths = {"", "/", "/p?q", "/%41", "/a b", "?q"};
    std::vector<Http::MethodType> methods = {Http::METHOD_GET, Http::METHOD_CONNECT};
    if (!q) {
        for (const char *s : {"://", "http:/", "Ftp://", "whois://"}) schemes.push_back(s);
        for (const char *s : {"a%40b@", "@"}) users.push_back(s);
        for (const char *s : {"A", "xn--A.B.", "a..", "::1", "[1.2.3.4]", "[::1]x", "a.B.c.D", "-", "a b"}) hosts.push_back(s);
        for (const char *s : {":21", ":x", ":00080", ":65535x", ":4294967297", ":18446744073709551617", ":18446744073709551696", ":0x50", ":8 0", ":٨٠"}) ports.push_back(s);
        for (const char *s : {"#f", "/a#f", "//", "/p?q=1&r=%20", "/\t", "/%", "/<>"}) paths.push_back(s);
        for (Http::MethodType m : {Http::METHOD_POST, Http::METHOD_OPTIONS, Http::METHOD_TRACE}) methods.push_back(m);
    }
    for (const std::string &sc : schemes)
        for (const std::string &us : users)
            for (const std::string &ho : hosts)
                for (const std::string &po : ports) {
                    const std::string auth = sc + us + ho + po;
                    if (!V::begin_case("u:" + V::esc(auth))) continue;
                    unsigned acc = 0, rej = 0;
                    for (int chk = 0; chk < (q ? 1 : 2); ++chk) {
                        Config.onoff.check_hostnames = chk;
                        for (const std::string &pa : paths)
                            for (Http::MethodType m : methods) {
                                if (m == Http::METHOD_CONNECT && (!pa.empty() && pa != "/")) continue;   // keep CONNECT targets authority-like
                                if (checkOne(m, auth + pa)) ++acc; else ++rej;
                            }
                    }
                    Config.onoff.check_hostnames = 0;
                    V::outcome(acc && rej ? "some-forms-accepted" : acc ? "all-forms-accepted" : "all-forms-rejected");
                    V::end_case();
                }
    // the asterisk form and a few odd ones
    for (const char *s : {"*", "", "http:", "http://", "http:///", "urn:a", "urn:ab:c", "/", "a", ":80", "a:", "[::1]:", "[]:80", "[:80"})
        for (Http::MethodType m : {Http::METHOD_GET, Http::METHOD_OPTIONS, Http::METHOD_TRACE, Http::METHOD_CONNECT}) {
            if (!V::begin_case(std::string("o:") + methodName(m) + " " + s)) continue;
            V::outcome(checkOne(m, s) ? "all-forms-accepted" : "all-forms-rejected");
            V::end_case();
        }
    V::count("parse_calls", nParse);
    V::count("accepted", nAccepted);
    V::count("rejected", nRejected);
    V::count("canonical_reparsed", nReparsed);
    V::count("bad_port_rejected", nBadPortRejected);
    V::count("written_port_compared", nPortEqual);
    V::count("default_port_compared", nDefaultPort);
    V::count("host_lowered", nHostLowered);
}

} // namespace

VHARNESS_MAIN(body)
