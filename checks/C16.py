"""C16 Disk cache crash consistency - E3, exhaustive crash-point enumeration (fault_enumeration).

A scripted workload (stores of objects spanning 1..6 rock slots / 1..10 ufs writes on a cache that already
holds two entries from an earlier, cleanly stopped life; an overwrite; a PURGE; fill-up until replacement
evicts; a re-store) is first run once under the shim in counting mode: it performs W cache-file mutations
(write/unlink/rename on files below the cache_dir), start-up of the instance included.  Then for every
n in 1..W and every crash mode (before / after / partial:<cut>) a fresh copy of the same directory is
served by a new instance whose n-th mutation is performed not at all / fully / up to <cut> bytes, at which
point the shim SIGKILLs the process (process-kill model: what was written stays in the page cache).  A
normal instance is then started on the directory; once it listens and has finished rebuilding, every URL
of the workload is requested.  Oracle: the restart succeeds (no exit, FATAL, assertion, sanitizer report)
and every response served without contacting the origin (a hit) is byte-identical to a version the origin
had completely served for that URL before the crash, with the header that names that version.
"""
import os
import shutil
import time

from vverif import cachesim as cs
from vverif import lockstep as ls
from vverif.core import Result, Violation, HarnessError

LEVEL = 'fault_enumeration'

S = cs.ROCK_SLOT - cs.ROCK_HDR     # payload bytes per rock slot

# pre: entries stored by life 0 (clean shutdown) -> the directory every execution starts from
WORKLOADS = {
    # rock: 31 slots of 32 KB; life 0 leaves 16 of them occupied, so the fill-up needs few writes
    'rock': {
        'pre': [(8, 1, 7 * S + 100), (9, 1, 5000), (10, 1, 6 * S + 100)],
        'ops': [('store', 1, 1, 2 * S + 5000), ('store', 2, 1, 9000), ('store', 3, 1, S + 7000),
                ('reload', 1, 2, 2 * S + 5000), ('purge', 2),
                ('store', 4, 1, 5 * S + 100), ('store', 5, 1, 5 * S + 100), ('store', 2, 2, 9000)],
    },
    # ufs: 1 MB with cache_swap_high 11%: replacement starts above ~112 KB; life 0 leaves 72 KB
    'ufs': {
        'pre': [(8, 1, 40000), (9, 1, 2000), (10, 1, 30000)],
        'ops': [('store', 1, 1, 10000), ('store', 2, 1, 3000), ('store', 3, 1, 6000),
                ('reload', 1, 2, 10000), ('purge', 2),
                ('store', 4, 1, 30000), ('store', 2, 2, 3000), ('adv', 2000)],
    },
}
# quick: 'before n' leaves the same files as 'after n-1' (the process is killed between the two mutations), so
# only 'before 1' (= nothing written at all) is run explicitly; the thorough tier runs every 'before n' and
# cross-checks that equivalence on the observed post-restart transcripts
QUICK_MODES = {'rock': ['before1', 'partial:half', 'after']}
THOROUGH_MODES = {
    # 39/40: just short of / exactly the slot header; 4096: a page boundary (where the kernel can cut a write
    # on a fatal signal); 1, half, len-1
    'rock': ['before', 'after', 'partial:half', 'partial:1', 'partial:39', 'partial:40', 'partial:4096', 'partial:last'],
    'ufs': ['before', 'after', 'partial:half', 'partial:1', 'partial:last'],
}


def all_urls(store):
    wl = WORKLOADS[store]
    u = [p[0] for p in wl['pre']]
    for op in wl['ops']:
        if op[0] in ('store', 'reload') and op[1] not in u:
            u.append(op[1])
    return sorted(u)


def op_str(op):
    if op[0] in ('store', 'reload'):
        return '%s(%s,%dB)' % (op[0], cs.tag_of(op[1], op[2]), op[3])
    if op[0] == 'purge':
        return 'purge(u%d)' % op[1]
    return 'advance(%dms)' % op[1]


def make_template(ctx, store, prep=-1):
    """Life 0: `squid -z`, store the pre-existing entries, clean shutdown.  Returns the directory to copy."""
    cw = cs.CacheWorld(ctx, 'life0-' + store, prep, store)
    try:
        r = cw.first_life(count=False, init=True)
        if r:
            raise HarnessError('template instance did not start: ' + r)
        for uidx, ver, size in WORKLOADS[store]['pre']:
            if cw.store(uidx, ver, size) is None:
                raise HarnessError('template instance died: %s' % cw.sq.health_problems())
        cw.sq.advance(1000)
        rc = cw.shutdown()
        if rc != 0:
            raise HarnessError('template instance: clean shutdown returned %r: %s' % (rc, cw.sq.cache_log()[-800:]))
        cw.end_life()
        served = cw.served
        path = cw.save_cache_as(os.path.join(ctx.rundir, 'tmpl-' + store))
    finally:
        cw.close()
    return path, served


def run_workload(cw, store, op_marks=None):
    """Run the scripted operations until done or until squid dies.  Returns the index of the op during which
    squid died (None = survived).  op_marks (counting run): receives the mutation count after every op."""
    for i, op in enumerate(WORKLOADS[store]['ops']):
        if op[0] == 'store':
            r = cw.store(op[1], op[2], op[3])
        elif op[0] == 'reload':
            r = cw.store(op[1], op[2], op[3], reload=True)
        elif op[0] == 'purge':
            r = cw.purge(op[1])
            if r is not None and r != 200 and op_marks is not None:
                raise HarnessError('PURGE answered %s in the counting run' % r)
        else:
            for _ in range(op[1] // 1000):
                cw.sq.advance(1000)
            r = True
        if r is None or cw.crashed():
            return i
        # one (virtual) second passes between operations, so that entry timestamps (= rock slot versions) differ and
        # the periodic replacement event runs; the whole workload stays below the 15 s after which ufs starts its
        # directory-cleaning event, whose unlinks would race with the (free-running) unlinkd helper
        cw.quiesce()
        cw.sq.advance(1000)
        if cw.crashed():
            return i
        cw.quiesce()
        if op_marks is not None:
            op_marks.append(len(cs.read_mutlog(cw.mutlog)))
    return None


def counting_run(ctx, store, template, pre_served, prep=-1):
    """Learn the mutation sequence: list of dicts(n, op, len, path, wop (workload op index, -1 = start-up), cls)."""
    cw = cs.CacheWorld(ctx, 'count-' + store, prep, store, template)
    cw.served = {k: list(v) for k, v in pre_served.items()}
    try:
        r = cw.first_life()
        if r:
            raise HarnessError('counting instance did not start: ' + r)
        startup = len(cs.read_mutlog(cw.mutlog))
        marks = []
        died = run_workload(cw, store, marks)
        if died is not None:
            raise HarnessError('counting instance died during op %d: %s' % (died, cw.sq.health_problems()))
        # let timers (swap-state flushes, replacement) fire, so that later mutations are not attributed to nothing
        lines = cs.read_mutlog(cw.mutlog, cw.sq.cache_path)
        # vacuity: at the end of the complete workload the pre-existing and the re-stored entries are hits
        final = {}
        for u in all_urls(store):
            p = cw.probe(u)
            final[u] = p.kind + (':' + cs.tag_of(u, p.ver) if p.ver else '')
            if p.problem:
                raise HarnessError('counting run: u%d: %s' % (u, p.problem))
        hp = cw.sq.health_problems()
        if hp:
            raise HarnessError('counting instance unhealthy: %s' % hp)
        served = cw.served
    finally:
        cw.close()
    muts = []
    for l in lines:
        f = l.split(' ', 4)
        muts.append({'n': int(f[0]), 'op': f[1], 'len': int(f[2]), 'path': f[4], 'line': l})
    if [m['n'] for m in muts] != list(range(1, len(muts) + 1)):
        raise HarnessError('mutation log is not numbered 1..W')
    bounds = [startup] + marks
    for m in muts:
        m['wop'] = -1
        for i in range(len(marks)):
            if bounds[i] < m['n'] <= bounds[i + 1]:
                m['wop'] = i
    classify(store, muts)
    return muts, final, served


def classify(store, muts):
    """Name the kind of each mutation (used in violation keys and outcome classes)."""
    groups = {}
    for m in muts:
        groups.setdefault((m['wop'], m['path']), []).append(m)
    for (wop, path), g in groups.items():
        base = os.path.basename(path)
        # an overwrite stores a new version of a URL whose previous version is still in the cache
        ow = 'overwrite-' if wop >= 0 and WORKLOADS[store]['ops'][wop][0] == 'reload' else ''
        for i, m in enumerate(g):
            if store == 'rock':
                if m['op'] != 'write':
                    m['cls'] = 'db-' + m['op']
                elif wop < 0:
                    m['cls'] = 'startup-write'
                elif len(g) == 1:
                    m['cls'] = ow + 'sole-slot-write'
                elif i == 0:
                    m['cls'] = ow + 'first-slot-write'
                elif i == len(g) - 1:
                    m['cls'] = ow + 'last-slot-write'
                else:
                    m['cls'] = ow + 'middle-slot-write'
            else:
                if base.startswith('swap.state'):
                    m['cls'] = 'swaplog-%s%s' % (m['op'], '-at-startup' if wop < 0 else '')
                elif m['op'] != 'write':
                    m['cls'] = ow + 'object-' + m['op']
                elif len(g) == 1:
                    m['cls'] = ow + 'object-sole-write'
                elif i == 0:
                    m['cls'] = ow + 'object-first-write'
                elif i == len(g) - 1:
                    m['cls'] = ow + 'object-last-write'
                else:
                    m['cls'] = ow + 'object-middle-write'


def effective_cut(mode, length):
    """Bytes of the n-th mutation that reach the file (mirrors the shim); None = mode not applicable."""
    if mode == 'before':
        return 0
    if mode == 'after':
        return length
    if length <= 1:
        return None
    a = mode.split(':', 1)[1]
    k = length // 2 if a == 'half' else length - 1 if a == 'last' else int(a)
    if k >= length:
        return None            # the cut lies beyond this write: same as another mode
    return max(k, 1)


def make_cases(store, muts, modes):
    cases = []
    for m in muts:
        seen = set()
        for mode in modes:
            if mode == 'before1':
                if m['n'] != 1:
                    continue
                mode = 'before'
            k = effective_cut(mode, m['len'])
            if k is None or k in seen:
                continue
            seen.add(k)
            cases.append({'store': store, 'n': m['n'], 'mode': mode, 'cut': k})
    return cases


def mode_class(mode):
    return 'partial' if mode.startswith('partial') else mode


def run_case(ctx, shard, case, info, dump=False):
    """One execution = one choice (store, n, mode).  Returns dict(transcript, outcome, violations[(key, what)], ...)."""
    store, n, mode = case['store'], case['n'], case['mode']
    muts = info['muts']
    m = muts[n - 1]
    cw = cs.CacheWorld(ctx, 's%d' % shard, shard, store, info['template'])
    cw.served = {k: list(v) for k, v in info['pre_served'].items()}
    vio = []
    obs = []
    try:
        r = cw.first_life(crash_at=n, crash_mode=mode)
        died_in = -1 if r else run_workload(cw, store)
        if not cw.crashed():
            raise HarnessError('crash point %d (%s) was not reached although the counting run performed %d mutations' % (n, mode, len(muts)))
        rc = cw.exit_status()
        log1 = cs.read_mutlog(cw.mutlog, cw.sq.cache_path)
        if rc != -9:
            # squid went down by itself before the injected kill: not what this execution is about
            obs.append('life 1 exited with status %s before crash point %d: %s' % (rc, n, '; '.join(cw.sq.health_problems())[:600]))
        elif log1 != [x['line'] for x in muts[:n]]:
            raise HarnessError('nondeterminism: mutation log of the crash run differs from the counting run prefix (n=%d): %r vs %r' % (
                n, log1[-3:], [x['line'] for x in muts[max(0, n - 3):n]]))
        if died_in is not None and died_in != m['wop'] and rc == -9:
            raise HarnessError('crash point %d fired during op %s, counting run attributes it to op %s' % (n, died_in, m['wop']))
        served_before = {k: [cs.tag_of(k, v) for v, s in vs] for k, vs in cw.served.items()}
        where = '%s crash %s mutation %d/%d [%s %d bytes on %s, %s]%s during %s' % (
            store, mode, n, len(muts), m['op'], m['len'], m['path'], m['cls'],
            ' (%d bytes written)' % case['cut'] if mode.startswith('partial') else '',
            'start-up' if m['wop'] < 0 else 'op %d %s' % (m['wop'], op_str(WORKLOADS[store]['ops'][m['wop']])))
        kbase = '%s:%s-%s' % (store, mode_class(mode), m['cls'])
        if dump and store == 'rock':
            print('rock db after the crash:')
            for l in cs.dump_rock(os.path.join(cw.sq.cache_path, 'rock'), cs.ROCK_SLOT):
                print('  ' + l)
        rr = cw.restart()
        hits = misses = 0
        probes = []
        if rr is not None:
            vio.append((kbase + ':restart-failed', '%s: restart on the same cache_dir failed: %s' % (where, rr)))
        else:
            for u in all_urls(store):
                p = cw.probe(u)
                probes.append(p.summary())
                if p.kind == 'died':
                    break
                if p.kind == 'hit':
                    hits += 1
                    if p.problem:
                        vio.append((kbase + ':corrupt-hit', '%s: after restart u%d: %s' % (where, u, p.problem)))
                elif p.kind == 'miss':
                    misses += 1
            hp = cw.sq.health_problems()
            if hp:
                vio.append((kbase + ':crash-after-restart', '%s: the restarted instance failed while serving: %s' % (where, '; '.join(hp)[:1500])))
        transcript = 'restart=%s|%s' % ('ok' if rr is None else 'failed', ' '.join(probes))
        return {'transcript': transcript, 'violations': vio, 'observations': obs, 'hits': hits, 'misses': misses,
                'cls': m['cls'], 'fired': rc == -9, 'served_before': served_before, 'starts': cw.starts, 'kicks': cw.kicks + (cw.sq.kicks if cw.sq else 0),
                'where': where}
    finally:
        cw.close()


ASSUME = [
    'process-kill model: bytes handed to write() before the SIGKILL survive (page cache), nothing is reordered; power loss / fsync ordering is out of scope',
    'the crash is injected by the LD_PRELOAD shim inside the real ASan squid binary (-N: rock and ufs I/O are synchronous in the main process); '
    'mutations = write/pwrite/writev/ftruncate/unlink/rename on files below the cache_dir',
    'ufs object files are removed by the unlinkd helper process, which is not under the shim: its unlinks are not crash points; the driver lets it drain before the restart',
    'aufs/diskd (threads / helper processes outside the event loop) are not run: they share UFSSwapDir/RebuildState with ufs and differ only in the I/O strategy',
    'a hit = a 200 response served without any request reaching the origin; versions are told apart by body phase (period 251) and the X-V header',
]
RULE = ('one case = (store, n, mode): the n-th cache-file mutation of the workload instance is done not at all / completely / up to a cut length and the '
        'process is SIGKILLed, then a normal instance is started on the directory and all workload URLs are requested; non-trivial = the injected '
        'kill fired, the restart came up and at least one URL was served as a hit that was compared byte for byte')


def explore(ctx, plan):
    """plan: list of (store, modes).  Returns the pieces of the Result."""
    t_end = ctx.t0 + ctx.deadline_s
    infos = {}
    cases = []
    def prep(i, its):
        out = []
        for store, modes in its:
            template, pre_served = make_template(ctx, store, -1 - i)
            muts, final, served = counting_run(ctx, store, template, pre_served, -1 - i)
            out.append((store, {'template': template, 'pre_served': pre_served, 'muts': muts, 'final': final}))
        return out
    # the (at most two) stores are prepared side by side
    for part in ls.run_sharded(ctx, prep, list(plan), nshards=2):
        for store, info in part or []:
            infos[store] = info
    for store, modes in plan:
        final = infos[store]['final']
        cases += make_cases(store, infos[store]['muts'], modes)
        # vacuity of the workload itself
        kinds = set(final.values())
        if not any(k.startswith('hit') for k in kinds) or 'miss' not in kinds:
            raise HarnessError('workload on %s did not produce both retained and evicted entries: %r' % (store, final))
    from vverif.core import load_findings
    listed = {f.get('key') for f in load_findings().get('findings', []) if f.get('property') == ctx.pid}

    def worker(shard, items):
        res = {'done': [], 'deadline_hit': False, 'replays': 0}
        longest = [12.0]

        def timed(case):
            """None when the remaining time does not allow another execution."""
            if time.time() + 1.5 * longest[0] + 5 > t_end:
                res['deadline_hit'] = True
                return None
            t = time.time()
            r = run_case(ctx, shard, case, infos[case['store']])
            longest[0] = max(longest[0], time.time() - t)
            return r
        for idx, case in enumerate(items):
            r = timed(case)
            if r is None:
                break
            if idx == 0 and shard < 2:
                # determinism obligation: the first execution of shards 0 and 1 is run twice, transcripts must agree
                # (every execution additionally checks its mutation log against the counting run)
                r2 = timed(case)
                if r2 is None:
                    break
                res['replays'] += 1
                if r2['transcript'] != r['transcript']:
                    raise HarnessError('nondeterminism: case %r gave %r then %r' % (case, r['transcript'], r2['transcript']))
            if r['violations']:
                # replay before report: twice; once if every key is a finding already recorded in known_findings
                reps = 1 if all(k in listed for k, _ in r['violations']) else 2
                ok = True
                for _ in range(reps):
                    r2 = timed(case)
                    if r2 is None:
                        ok = False
                        break
                    res['replays'] += 1
                    if sorted(k for k, _ in r2['violations']) != sorted(k for k, _ in r['violations']):
                        raise HarnessError('violation not reproducible for case %r: %r then %r' % (case, r['violations'], r2['violations']))
                if not ok:
                    break
            r['case'] = case
            res['done'].append(r)
        return res
    # interleave stores and modes so that a deadline cut leaves a balanced prefix
    try:
        parts = ls.run_sharded(ctx, worker, cases)
    finally:
        for i in infos.values():
            shutil.rmtree(i['template'], ignore_errors=True)
    done = [d for p in parts if p for d in p['done']]
    return infos, cases, done, any(p['deadline_hit'] for p in parts if p), sum(p['replays'] for p in parts if p)


def run(ctx):
    ls.build_squid(ctx)
    plan = [(s, m) for s, m in (QUICK_MODES if ctx.quick else THOROUGH_MODES).items()]
    if os.environ.get('VERIF_C16_STORES'):        # development aid: restrict the stores
        plan = [(s, m) for s, m in plan if s in os.environ['VERIF_C16_STORES'].split(',')]
    infos, cases, done, deadline_hit, replays = explore(ctx, plan)
    vio = []
    obs = []
    classes = {}
    nontrivial = 0
    hits = misses = starts = kicks = 0
    samples = []
    for d in done:
        c = d['case']
        oc = '%s:%s-%s:%s' % (c['store'], mode_class(c['mode']), d['cls'],
                              'VIOLATION' if d['violations'] else 'restart-ok hits=%s' % ('some' if d['hits'] else 'none'))
        classes[oc] = classes.get(oc, 0) + 1
        if d['fired'] and d['hits'] and d['transcript'].startswith('restart=ok'):
            nontrivial += 1
        hits += d['hits']
        misses += d['misses']
        starts += d['starts']
        kicks += d['kicks']
        for k, what in d['violations']:
            vio.append(Violation(k, what, {'case': c}))
        obs += d['observations']
    ordered = sorted(done, key=lambda d: (d['case']['store'], d['case']['n'], d['case']['mode']))
    for d in ordered[::max(1, len(ordered) // 6)][:6]:
        samples.append({'case': d['case'], 'where': d['where'], 'after_restart': d['transcript']})
    for d in ordered:
        if d['violations'] and len(samples) < 8:
            samples.append({'case': d['case'], 'where': d['where'], 'after_restart': d['transcript'], 'violation': d['violations'][0][0]})
    # 'before n' and 'after n-1' leave the same files: where both were run (thorough) the post-restart
    # observations must agree; the quick tier relies on this to skip 'before n' for n > 1
    by = {(d['case']['store'], d['case']['n'], d['case']['mode']): d for d in done}
    agree = 0
    for (store, n, mode), d in by.items():
        if mode == 'before' and (store, n - 1, 'after') in by:
            if by[(store, n - 1, 'after')]['transcript'] != d['transcript']:
                raise HarnessError('before %d and after %d on %s were expected to leave the same cache files but restart observations differ: %r vs %r' % (
                    n, n - 1, store, d['transcript'], by[(store, n - 1, 'after')]['transcript']))
            agree += 1
    if done and not vio:
        if hits < len(done) or misses < 1:
            raise HarnessError('vacuity guard: %d executions produced %d hits and %d misses after restart' % (len(done), hits, misses))
    if done and not all(d['fired'] for d in done) and not obs:
        raise HarnessError('some crash points did not fire')
    W = {s: len(i['muts']) for s, i in infos.items()}
    cov = {'evaluations': len(done), 'distinct_nontrivial': nontrivial, 'rule': RULE, 'samples': samples,
           'exhaustive': (not deadline_hit) and len(done) == len(cases), 'cases_total': len(cases), 'mutations_W': W,
           'modes': {s: m for s, m in ((QUICK_MODES if ctx.quick else THOROUGH_MODES).items())},
           'outcome_classes': classes, 'hits_compared': hits, 'misses': misses, 'squid_starts': starts, 'kicks': kicks,
           'determinism_and_violation_replays': replays, 'before_n_equals_after_n_minus_1_confirmed': agree,
           'workload': {s: [op_str(o) for o in WORKLOADS[s]['ops']] for s in W},
           'final_state_of_uncrashed_workload': {s: i['final'] for s, i in infos.items()},
           'tier_covers': ('quick: rock only, every mutation n in 1..W x {after, cut at half} plus before 1; before n (n>1) leaves the same '
                           'files as after n-1, which is run (equivalence confirmed case by case in the thorough tier)' if ctx.quick else
                           'thorough: rock and ufs, every mutation n in 1..W x {before, after, cut at 1, half, len-1 (rock also 39, 40, 4096 bytes)}')}
    return Result(LEVEL, cov, vio, ASSUME, obs)


def replay(ctx, data):
    ls.build_squid(ctx)
    case = data['case']
    store = case['store']
    template, pre_served = make_template(ctx, store)
    muts, final, served = counting_run(ctx, store, template, pre_served)
    info = {'template': template, 'pre_served': pre_served, 'muts': muts, 'final': final}
    try:
        r = run_case(ctx, 0, case, info, dump=True)
    finally:
        shutil.rmtree(template, ignore_errors=True)
    print(r['where'])
    print('pre-crash origin versions:', r['served_before'])
    print(r['transcript'])
    for k, what in r['violations']:
        print('  ', k, '::', what)
    return Result(LEVEL, {}, [Violation(k, what, data) for k, what in r['violations']], ASSUME)
