"""C31 Percent-encoding round-trips — E1, all byte strings up to length 2/3 through both codecs, ASan exact-size buffers."""
from vverif import seq
from vverif.core import Result, HarnessError

LEVEL = 'exploration'
RULE = ('(a) every byte string of length 0, 1 and 2 (65 793); (b) length 3: every string over a 41-symbol alphabet (quick) / all '
        '2^24 byte strings (thorough); (c) every string of length <= N (N=5 quick, 7 thorough) over % 0 4 g a F x 0x80 as '
        'input of the two decoders; (d) 9 repeating units blown up to 7 lengths between 1 and 5000 (thorough 65535) bytes in an '
        'up-down-up order. Each string goes through AnyP::Uri::Encode with 4 ignore-sets that do not contain "%" (unreserved, '
        'userinfo, empty, everything-but-%): the output must consist of ignored characters and %XX triplets only and Uri::Decode '
        'must give back the string; each NUL-free string goes through rfc1738_do_escape with the 5 flag sets that escape "%" '
        '(rfc1738_escape, rfc1738_escape_part, ...) and rfc1738_unescape must give back the string; 4 further flag sets and all '
        'decoder inputs of (c) run under the memory oracle; Uri::Decode is compared with a reference decoder on well-formed '
        'input. non-trivial = cases in which at least one %XX triplet was produced (with the unreserved set or by rfc1738_escape), plus decoder inputs containing "%"')
ASSUME = ['src/anyp/Uri.cc and lib/rfc1738.cc are recompiled from the scratch copy of the current tree with '
          '-fsanitize=address,undefined; inputs and in-place buffers are exact-size heap blocks, rfc1738_do_escape sizes its static '
          'result buffer exactly (3n+1), so ASan is the out-of-bounds oracle',
          'ignore-sets containing "%" (used by Squid for already-encoded input) and rfc1738 flag sets with NOPERCENT / without UNSAFE '
          'do not round-trip by design and are not asserted to',
          'what the decoders do with malformed triplets is not judged (only memory safety and "never grows")']
NONTRIVIAL = ['encoded-something', 'decode:well-formed-triplets', 'decode:malformed-rejected', 'decode:malformed-accepted']


def _build(ctx):
    return seq.build(ctx, 'tests/testURL', ['C31_pct.cc'], tree_sources=['anyp/Uri.cc', '../lib/rfc1738.cc'],
                     tree_flags=['-fsanitize=undefined', '-fno-sanitize-recover=undefined'])


def run(ctx):
    exe = _build(ctx)
    m = seq.run(ctx, exe)
    cov = seq.coverage_from(m, RULE, nontrivial_classes=NONTRIVIAL, min_classes=4)
    c = m['counters']
    if not m['deadline_hit']:
        oc = m['outcomes']
        for k, n in (('encoded-something', 1000), ('nothing-to-encode', 100), ('decode:well-formed-triplets', 100),
                     ('decode:malformed-rejected', 100)):
            if oc.get(k, 0) < n:
                raise HarnessError('vacuity guard: outcome class %s seen %d times' % (k, oc.get(k, 0)))
        if c.get('triplets_produced', 0) < 10000 or c.get('escape_buffer_growths', 0) < 5:
            raise HarnessError('vacuity guard: counters %r' % c)
    for k in ('encode_calls', 'decode_calls', 'escape_calls', 'unescape_calls', 'triplets_produced'):
        cov[k] = c.get(k, 0)
    return Result(LEVEL, cov, seq.violations_from(m), ASSUME)


def replay(ctx, data):
    exe = _build(ctx)
    m = seq.replay_case(ctx, exe, data['case'])
    m.setdefault('deadline_hit', False)
    return Result(LEVEL, {}, seq.violations_from(m), ASSUME)
