"""C25 Header blocks are parsed into exactly their fields — E1, exhaustive token strings against a reference field extractor."""
from vverif import seq
from vverif.core import Result, HarnessError

LEVEL = 'exploration'
KNOWN_CLASS = 'obs-fold-blank-continuation:value-keeps-line-terminator'  # see known_findings.d/C25.json
RULE = ('every string of <= L tokens (5 quick, 6 thorough) over the 14-token alphabet {A, Content-Length, Transfer-Encoding, '
        '":", SP, HTAB, CRLF, LF, CR, NUL, v, 1, chunked, ","} (plus 9 structured multi-field blocks), each placed in 3 contexts '
        '(alone, after a field, before a field) x 2 blank-line terminators (CRLF CRLF, LF LF) x owner {request, reply} x '
        'relaxed_header_parser {off, on} and given to HttpHeader::parse; on acceptance the stored entries (Content-Length '
        'entries excepted, see C26) must be the name/trimmed-value pairs a reference extractor finds in the block, in order, '
        'the reported block size must end at the first blank line, and packInto -> parse must reproduce identical entries; '
        'blocks in a never-accepted class (NUL, whitespace before colon in a request, obs-fold or bare CR in '
        'Content-Length/Transfer-Encoding, CR-only request line) must be rejected. '
        'non-trivial = token strings accepted with >= 1 stored field in some configuration or belonging to a never-accepted class')
ASSUME = ['tests/testHttpRequest link set: real HttpHeader.cc, HttpHeaderTools.cc, ContentLengthInterpreter, String, MemBuf, mem pools',
          'seam is HttpHeader::parse(buf, len, atEnd=false, hdr_sz, clen): obs-fold reaches it un-replaced (Http1::Parser::unfoldMime, '
          'which turns obs-fold into SP for real HTTP/1 messages before this code runs, is not part of this check); "joined" = the '
          'continuation lines belong to the one stored value',
          'whitespace before the colon in a *reply* may be rejected or stripped (RFC 9112 5.1 tells proxies to strip it; the code documents that); '
          'in a request it must be rejected',
          'value trimming may remove SP/HTAB only or all isspace() octets; with relaxed parsing a bare CR inside a non-framing field reads as SP',
          'line groups without a colon or with an empty name define no pair; Squid may reject them (it does) or ignore them',
          'field names compare case-insensitively (registered names are stored in canonical spelling)']


def _build(ctx):
    return seq.build(ctx, 'tests/testHttpRequest', ['C25_hdr.cc'])


def run(ctx):
    exe = _build(ctx)
    m = seq.run(ctx, exe)
    oc, cnt = m['outcomes'], m['counters']
    # vacuity guards apply to complete runs without (unknown) violations
    other = [f for f in m['failures'] if f['key'] != KNOWN_CLASS]
    if not m['deadline_hit'] and not other and not m['crashes']:
        need = ['accepted-with-fields', 'rejected-unspecified', 'must-reject:nul-byte', 'must-reject:whitespace-before-colon',
                'must-reject:obs-fold-in-framing-field', 'must-reject:bare-cr-in-framing-field', 'must-reject:cr-only-request-line']
        missing = [k for k in need if oc.get(k, 0) == 0]
        if missing:
            raise HarnessError('vacuity guard: outcome classes never reached: %r (have %r)' % (missing, oc))
        for c, least in (('accepted_with_fields', 1000), ('accepted_folded', 100), ('accepted_bare_cr', 100), ('must_reject_rejected', 1000),
                         ('repack_roundtrips', 1000), ('rejected', 1000)):
            if cnt.get(c, 0) < least:
                raise HarnessError('vacuity guard: counter %s = %d < %d' % (c, cnt.get(c, 0), least))
    nontriv = [k for k in oc if k.startswith('must-reject:') or k == 'accepted-with-fields']
    cov = seq.coverage_from(m, RULE, nontrivial_classes=nontriv, min_classes=1 if m['deadline_hit'] else 5)
    cov['parse_calls'] = cnt.get('parse_calls', 0)
    return Result(LEVEL, cov, seq.violations_from(m), ASSUME)


def replay(ctx, data):
    exe = _build(ctx)
    m = seq.replay_case(ctx, exe, data['case'])
    m.setdefault('deadline_hit', False)
    return Result(LEVEL, {}, seq.violations_from(m), ASSUME)
