// C53 — Ipc::Mem::PageStack (IdSet counting tree) under all interleavings (E2).
// Compiled with -include vatomic_pre.h together with the unmodified src/ipc/mem/PageStack.cc of the
// current tree: every load / CAS / fetch_add / fetch_or of the tree nodes and of size_ is a
// scheduling point, and compare_exchange_weak may fail spuriously once per execution.
//
// 2-3 processes run short scripts over {o = pop a page, u = push back the page acquired last}.
// Oracles:
//  * ownership table: a page returned by pop() is a valid page of the pool and is not held by anybody
//    (holding = from pop() return to the push() call); checked at the pop and as a state invariant;
//  * history: the completed operations must be linearizable w.r.t. a bag -- in particular a pop()
//    returning false needs a linearisation point at which the bag is empty;
//  * final: when all scripts are done, draining the stack returns exactly the pages nobody holds.
#include "squid.h"
#include "ipc/mem/Page.h"
#include "ipc/mem/PageStack.h"

#include "vharness.h"
#include "vsched/vsched.h"

#include <new>
#include <sstream>
#include <algorithm>

namespace {

using Ipc::Mem::PageStack;
using Ipc::Mem::PageId;

const uint32_t PoolId = 7;
const int MaxT = 3;
const int MaxPages = 130;

struct Pool {
    const char *name;
    unsigned capacity;
    bool createFull;
    std::vector<int> free;        // pushed during setup (ignored when createFull)
    int held[MaxT];               // page initially held by each process (0 = none)
};

const Pool Pools[] = {
    // two inner levels, three leaves in use; free pages in three different leaves
    {"cap130-free{1,65,129}", 130, false, {1, 65, 129}, {3, 67, 130}},
    // free pages share a leaf (and a subtree): poppers compete for the same leaf word
    {"cap130-free{1,2}", 130, false, {1, 2}, {3, 4, 129}},
    // initially empty: a pop succeeds only if it meets a push
    {"cap130-free{}", 130, false, {}, {1, 65, 129}},
    // one inner level (root + two leaves), created full and truncated to 3 ids
    {"cap3-full", 3, true, {}, {0, 0, 0}},
    // one inner level, initially empty
    {"cap3-free{}", 3, false, {}, {1, 2, 3}},
};
const int NPools = sizeof(Pools) / sizeof(Pools[0]);

alignas(64) char stackBuf[4096];
PageStack *S = nullptr;
const Pool *P = nullptr;
int NT = 2;

// ---- harness-side observation state
int owner[MaxPages + 2];              // -1 free (in the stack or being pushed), else holder id
std::vector<int> heldBy[MaxT];        // pages held, in acquisition order

struct Op { int proc; char type; int page; bool ok; uint64_t call, ret; };
std::vector<Op> history;

uint64_t nPopOk = 0, nPopEmpty = 0, nPush = 0, nSkippedPush = 0, nOverlapOps = 0, nLinChecks = 0, nLinNodes = 0, nConcurrentEmptyPop = 0, nCasRetry = 0, nNotStrict = 0;
std::string strictSample;

std::string opText(const Op &o)
{
    std::ostringstream os;
    os << 'p' << o.proc << ':';
    if (o.type == 'o') { if (o.ok) os << "pop->" << o.page; else os << "pop->EMPTY"; }
    else os << "push(" << o.page << ')';
    os << '[' << o.call << ',' << o.ret << ']';
    return os.str();
}

void doPop()
{
    const int me = VS::self();
    PageId page;
    const uint64_t call = VS::stepIndex(), mine = VS::procSteps();
    const bool ok = S->pop(page);
    const uint64_t ret = VS::stepIndex();
    // conflict-free cost: load+CAS per inner level and for the leaf, plus --size_; more = some CAS failed and was retried
    const uint64_t levels = S->ids_.measurements.innerLevelCount;
    if (ok && VS::procSteps() - mine > 2 * levels + 2 + 1) ++nCasRetry;
    if (!ok && VS::procSteps() - mine > 1) ++nCasRetry;
    VS::local(ok ? 1000 + page.number : 999);
    history.push_back({me, 'o', ok ? (int)page.number : 0, ok, call, ret});
    if (!ok) { ++nPopEmpty; VS::note("pop -> EMPTY"); return; }
    ++nPopOk;
    VS::note("pop -> page " + std::to_string(page.number));
    std::ostringstream os;
    if (page.pool != PoolId || page.number < 1 || page.number > P->capacity)
        os << "pop() by p" << me << " returned an invalid page (pool " << page.pool << ", number " << page.number << ", capacity " << P->capacity << ")";
    else if (owner[page.number] != -1)
        os << "pop() by p" << me << " returned page " << page.number << " which is currently held by p" << owner[page.number];
    if (!os.str().empty()) { VS::violation(os.str()); return; }
    owner[page.number] = me;
    heldBy[me].push_back(page.number);
}

void doPush()
{
    const int me = VS::self();
    if (heldBy[me].empty()) { ++nSkippedPush; return; }
    const int n = heldBy[me].back();
    heldBy[me].pop_back();
    owner[n] = -1;                      // released: from now on anybody may legitimately get it
    PageId page;
    page.pool = PoolId;
    page.number = n;
    VS::note("push(page " + std::to_string(n) + ")");
    const uint64_t call = VS::stepIndex();
    S->push(page);
    const uint64_t ret = VS::stepIndex();
    history.push_back({me, 'u', n, true, call, ret});
    ++nPush;
    if (page.set())
        VS::violation("push() did not reset the caller's PageId");
}

void runScript(const std::string &s)
{
    for (char c : s) {
        if (c == 'o') doPop(); else doPush();
        VS::yieldPoint();               // holders do something with their page between operations
    }
}

void invariant()
{
    // no page is in two holders' hands; every held page is a valid page owned by that holder
    int seen[MaxPages + 2];
    memset(seen, 0, sizeof(seen));
    for (int t = 0; t < NT; ++t) {
        for (int n : heldBy[t]) {
            if (n < 1 || n > (int)P->capacity) { VS::violation("a process holds an invalid page number " + std::to_string(n)); return; }
            if (seen[n]++) { VS::violation("page " + std::to_string(n) + " is held twice"); return; }
        }
    }
}

// ---- linearizability w.r.t. a bag, brute force with real-time order pruning
bool precedes(const Op &a, const Op &b)
{
    if (a.proc == b.proc) return &a < &b;      // program order (history is appended in per-process order)
    return a.ret < b.call;
}

// strict = bag of page identities (a successful pop must take a page that is in the bag at its
// linearisation point); !strict = counting abstraction (a successful pop takes one unit, whichever page it
// ends up with; identities are covered by the ownership table and the final drain instead)
bool linearize(const bool strict, std::vector<char> &done, size_t ndone, std::vector<char> &bag, int bagCount)
{
    ++nLinNodes;
    const size_t n = history.size();
    if (ndone == n) return true;
    for (size_t i = 0; i < n; ++i) {
        if (done[i]) continue;
        // i may come next only if every operation that really preceded it is already placed
        bool ready = true;
        for (size_t j = 0; j < n && ready; ++j)
            if (!done[j] && j != i && precedes(history[j], history[i])) ready = false;
        if (!ready) continue;
        const Op &o = history[i];
        if (o.type == 'u') {
            if (strict && bag[o.page]) continue;          // cannot add a page that is already in the bag
            const char was = bag[o.page];
            bag[o.page] = 1; done[i] = 1;
            if (linearize(strict, done, ndone + 1, bag, bagCount + 1)) return true;
            bag[o.page] = was; done[i] = 0;
        } else if (o.ok) {
            if (strict ? !bag[o.page] : bagCount <= 0) continue;
            const char was = bag[o.page];
            bag[o.page] = 0; done[i] = 1;
            if (linearize(strict, done, ndone + 1, bag, bagCount - 1)) return true;
            bag[o.page] = was; done[i] = 0;
        } else {
            if (bagCount != 0) continue;        // a failing pop needs an empty bag
            done[i] = 1;
            if (linearize(strict, done, ndone + 1, bag, bagCount)) return true;
            done[i] = 0;
        }
    }
    return false;
}

std::vector<int> initialFree()
{
    std::vector<int> f;
    if (P->createFull) for (unsigned i = 1; i <= P->capacity; ++i) f.push_back(i);
    else f = P->free;
    return f;
}

struct AssertionFailed { std::string what; };

void finalCheck()
{
    // (1) history
    ++nLinChecks;
    bool overlap = false, emptyPopOverlapsPush = false;
    for (auto &a : history) for (auto &b : history) {
        if (a.proc != b.proc && !precedes(a, b) && !precedes(b, a)) {
            overlap = true;
            if (a.type == 'o' && !a.ok && b.type == 'u') emptyPopOverlapsPush = true;
        }
    }
    if (overlap) ++nOverlapOps;
    if (emptyPopOverlapsPush) ++nConcurrentEmptyPop;
    std::vector<char> done(history.size(), 0), bag(MaxPages + 2, 0);
    int count = 0;
    for (int n : initialFree()) { bag[n] = 1; ++count; }
    if (!linearize(false, done, 0, bag, count)) {
        std::ostringstream os;
        os << "history is not linearizable: an allocation failed although at every point during it some page was neither held "
              "nor claimed by a concurrent allocation, or more pages were allocated than existed (free initially:";
        for (int n : initialFree()) os << ' ' << n;
        os << "):";
        for (auto &o : history) os << ' ' << opText(o);
        VS::violation(os.str());
        return;
    }
    // observation only: the same history against a bag with page identities
    std::fill(done.begin(), done.end(), 0);
    std::fill(bag.begin(), bag.end(), 0);
    for (int n : initialFree()) bag[n] = 1;
    if (!linearize(true, done, 0, bag, count)) {
        ++nNotStrict;
        if (strictSample.empty()) {
            std::ostringstream os;
            for (auto &o : history) os << ' ' << opText(o);
            strictSample = os.str();
        }
    }
    // (2) once activity has stopped every page nobody holds can be allocated again, and nothing else
    std::vector<int> expect;
    for (unsigned n = 1; n <= P->capacity; ++n) {
        bool known = P->createFull;
        for (int f : P->free) if (f == (int)n) known = true;
        for (int t = 0; t < NT; ++t) if (P->held[t] == (int)n) known = true;
        if (!known) continue;                       // a page that never existed in this scenario
        bool heldNow = false;
        for (int t = 0; t < MaxT; ++t) for (int h : heldBy[t]) if (h == (int)n) heldNow = true;
        if (!heldNow) expect.push_back(n);
    }
    std::vector<int> got;
    try {
        for (unsigned i = 0; i <= P->capacity + 1; ++i) {
            PageId page;
            if (!S->pop(page)) break;
            got.push_back(page.number);
        }
    } catch (const AssertionFailed &f) {
        VS::violation("while draining the stack after all scripts finished: " + f.what);
        return;
    }
    std::sort(got.begin(), got.end());
    if (got != expect) {
        std::ostringstream os;
        os << "after all scripts finished, draining the stack returned {";
        for (int n : got) os << ' ' << n;
        os << " } but the pages nobody holds are {";
        for (int n : expect) os << ' ' << n;
        os << " }";
        VS::violation(os.str());
    }
}

void setupState()
{
    memset(stackBuf, 0, sizeof(stackBuf));
    PageStack::Config cfg;
    cfg.poolId = PoolId;
    cfg.pageSize = 32;
    cfg.capacity = P->capacity;
    cfg.createFull = P->createFull;
    if (PageStack::StackSize(cfg.capacity) > sizeof(stackBuf)) abort();
    S = new (stackBuf) PageStack(cfg);
    for (int n = 0; n < MaxPages + 2; ++n) owner[n] = -1;
    for (int t = 0; t < MaxT; ++t) heldBy[t].clear();
    history.clear();
    if (!P->createFull) {
        for (int n : P->free) { PageId pg; pg.pool = PoolId; pg.number = n; S->push(pg); }
    }
    for (int t = 0; t < NT; ++t)
        if (P->held[t]) { heldBy[t].push_back(P->held[t]); owner[P->held[t]] = t; }
}

void stateBytes(std::string &b)
{
    // the whole PageStack object incl. the tree nodes (config_ is constant) + who holds what
    b.append(stackBuf, PageStack::StackSize(P->capacity));
    for (int t = 0; t < NT; ++t) { for (int n : heldBy[t]) b.push_back((char)n); b.push_back((char)255); }
}

std::vector<std::string> scriptsUpTo(int len)
{
    std::vector<std::string> out, cur = {""};
    for (int l = 1; l <= len; ++l) {
        std::vector<std::string> nxt;
        for (auto &p : cur) for (char c : std::string("ou")) nxt.push_back(p + c);
        out.insert(out.end(), nxt.begin(), nxt.end());
        cur.swap(nxt);
    }
    return out;
}

// seconds left of the tier's global deadline (the driver passes the total; V::S().start is the harness start)
double remainingS(const V::Ctx &ctx)
{
    if (ctx.deadlineS <= 0) return 0;                      // no deadline
    const double r = ctx.deadlineS - difftime(time(nullptr), V::S().start);
    return r < 2 ? -1 : r;
}

void body(V::Ctx &ctx)
{
    struct Plan { int threads; int len; int bound; };
    std::vector<Plan> plans;
    if (ctx.quick()) { plans.push_back({2, 3, 2}); plans.push_back({3, 1, 2}); }
    else { plans.push_back({2, 3, 3}); plans.push_back({3, 2, 2}); plans.push_back({3, 1, 3}); }

    const char *only = getenv("C53_ONLY_PLAN");          // measurement aid
    int planNo = -1;
    for (const auto &plan : plans) {
        ++planNo;
        if (only && atoi(only) != planNo) continue;
        const auto scripts = scriptsUpTo(plan.len);
        for (int pi = 0; pi < NPools; ++pi) {
            std::vector<size_t> idx(plan.threads, 0);
            // processes are not symmetric (they hold different pages initially), so all tuples are run
            // for pools with initial holdings and only non-decreasing tuples for cap3-full
            const bool symmetric = Pools[pi].held[0] == 0;
            std::function<void(int, size_t)> rec = [&](int t, size_t from) {
                if (t < plan.threads) {
                    for (size_t i = symmetric ? from : 0; i < scripts.size(); ++i) { idx[t] = i; rec(t + 1, i); }
                    return;
                }
                std::string name = std::string("pagestack ") + Pools[pi].name;
                for (int i = 0; i < plan.threads; ++i) name += " p" + std::to_string(i) + "=" + scripts[idx[i]];
                name += " bound=" + std::to_string(plan.bound);
                std::string replaySched;
                if (ctx.replay) {
                    const auto bar = ctx.replayCase.find('|');
                    if (ctx.replayCase.substr(0, bar) != name) { V::begin_case(name); return; }
                    replaySched = bar == std::string::npos ? "" : ctx.replayCase.substr(bar + 1);
                    ctx.replayCase = name;
                }
                if (!V::begin_case(name)) return;

                P = &Pools[pi];
                NT = plan.threads;
                VS::Scenario sc;
                sc.name = name;
                sc.maxDeviations = plan.bound;
                sc.spuriousCas = true;
                sc.setup = setupState;
                for (int i = 0; i < plan.threads; ++i) {
                    const std::string s = scripts[idx[i]];
                    sc.procs.push_back([s] { runScript(s); });
                }
                sc.invariant = invariant;
                sc.final = finalCheck;
                sc.stateBytes = stateBytes;
                VS::Stats st;
                if (ctx.replay) {
                    const bool bad = VS::replay(sc, VS::parseSchedule(replaySched), st);
                    printf("%s", st.trace.c_str());
                    if (bad) V::fail(st.violation);
                    V::end_case();
                    return;
                }
                const double left = remainingS(ctx);
                if (left < 0) { V::S().sh->deadlineHit = 1; V::count("scenarios_skipped_at_deadline"); V::end_case(); return; }
                VS::explore(sc, st, left);
                V::count("executions", st.executions);
                V::count("steps", st.steps);
                V::count("states", st.states);
                V::count("context_switches", st.contextSwitches);
                V::count("pop_ok", nPopOk); nPopOk = 0;
                V::count("pop_empty", nPopEmpty); nPopEmpty = 0;
                V::count("pushes", nPush); nPush = 0;
                V::count("skipped_pushes", nSkippedPush); nSkippedPush = 0;
                V::count("histories_checked", nLinChecks); nLinChecks = 0;
                V::count("histories_with_overlapping_ops", nOverlapOps); nOverlapOps = 0;
                V::count("histories_with_empty_pop_overlapping_push", nConcurrentEmptyPop); nConcurrentEmptyPop = 0;
                V::count("linearization_search_nodes", nLinNodes); nLinNodes = 0;
                V::count("pops_with_cas_retry", nCasRetry); nCasRetry = 0;
                V::count("histories_not_identity_bag_linearizable", nNotStrict);
                if (nNotStrict) V::sample("OBS reservation effect in " + name + ":" + strictSample);
                nNotStrict = 0; strictSample.clear();
                if (st.capHit) V::count("cap_hit");
                if (st.boundCompleted >= plan.bound) V::count("scenarios_completed_at_bound");
                V::outcome(st.violated ? "violated" : (st.contextSwitches ? "explored-with-conflicts" : "explored"));
                if (st.violated)
                    V::fail(st.violation + " | schedule=" + VS::fmtSchedule(st.schedule) + " | replay-case=" + name + "|" + VS::fmtSchedule(st.schedule));
                V::end_case();
            };
            rec(0, 0);
        }
    }
}

} // namespace

// assertion failures inside a process are reported as a violation of the running schedule
// (with its replayable choice list) instead of killing the harness
void xassert(const char *msg, const char *file, int line)
{
    const std::string m = std::string("assertion failed: ") + file + ":" + std::to_string(line) + ": \"" + msg + "\"";
    if (VS::self() >= 0)
        VS::violation(m);       // does not return
    throw AssertionFailed{m};   // main context: caught by finalCheck() (anywhere else it terminates the case)
}

extern "C" const char *__asan_default_options() { return "detect_stack_use_after_return=0"; }

VHARNESS_MAIN(body)
