"""C56 Inter-process queues are FIFO without lost items or wake-ups — E2: the real OneToOneUniQueue /
QueueReader code under every interleaving of one producer and one consumer (preemption-bounded for all
configurations, complete with state caching for the smallest ones)."""
from vverif import seq, sched
from vverif.core import Result, HarnessError

LEVEL = 'model_checking'
ASSUME = ['sequentially consistent interleavings; scheduling points before and after every std::atomic operation, so the plain '
          'accesses to theIn/theOut/theBuffer between two atomics form one step of their own (adequate for x86-TSO with seq_cst RMWs)',
          'src/ipc/Queue.h templates and src/ipc/Queue.cc of the current tree compiled unmodified with std::atomic substituted by a '
          'scheduler-controlled atomic (forced pre-include)',
          'the out-of-band notification (a UDS message in Squid) is modelled as a counter that the producer increments one scheduling '
          'step after push() returned true; the consumer follows the calling protocol of CollapsedForwarding/IpcIoFile '
          '(clearSignal, then pop until false)',
          'the all-interleavings part prunes on a hash of shared state + per-process read history + step counts']

OBJECTS = ['String.o', 'SquidConfig.o', 'tests/stub_debug.o', 'tests/stub_libmem.o', 'tests/stub_tools.o', 'tests/stub_fatal.o',
           'tests/stub_Instance.o', 'tests/stub_cbdata.o', 'tests/stub_HelperChildConfig.o']
LIBS = ['ipc/.libs/libipc.a', 'base/.libs/libbase.a', 'sbuf/.libs/libsbuf.a', 'ip/.libs/libip.a',
        '../compat/.libs/libcompatsquid.a', '../lib/.libs/libmiscutil.a']

RULE = ('scenarios = capacity {1,2,4} x items k = 1..capacity+1 (k = capacity+1 forces Queue::Full and buffer wrap-around) x consumer '
        'starting with its at-start sweep or already idle+blocked; every schedule with <= 2 (quick) / 3 (thorough) preemptions; in addition '
        'ALL interleavings (no bound, state caching) for capacity 1,2 with k <= 2 (quick) / capacity 1,2,4 with k <= 2 and capacity 2,4 '
        'with k = 3 and an idle consumer (thorough); each execution runs the real push()/pop()/clearSignal() code')


def _build(ctx):
    return sched.build(ctx, 'C56_queue.cc', ['ipc/Queue.cc'], objects=OBJECTS, libs=LIBS)


def _result(ctx, m):
    c = m['counters']
    partial = m['deadline_hit'] or c.get('cap_hit')
    if not m['failures'] and not m['crashes'] and not partial:
        need = {'notifications': 10, 'pushes_without_notification': 10, 'full_thrown': 10, 'pop_false': 10,
                'pop_race_window_hits': 10, 'pop_overlapping_push': 10, 'wrapped_pushes': 10, 'idle_periods': 10,
                'context_switches': 100, 'scenarios_completed_unbounded': 1}
        low = {k: c.get(k, 0) for k, v in need.items() if c.get(k, 0) < v}
        if low:
            raise HarnessError('vacuity guard: too few conflict witnesses: %r' % low)
    bound = '%d preemptions (all scenarios) + all interleavings of %d small scenarios' % (
        2 if ctx.quick else 3, c.get('scenarios_completed_unbounded', 0))
    cov = {
        'states': c.get('states', 0), 'transitions': c.get('steps', 0),
        'traces_validated_against_impl': c.get('executions', 0),
        'scenarios': m['evaluations'],
        'scenarios_completed_at_bound': c.get('scenarios_completed_at_bound', 0),
        'scenarios_completed_unbounded': c.get('scenarios_completed_unbounded', 0),
        'bound_completed': bound if not partial else 'partial',
        'pruned_executions': c.get('pruned', 0),
        'conflict_witnesses': {k: c.get(k, 0) for k in ('context_switches', 'notifications', 'pushes_without_notification', 'full_thrown',
                                                        'pop_true', 'pop_false', 'pop_race_window_hits', 'pop_overlapping_push',
                                                        'wrapped_pushes', 'idle_periods')},
        'rule': RULE, 'samples': m['samples'], 'exhaustive': not partial, 'outcome_classes': m['outcomes'],
    }
    return Result(LEVEL, cov, seq.violations_from(m), ASSUME)


def run(ctx):
    exe = _build(ctx)
    m = seq.run(ctx, exe)
    return _result(ctx, m)


def replay(ctx, data):
    exe = _build(ctx)
    m = seq.replay_case(ctx, exe, data['case'])     # "scenario|schedule"
    return Result(LEVEL, {}, seq.violations_from(m), ASSUME)
